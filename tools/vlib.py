"""Shared machinery for the /verif checks: building (STIR, Lean, harnesses), running the
Lean driver, auditing the Lean proofs, known findings, evidence and violation reporting."""
import fcntl, glob, hashlib, json, os, re, shutil, subprocess, sys, time

VERIF = os.path.dirname(os.path.dirname(os.path.abspath(__file__)))
REPO = os.environ.get("STIR_REPO", "/repo")
LEAN = os.path.join(VERIF, "lean")
# VERIF_BUILD_DIR / VERIF_EVID_DIR / STIR_REPO: used only by the seeded-defect runs (tools/mutrun.py), which build a
# scratch worktree of /repo into a scratch build directory so that the registered checks' state is not disturbed
BUILD = os.environ.get("VERIF_BUILD_DIR", os.path.join(VERIF, "build"))
BIN = os.path.join(BUILD, "bin")
OUT = os.path.join(BUILD, "out")
EVID = os.environ.get("VERIF_EVID_DIR", os.path.join(VERIF, "evidence"))
REPLAYS = os.path.join(os.environ["VERIF_EVID_DIR"], "replays") if "VERIF_EVID_DIR" in os.environ else os.path.join(VERIF, "replays")
sys.path.insert(0, os.path.join(VERIF, "tools"))
import build_stir  # noqa: E402

NCPU = os.cpu_count() or 8


def seed():
    try:
        return int(os.environ.get("VERIF_SEED", "1"))
    except ValueError:
        return 1


def sh(cmd, **kw):
    return subprocess.run(cmd, stdout=subprocess.PIPE, stderr=subprocess.STDOUT, text=True, **kw)


# --------------------------------------------------------------------------- STIR + harness

def stir_build(flavour="plain"):
    return build_stir.build(flavour, quiet=True)


def stir_link_args(bdir):
    libs = sorted(glob.glob(os.path.join(bdir, "src", "**", "*.a"), recursive=True))
    regs = sorted(glob.glob(os.path.join(bdir, "src", "CMakeFiles", "stir_registries.dir", "**", "*.o"), recursive=True))
    extra = ["-L/usr/lib/x86_64-linux-gnu/hdf5/serial", "-lhdf5_cpp", "-lhdf5", "-lX11", "-lcurses", "-lz", "-lpthread"]
    # only link system libs that exist
    args = regs + ["-Wl,--start-group"] + libs + ["-Wl,--end-group"]
    for l in extra:
        args.append(l)
    return args


def compile_harness(name, sanitize=False, flavour="plain", extra_flags=()):
    """Compile harness/<name>.cxx against the STIR build of /repo's working tree.
    Always recompiles (headers of /repo may have changed); ~2-15 s."""
    bdir = stir_build(flavour)
    os.makedirs(BIN, exist_ok=True)
    src = os.path.join(VERIF, "harness", name + ".cxx")
    exe = os.path.join(BIN, name + ("-asan" if sanitize else ""))
    cmd = ["g++", "-std=gnu++17", "-O1", "-g", "-w", "-DNDEBUG", "-DUCL_STIR_VERIF",
           "-I", os.path.join(bdir, "src", "include"), "-I", os.path.join(REPO, "src", "include"),
           "-I", "/usr/include/hdf5/serial",
           "-I", os.path.join(VERIF, "harness")]
    if flavour == "omp":
        cmd.append("-fopenmp")
    if sanitize:
        cmd += ["-fsanitize=address,undefined", "-fno-sanitize-recover=all", "-fno-omit-frame-pointer"]
    cmd += list(extra_flags)
    cmd += [src, "-o", exe] + stir_link_args(bdir)
    r = sh(cmd)
    if r.returncode != 0:
        # retry without optional system libraries that may be absent
        sys.stderr.write(r.stdout[-6000:])
        raise SystemExit("harness %s failed to compile/link" % name)
    return exe


# --------------------------------------------------------------------------- Lean

def lean_build(targets=("StirVerif", "stirdriver")):
    """lake build (serialised).  Returns (ok, output)."""
    os.makedirs(BUILD, exist_ok=True)
    lock = open(os.path.join(BUILD, ".lock-lean"), "w")
    fcntl.flock(lock, fcntl.LOCK_EX)
    try:
        r = sh(["lake", "build"] + list(targets), cwd=LEAN)
        return r.returncode == 0, r.stdout
    finally:
        fcntl.flock(lock, fcntl.LOCK_UN)


def driver_exe():
    return os.path.join(LEAN, ".lake", "build", "bin", "stirdriver")


def dev_mode():
    """VERIF_DEV=1: a property under development that is not yet wired into lean/Driver/Main.lean and
    lean/StirVerif.lean: build only its own modules and run its driver with the interpreter
    (lean/Driver/Run<Cxx>.lean = `import Driver.<Cxx>` + `def main := Driver.<Cxx>.main`)."""
    return os.environ.get("VERIF_DEV", "") == "1"


def run_driver(prop, opsfile, outfile, args=()):
    if dev_mode():
        cmd = ["lake", "env", "lean", "--run", os.path.join("Driver", "Run%s.lean" % prop)] + list(args)
        cwd = LEAN
    else:
        cmd = [driver_exe(), prop] + list(args)
        cwd = None
    with open(opsfile) as fin, open(outfile, "w") as fout:
        r = subprocess.run(cmd, stdin=fin, stdout=fout, stderr=subprocess.PIPE, text=True, cwd=cwd)
    return r.returncode, r.stderr


_FORBIDDEN = re.compile(r"\b(sorry|admit|native_decide|bv_decide|implemented_by|unsafe)\b|^\s*axiom\s|maxHeartbeats\s+0", re.M)


def _strip_lean_comments(text):
    # remove nested block comments and line comments
    out, i, depth = [], 0, 0
    while i < len(text):
        if text.startswith("/-", i):
            depth += 1
            i += 2
        elif depth and text.startswith("-/", i):
            depth -= 1
            i += 2
        elif depth:
            i += 1
        elif text.startswith("--", i):
            j = text.find("\n", i)
            i = len(text) if j < 0 else j
        else:
            out.append(text[i])
            i += 1
    return "".join(out)


def lean_audit(prop):
    """Audit the Lean sources of one property directory:
    - no sorry/admit/axiom/native_decide/bv_decide/implemented_by/unsafe/maxHeartbeats 0 outside comments
    - #print axioms of every theorem of Props.lean: only propext / Classical.choice / Quot.sound
    Returns dict(obligations, discharged, theorems=[...], axioms={...}, problems=[...])."""
    pdir = os.path.join(LEAN, "StirVerif", prop)
    problems = []
    files = sorted(glob.glob(os.path.join(pdir, "*.lean")))
    for f in files:
        body = _strip_lean_comments(open(f).read())
        for m in _FORBIDDEN.finditer(body):
            problems.append("%s: forbidden token %r" % (os.path.relpath(f, VERIF), m.group(0).strip()))
    props = os.path.join(pdir, "Props.lean")
    names, examples = [], 0
    if os.path.exists(props):
        body = _strip_lean_comments(open(props).read())
        ns = re.search(r"^namespace\s+(\S+)", body, re.M)
        nsname = ns.group(1) if ns else ""
        for m in re.finditer(r"^(?:theorem|lemma)\s+([A-Za-z0-9_.']+)", body, re.M):
            names.append((nsname + "." if nsname else "") + m.group(1))
        examples = len(re.findall(r"^example\b", body, re.M))
    axioms = {}
    if names:
        os.makedirs(OUT, exist_ok=True)
        af = os.path.join(OUT, "Audit_%s.lean" % prop)
        with open(af, "w") as fh:
            fh.write("import StirVerif.%s.Props\n" % prop)
            for n in names:
                fh.write("#print axioms %s\n" % n)
        r = sh(["lake", "env", "lean", af], cwd=LEAN)
        if r.returncode != 0:
            problems.append("axiom audit failed to elaborate: " + r.stdout[-2000:])
        cur = None
        text = r.stdout
        for m in re.finditer(r"'([^']+)' (does not depend on any axioms|depends on axioms: \[([^\]]*)\])", text, re.S):
            nm = m.group(1)
            ax = [] if m.group(3) is None else [a.strip() for a in m.group(3).replace("\n", " ").split(",") if a.strip()]
            axioms[nm] = ax
            bad = [a for a in ax if a not in ("propext", "Classical.choice", "Quot.sound")]
            if bad:
                problems.append("theorem %s depends on non-standard axioms %s" % (nm, bad))
        for n in names:
            if n not in axioms:
                problems.append("theorem %s not found in compiled environment" % n)
    obligations = len(names) + examples
    discharged = len([n for n in names if n in axioms]) + examples
    return dict(obligations=obligations, discharged=discharged if not problems else min(discharged, obligations - 1),
                theorems=names, examples=examples, axioms=axioms, problems=problems)


# --------------------------------------------------------------------------- known findings

def known_findings():
    """known_findings.txt lines:  `known: property=Cxx key=<key> <description>`  (still open, suppresses
    exactly the violation with that key)  or `fixed: property=Cxx <commit> <description>` (suppresses nothing)."""
    res = {}
    p = os.path.join(VERIF, "known_findings.txt")
    if os.path.exists(p):
        for line in open(p):
            line = line.strip()
            m = re.match(r"known:\s+property=(C\d+)\s+key=(\S+)\s+(.*)", line)
            if m:
                res.setdefault(m.group(1), {})[m.group(2)] = m.group(3)
    return res


# --------------------------------------------------------------------------- reporting

class Check:
    def __init__(self, prop, tier, level="proof"):
        self.prop, self.tier, self.level = prop, tier, level
        self.t0 = time.time()
        self.violations = []   # (key, description, replay text)
        self.known_hits = []
        self.coverage = {}
        self.assumptions = []
        self.known = known_findings().get(prop, {})
        os.makedirs(OUT, exist_ok=True)
        os.makedirs(REPLAYS, exist_ok=True)

    def violation(self, key, description, replay_text, found_input=True):
        """Report a violation unless `key` is a listed known finding."""
        if key in self.known:
            if key not in [k for k, _ in self.known_hits]:
                self.known_hits.append((key, self.known[key]))
            return
        self.violations.append((key, description, replay_text, found_input))

    def finish(self):
        wall = time.time() - self.t0
        for key, desc in self.known_hits:
            print("KNOWN-FINDING: property=%s %s (%s)" % (self.prop, desc, key))
        paths = []
        for n, (key, desc, text, found) in enumerate(self.violations):
            h = hashlib.sha1((key + desc).encode()).hexdigest()[:10]
            path = os.path.join(REPLAYS, "%s-%s-%s.replay" % (self.prop, self.tier, h))
            with open(path, "w") as fh:
                fh.write("# property=%s key=%s\n# %s\n" % (self.prop, key, desc.replace("\n", "\n# ")))
                fh.write(text if text.endswith("\n") else text + "\n")
            paths.append((path, desc, found))
        ev = dict(property_id=self.prop, tier=self.tier, seed=seed(), level=self.level,
                  coverage=self.coverage, assumptions=self.assumptions, wall_s=round(wall, 2),
                  violations=len(self.violations))
        os.makedirs(EVID, exist_ok=True)
        with open(os.path.join(EVID, self.prop + ".json"), "w") as fh:
            json.dump(ev, fh, indent=1, sort_keys=True)
            fh.write("\n")
        # one VIOLATION line per distinct replay (at most 5 printed)
        for path, desc, found in paths[:5]:
            print("VIOLATION property=%s replay=%s %s%s" % (self.prop, path, desc.split("\n")[0][:200],
                                                           "" if found else " no-failing-input-found"))
        if paths:
            return 1
        # disk space is limited: the harnesses' scratch directories (saved iterates, Interfile files, ...) are only needed
        # to replay a violation
        for d in glob.glob(os.path.join(OUT, self.prop.lower() + "*")):
            other = "thorough" if self.tier == "quick" else "quick"
            if other in os.path.basename(d) and self.tier not in os.path.basename(d):
                continue    # belongs to a run of the other tier that may be in progress
            if os.path.isdir(d):
                shutil.rmtree(d, ignore_errors=True)
            elif os.path.isfile(d) and os.path.getsize(d) > (4 << 20):
                try:
                    os.remove(d)        # large ops / answer streams of a run that agreed
                except OSError:
                    pass
        print("OK property=%s tier=%s wall=%.1fs" % (self.prop, self.tier, wall))
        return 0


def proof_coverage(chk, audit, checker_cmd, trusted_extra=()):
    """Fill the proof-level evidence keys from a lean_audit result."""
    chk.coverage.update(dict(
        obligations=audit["obligations"], discharged=audit["discharged"],
        checker_cmd=checker_cmd,
        theorems=audit["theorems"],
        axioms_used=sorted({a for v in audit["axioms"].values() for a in v}),
        leanchecker=audit.get("leanchecker", {}),
        trusted_base=["Lean 4.33.0 kernel (lake build; `#print axioms` per property theorem: subset of propext, Classical.choice, Quot.sound)",
                      "no sorry/admit/own axioms/native_decide/bv_decide/implemented_by/unsafe (grep audit with comments stripped, run in this check)",
                      "hand-written Lean model tied to the C++ by the correspondence run of this check (tools/vlib.py, harness/, lean/Driver)"] + list(trusted_extra)))


def lean_gate(chk, prop):
    """Build Lean + audit; on failure report a violation without failing input (caller may search)."""
    if dev_mode():
        ok, out = lean_build(targets=("StirVerif.%s.Props" % prop, "Driver.%s" % prop))
    else:
        ok, out = lean_build()
        if not ok:
            # the library as a whole does not build: if this property's own modules and driver do, the failure belongs to
            # another property's files (reported by that property's check); go on with the driver run by the interpreter
            ok2, out2 = lean_build(targets=("StirVerif.%s.Props" % prop, "Driver.%s" % prop))
            if ok2:
                os.environ["VERIF_DEV"] = "1"
                chk.coverage["lean_build_note"] = ("`lake build StirVerif stirdriver` fails in a module this property does not import; "
                                                   "this property's modules build, its driver was run interpreted")
                ok, out = ok2, out2
    if not ok:
        errs = [l for l in out.splitlines() if l.startswith("error") or "✖" in l or ": error" in l]
        first = errs[0][:160] if errs else ""
        chk.violation("lean-build", "Lean library does not build: a proof obligation or the driver no longer checks" + (" (%s)" % first if first else ""),
                      "# theorem / module that no longer checks:\n" + "\n".join(errs[:40]) + "\n# ---- tail of the build output\n" + out[-3000:], found_input=False)
        return None
    audit = lean_audit(prop)
    if audit["problems"]:
        chk.violation("lean-audit", "Lean audit failed: " + "; ".join(audit["problems"])[:300],
                      "\n".join(audit["problems"]), found_input=False)
    audit["leanchecker"] = lean_recheck(chk, prop, chk.tier)
    return audit


def lean_recheck(chk, prop, tier):
    """Independent re-check of the compiled .olean files with `leanchecker` (replays every declaration of the module in
    the kernel): quick tier = the property's Props module, thorough tier = every module of the property's directory."""
    pdir = os.path.join(LEAN, "StirVerif", prop)
    mods = ["StirVerif.%s.Props" % prop]
    if tier == "thorough":
        mods = sorted("StirVerif.%s.%s" % (prop, os.path.basename(f)[:-5]) for f in glob.glob(os.path.join(pdir, "*.lean")))
    procs = [(m, subprocess.Popen(["lake", "env", "leanchecker", m], cwd=LEAN, stdout=subprocess.PIPE,
                                  stderr=subprocess.STDOUT, text=True)) for m in mods]
    bad = []
    for m, p in procs:
        out, _ = p.communicate()
        if p.returncode != 0:
            bad.append("%s: %s" % (m, out[-600:]))
    if bad:
        chk.violation("leanchecker", "leanchecker rejects compiled module(s): " + "; ".join(b.split(":")[0] for b in bad),
                      "\n".join(bad), found_input=False)
    return dict(modules=mods, rejected=len(bad))


# --------------------------------------------------------------------------- generic differential run

def run_differential(chk, prop, harness, tier, sanitize=False, extra_args=(), ctx_prefixes=("cfg",), max_report=4,
                     compare=None, timeout=3000, flavour="plain"):
    """Pattern used by most properties: the harness (real STIR code) enumerates / generates inputs,
    writes one operation per line to <ops> and its own answer per line to <impl> (and property-oracle
    verdicts to <impl>.oracle); the Lean driver answers the same <ops>; the two answer streams are compared
    line by line (`compare(op, impl, model) -> bool` may implement a tolerance).  Returns a stats dict."""
    exe = compile_harness(harness, sanitize=sanitize, flavour=flavour)
    tag = "%s_%s" % (prop.lower(), tier)
    ops = os.path.join(OUT, tag + ".ops")
    impl = os.path.join(OUT, tag + ".impl")
    model = os.path.join(OUT, tag + ".model")
    for f in (ops, impl, model, impl + ".oracle"):
        if os.path.exists(f):
            os.remove(f)
    env = dict(os.environ, STIR_CONFIG_DIR=os.path.join(REPO, "src", "config"),
               ASAN_OPTIONS="detect_leaks=0:exitcode=66", UBSAN_OPTIONS="exitcode=66")
    try:
        r = sh([exe, str(seed()), tier, ops, impl] + list(extra_args), env=env, timeout=timeout)
    except subprocess.TimeoutExpired:
        chk.violation("harness-timeout", "harness %s timed out" % harness, "timeout", found_input=False)
        return dict(ops=0, mismatches=0)
    if r.returncode != 0:
        chk.violation("harness-abort", "harness %s aborted (exit %d): the implementation crashed or a sanitizer fired" % (harness, r.returncode),
                      r.stdout[-4000:], found_input=True)
    if not os.path.exists(ops) or os.path.getsize(ops) == 0:
        # nothing was exercised: never report OK for that (e.g. the scratch files were removed by a concurrent run)
        if r.returncode == 0:
            chk.violation("harness-incomplete", "harness %s ended without writing any operation: nothing was checked" % harness,
                          r.stdout[-2000:] or "no output", found_input=False)
        return dict(ops=0, mismatches=0)
    rc, err = run_driver(prop, ops, model)
    if not os.path.exists(model) or not os.path.exists(impl):
        chk.violation("harness-incomplete", "answer streams of %s are missing (impl: %s, model: %s): nothing was compared"
                      % (harness, os.path.exists(impl), os.path.exists(model)), (err or "")[-2000:] or "no output", found_input=False)
        return dict(ops=0, mismatches=0)
    ol = open(ops).read().splitlines()
    il = open(impl).read().splitlines()
    ml = open(model).read().splitlines()
    stats = dict(ops=len(ol), mismatches=0, kinds={}, samples=[])
    ctx = None
    reported = 0
    distinct = set()
    corr = []
    for k, op in enumerate(ol):
        kind = op.split(" ", 1)[0]
        stats["kinds"][kind] = stats["kinds"].get(kind, 0) + 1
        if kind in ctx_prefixes:
            ctx = op
        a = il[k] if k < len(il) else "<missing>"
        b = ml[k] if k < len(ml) else "<missing>"
        distinct.add(op)
        same = (a == b) if compare is None else compare(op, a, b)
        if not same:
            stats["mismatches"] += 1
            if reported < max_report:
                reported += 1
                text = "# seed=%d tier=%s\n%s\n%s\n# implementation: %s\n# model         : %s\n" % (seed(), tier, ctx or "", op, a, b)
                corr.append(("corr:%s:%s" % (ctx, op), "implementation and Lean model disagree on `%s` (context `%s`): impl=%s model=%s" % (op, ctx, a[:80], b[:80]), text))
    stats["distinct"] = len(distinct)
    # oracle verdicts
    of = impl + ".oracle"
    stats["oracle_checks"], stats["oracle_fails"] = 0, 0
    if os.path.exists(of):
        if r.returncode == 0 and "ORACLE-DONE" not in open(of).read():
            chk.violation("harness-incomplete", "oracle log of %s has no ORACLE-DONE line: the harness did not finish its oracle pass" % harness,
                          open(of).read()[-2000:] or "empty", found_input=False)
        for l in open(of).read().splitlines():
            if l.startswith("ORACLE-FAIL"):
                stats["oracle_fails"] += 1
                if stats["oracle_fails"] <= max_report:
                    chk.violation("oracle:" + l[:160], "property oracle fails on the implementation: " + l[:220], "# seed=%d tier=%s\n%s\n" % (seed(), tier, l))
            elif l.startswith("ORACLE-DONE"):
                m = re.search(r"checks=(\d+)", l)
                stats["oracle_checks"] = int(m.group(1)) if m else 0
            elif l.startswith("KNOWN-CANDIDATE"):
                # "KNOWN-CANDIDATE <key> <description>": a failing oracle case with a stable key (may be listed in known_findings.txt)
                parts = l.split(" ", 2)
                chk.violation(parts[1], parts[2] if len(parts) > 2 else parts[1], "# seed=%d tier=%s\n%s\n" % (seed(), tier, l))
    # A broken correspondence is reported in any case; it counts as "failing input found" only if the property's own
    # statement was also seen to fail on the implementation in this run (oracle), otherwise the VIOLATION line names the
    # correspondence that no longer checks and ends with no-failing-input-found.
    oracle_failed = stats["oracle_fails"] > 0 or any(v[0].startswith("oracle:") or not v[0].startswith(("corr:", "lean-", "bridge:", "leanchecker", "harness-"))
                                                     for v in chk.violations)
    for key, desc, text in corr:
        chk.violation(key, desc + ("" if oracle_failed else " [correspondence model<->code broken; the property oracle found no failing input on the implementation]"),
                      text, found_input=oracle_failed)
    k = len(ol)
    stats["samples"] = [ol[j] + "  =>  " + (il[j] if j < len(il) else "") for j in sorted({0, k // 3, k // 2, (2 * k) // 3, k - 1}) if 0 <= j < k][:6]
    return stats


def standard_coverage(chk, stats, rule, extra=None):
    chk.coverage.update(dict(evaluations=stats.get("ops", 0) + stats.get("oracle_checks", 0),
                             distinct_nontrivial=stats.get("distinct", 0),
                             rule=rule, samples=stats.get("samples", [])[:6] or ["(none)"],
                             operation_histogram=stats.get("kinds", {}),
                             correspondence_mismatches=stats.get("mismatches", 0),
                             oracle_checks=stats.get("oracle_checks", 0), oracle_fails=stats.get("oracle_fails", 0),
                             traces_validated_against_impl=stats.get("ops", 0) - stats.get("mismatches", 0)))
    if extra:
        chk.coverage.update(extra)
