#!/bin/sh
# usage: build_demo.sh <worktree> <demo.cxx> <exe>   -- compiles a demo against the static STIR libraries built in <worktree>/_b
WT=$1; SRC=$2; EXE=$3; B=$WT/_b
REGS=$(find $B/src/CMakeFiles/stir_registries.dir -name '*.o')
LIBS=$(find $B/src -name '*.a')
g++ -std=gnu++17 -O1 -w -DNDEBUG -I $B/src/include -I $WT/src/include -I /usr/include/hdf5/serial $SRC -o $EXE $REGS -Wl,--start-group $LIBS -Wl,--end-group -L/usr/lib/x86_64-linux-gnu/hdf5/serial -lhdf5_cpp -lhdf5 -lX11 -lcurses -lz -lpthread
