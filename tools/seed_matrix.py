#!/usr/bin/env python3
"""seed_matrix.py: print the markdown table of DESIGN.md §9 from seeded/<id>/{meta.json,notes.md,check_quick.txt}."""
import glob, json, os, re
VERIF = os.path.dirname(os.path.dirname(os.path.abspath(__file__)))

def kinds(txt):
    ks = []
    if "tie (T)" in txt: ks.append("translator bridge (tie T)")
    if "ORACLE-FAIL" in txt or "property oracle" in txt: ks.append("property oracle on the implementation")
    if "AddressSanitizer" in txt: ks.append("sanitizer abort")
    if "implementation and Lean model disagree" in txt or "differs from the index-range-map model" in txt: ks.append("model/code correspondence")
    other = [l for l in txt.splitlines() if l.startswith("VIOLATION") and not any(w in l for w in ("tie (T)", "ORACLE-FAIL", "property oracle", "AddressSanitizer", "Lean model", "index-range-map"))]
    if other: ks.append("harness oracle (keyed)")
    return ks

def main():
    rows = []
    for d in sorted(glob.glob(os.path.join(VERIF, "seeded", "*"))):
        sid = os.path.basename(d)
        notes = open(os.path.join(d, "notes.md")).read() if os.path.exists(os.path.join(d, "notes.md")) else ""
        patch = open(os.path.join(d, "patch.diff")).read() if os.path.exists(os.path.join(d, "patch.diff")) else ""
        files = sorted({m.group(1).split("/")[-1] for m in re.finditer(r"^\+\+\+ b/(\S+)", patch, re.M)})
        title = ""
        for l in notes.splitlines():
            l = l.strip("# ").strip()
            if l:
                title = l
                break
        cq = os.path.join(d, "check_quick.txt")
        txt = open(cq).read() if os.path.exists(cq) else ""
        caught = "EXIT 1" in txt or "VIOLATION" in txt
        tier = "quick"
        ct = os.path.join(d, "check_thorough.txt")
        if not caught and os.path.exists(ct):
            t2 = open(ct).read()
            if "VIOLATION" in t2:
                caught, tier, txt = True, "thorough only", t2
        other = ""
        co = os.path.join(d, "check_other.txt")     # first line: id of ANOTHER property's check that was run on this change, then its VIOLATION lines
        if not caught and os.path.exists(co):
            t3 = open(co).read()
            if "VIOLATION" in t3:
                other = t3.splitlines()[0].strip()
                caught, tier, txt = True, "quick, by the %s check" % other, t3
        note = ""
        if os.path.exists(os.path.join(d, "strengthened.txt")):
            note = " — " + open(os.path.join(d, "strengthened.txt")).read().strip()
        rows.append("| %s | %s | %s | %s%s |" % (sid, ", ".join(files)[:70], title[:110].replace("|", "/"),
                    ("**caught** (%s): %s" % (tier, "; ".join(kinds(txt)) or "violation")) if caught else "**missed**", note))
    table = "| seeded change | file(s) | what | result of the property's check |\n|---|---|---|---|\n" + "\n".join(rows)
    import sys
    if "--update-design" in sys.argv:
        dp = os.path.join(VERIF, "DESIGN.md")
        d = open(dp).read()
        a, b = "<!-- SEED-MATRIX-BEGIN -->", "<!-- SEED-MATRIX-END -->"
        i, j = d.index(a) + len(a), d.index(b)
        open(dp, "w").write(d[:i] + "\n" + table + "\n" + d[j:])
    else:
        print(table)

if __name__ == "__main__":
    main()
