#!/bin/sh
# rerun_seed.sh <Cxx> <k|bk> : run the current quick check of <Cxx> against the kept seeded change seeded/<Cxx>-<k>/patch.diff
# (scratch worktree /tmp/mutrun/repo) and rewrite seeded/<Cxx>-<k>/check_quick.txt
P=$1; K=$2
mkdir -p /tmp/seedlogs
flock /tmp/seedlogs/.lock python3 /verif/tools/mutrun.py $P /verif/seeded/$P-$K/patch.diff --tier quick > /tmp/seedlogs/$P-$K.requick 2>&1
grep -E "VIOLATION|^OK|EXIT" /tmp/seedlogs/$P-$K.requick | grep -v "Lean library does not build" | cut -c1-400 | head -8 > /verif/seeded/$P-$K/check_quick.txt
echo "$P-$K rerun quick: $(grep -c VIOLATION /tmp/seedlogs/$P-$K.requick) violations, $(grep EXIT /tmp/seedlogs/$P-$K.requick)" >> /tmp/seedlogs/summary
