#!/usr/bin/env python3
"""Configure (once) and incrementally build the STIR libraries out of /repo's *current working tree*
into /verif/build/<flavour>.  Flavours:
  plain : -O1 -DNDEBUG -DUCL_STIR_VERIF   (asserts off, as in the baseline build)
  omp   : same + STIR_OPENMP=ON           (thorough tier of C18 only)
Usage: build_stir.py [plain|omp] [--quiet]
Serialised by a lock file so that concurrently running checks share one build."""
import fcntl, os, subprocess, sys, time

VERIF = os.path.dirname(os.path.dirname(os.path.abspath(__file__)))
REPO = os.environ.get("STIR_REPO", "/repo")

LIB_TARGETS = ["buildblock", "IO", "recon_buildblock", "numerics_buildblock", "listmode_buildblock",
               "scatter_buildblock", "data_buildblock", "display", "eval_buildblock",
               "modelling_buildblock", "Shape_buildblock", "spatial_transformation_buildblock",
               "analytic_FBP2D", "analytic_FBP3DRP", "iterative_OSMAPOSL", "iterative_OSSPS",
               "stir_registries"]


def build(flavour="plain", quiet=False):
    broot = os.environ.get("VERIF_BUILD_DIR", os.path.join(VERIF, "build"))
    bdir = os.path.join(broot, "stir-" + flavour)
    os.makedirs(bdir, exist_ok=True)
    lock = open(os.path.join(broot, ".lock-" + flavour), "w")
    fcntl.flock(lock, fcntl.LOCK_EX)
    t0 = time.time()
    try:
        if not os.path.exists(os.path.join(bdir, "build.ninja")):
            cfg = ["cmake", "-G", "Ninja", "-S", REPO, "-B", bdir,
                   "-DCMAKE_BUILD_TYPE=Release",
                   "-DCMAKE_CXX_FLAGS_RELEASE=-O1 -DNDEBUG",
                   "-DCMAKE_CXX_FLAGS=-Wno-error -w -DUCL_STIR_VERIF",
                   "-DBUILD_TESTING=OFF", "-DBUILD_EXECUTABLES=OFF", "-DBUILD_DOCUMENTATION=OFF",
                   "-DBUILD_SWIG_PYTHON=OFF", "-DDISABLE_STIR_LOCAL=ON",
                   "-DSTIR_OPENMP=" + ("ON" if flavour == "omp" else "OFF"), "-DSTIR_MPI=OFF"]
            r = subprocess.run(cfg, stdout=subprocess.PIPE, stderr=subprocess.STDOUT, text=True)
            if r.returncode != 0:
                sys.stderr.write(r.stdout)
                raise SystemExit("cmake configure failed")
        r = subprocess.run(["cmake", "--build", bdir, "-j", str(os.cpu_count() or 8)],
                           stdout=subprocess.PIPE, stderr=subprocess.STDOUT, text=True)
        if r.returncode != 0:
            sys.stderr.write(r.stdout[-8000:])
            raise SystemExit("STIR build failed (the working tree does not compile)")
        if not quiet:
            print("[build_stir] %s up to date in %.1fs" % (flavour, time.time() - t0))
    finally:
        fcntl.flock(lock, fcntl.LOCK_UN)
    return bdir


if __name__ == "__main__":
    fl = [a for a in sys.argv[1:] if not a.startswith("-")]
    build(fl[0] if fl else "plain", "--quiet" in sys.argv)
