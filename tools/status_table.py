#!/usr/bin/env python3
"""status_table.py [--update-design]: per-property 'as built' table for DESIGN.md §0 from lean/StirVerif/Cxx/Props.lean,
evidence/Cxx.json and MANIFEST.json."""
import glob, json, os, re, sys
VERIF = os.path.dirname(os.path.dirname(os.path.abspath(__file__)))
sys.path.insert(0, os.path.join(VERIF, "tools"))
import vlib

def main():
    man = json.load(open(os.path.join(VERIF, "MANIFEST.json")))
    claimed = {c["property_id"]: c for c in man["checks"]}
    rows = []
    for p in ["C%02d" % i for i in range(1, 21)]:
        props = os.path.join(VERIF, "lean", "StirVerif", p, "Props.lean")
        body = vlib._strip_lean_comments(open(props).read())
        thms = re.findall(r"^theorem\s+([A-Za-z0-9_.']+)", body, re.M)
        ex = len(re.findall(r"^example\b", body, re.M))
        partial = [t for t in thms if t.endswith("_partial")]
        fails = [t for t in thms if "_fails" in t]
        stated = re.findall(r"^def\s+(%s_[A-Za-z0-9_']+)\s*:\s*Prop" % p, body, re.M)
        lines = sum(len(open(f).read().splitlines()) for f in glob.glob(os.path.join(VERIF, "lean", "StirVerif", p, "*.lean")))
        hl = sum(len(open(f).read().splitlines()) for f in glob.glob(os.path.join(VERIF, "harness", p.lower() + "_*.cxx")))
        ev = {}
        try:
            ev = json.load(open(os.path.join(VERIF, "evidence", p + ".json")))
        except Exception:
            pass
        cov = ev.get("coverage", {})
        tie = "T+C" if cov.get("tie_T_translator") else "C"
        rows.append("| %s | %s | %d | %d | %d | %d | %s | %d / %d | %s |" % (
            p, "yes" if p in claimed else "no", len(thms), ex, len(partial), len(fails),
            ", ".join(s.replace(p + "_", "") for s in stated) or "–", lines, hl, tie))
    table = ("| property | registered | theorems in Props | non-vacuity examples | `_partial` | negative witnesses (`_fails`) | stated, not proved (`def … : Prop`) | Lean lines / harness lines | tie |\n"
             "|---|---|---|---|---|---|---|---|---|\n" + "\n".join(rows))
    if "--update-design" in sys.argv:
        dp = os.path.join(VERIF, "DESIGN.md")
        d = open(dp).read()
        a, b = "<!-- STATUS-TABLE-BEGIN -->", "<!-- STATUS-TABLE-END -->"
        i, j = d.index(a) + len(a), d.index(b)
        open(dp, "w").write(d[:i] + "\n" + table + "\n" + d[j:])
    else:
        print(table)

if __name__ == "__main__":
    main()
