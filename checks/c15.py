"""C15 — rebinning (SSRB) and resampling (zoom) conserve counts and physical positions."""
import os
from fractions import Fraction
import vlib

PROP = "C15"


def _tok_equal(a, b):
    """impl token `f:<hex>` against model token `q:<num>/<den>:<tolnum>/<tolden>`: |impl - model| <= tol;
    anything else: string equality."""
    if b.startswith("q:"):
        if not a.startswith("f:"):
            return False
        try:
            x = Fraction(float.fromhex(a[2:]))
            _, v, t = b.split(":")
            return abs(x - Fraction(v)) <= Fraction(t)
        except (ValueError, ZeroDivisionError, OverflowError):
            return False
    return a == b


def compare(op, impl, model):
    if impl == model:
        return True
    ta, tb = impl.split(), model.split()
    return len(ta) == len(tb) and all(_tok_equal(x, y) for x, y in zip(ta, tb))


def main(tier, replay):
    if replay:
        for l in open(replay):
            if l.startswith("# seed="):
                os.environ["VERIF_SEED"] = l.split("seed=")[1].split()[0]
                tier = l.split("tier=")[1].split()[0]
    chk = vlib.Check(PROP, tier, level="proof")
    audit = vlib.lean_gate(chk, PROP)
    stats = vlib.run_differential(chk, PROP, "c15_rebin_zoom", tier, compare=compare)
    vlib.standard_coverage(chk, stats,
        "real SSRB(ProjDataInfo,...) / SSRB(ProjData&,ProjData&,do_norm) on generated cylindrical scanners (N 4..20(32), rings 1..8(11), span 1/3/5/7, "
        "clipped max ring difference, view mashing, trimmed/extended tangential range, TOF and non-TOF, rebinned geometries rebinned again) with every "
        "kind of legal (num_segments_to_combine in {1,3,5}, num_views_to_combine | views, tangential trim <0,=0,>0, max_in_segment, odd TOF bins to combine) "
        "plus a malformed stream (even/zero segments to combine, too large trim / max segment / TOF factor, non-divisor views); input = seeded "
        "detector-pair events histogrammed by the real get_bin_for_det_pos_pair; compared line by line with the Lean model: output geometry tables, "
        "azimuthal offset/sampling, every non-zero output bin (integers exact; normalised output: binary32 division modelled exactly, tolerance 2 ulp). "
        "The overload SSRB(output_filename, in, ...) (own output geometry, Interfile pair) is run on a third of the cases, its file read back and compared "
        "with the model as a further `ssrbdata` answer and, by the oracle, bin by bin with the in-memory overload (not when a negative trim widens the "
        "tangential range beyond the scanner's maximum, which the Interfile reader refuses; the TOF mashing factor of single-TOF-bin data is not compared). "
        "IDENTITY-LIKE SSRB settings one at a time (round 3): on every generated geometry and on geometries with a single segment and/or a single axial "
        "position per segment (one ring; direct sinograms only; span 1 with all ring differences; all ring differences in one segment; two rings) the "
        "full identity request (1,1,0,-1,1) and each argument alone away from its identity value (segments 3/5, a divisor of the views, trim +-1/2, "
        "max_in_segment, an odd TOF factor), geometry and data against the model; oracle on every ssrbinfo/ssrbdata operation: the part of the geometry "
        "whose argument is at its identity value is unchanged (segments with ring differences, axial positions and m; views with azimuthal offset and "
        "sampling; centred tangential range; TOF bins) and with nothing combined / trimmed every processed sinogram comes back bin by bin (also with do_norm). "
        "REAL SCANNER GEOMETRIES AND NON-DYADIC RING SPACINGS (round 4): every predefined cylindrical scanner of Scanner.cxx (38 types: ECAT 9xx/962/HR+, "
        "mMR, mCT, Vision 600, GE Advance/Discovery ST..690/Signa/Discovery MI 3-6 rings, HRRT, Allegro, GeminiTF, nanoPET, UPENN 5/6 rings ...) with its TRUE "
        "number of rings (1..336) and ring spacing (6.54, 4.85, 3.29114, 5.56, 5.52296, 4.054, 3.9655, 1.17 ... mm), span 1 with all ring differences, the "
        "mixed GE geometry (ProjDataInfoGE) for GE scanners, an odd span (thorough: every odd span up to 23), clipped ring differences on the long scanners, "
        "few views / tangential positions (only the axial structure matters), TOF mashed to 1/3/5 bins; generated scanners with ring spacings drawn from 24 "
        "non-dyadic decimals (3.1, 3.27, 4.85, 6.54, 2.208, 4.0546, 5.3, 2.65 ...), any 2-digit decimal or any float, 2..64 rings, every odd span and some "
        "even ones, span 1 with 33..64 rings for each spacing (so every number of axial positions up to 64 meets each spacing at full and half sampling); "
        "the ring spacing of the generated scanners of all other SSRB cases is drawn the same way. On each: the identity request, 3 (5) segments combined, a "
        "restricted maximum segment, a random legal request: ssrbinfo (segment table with the NUMBER OF AXIAL POSITIONS of every output segment) and the new "
        "operation `ssrbm` (first / last m and axial sampling in mm of every output segment against the model's exact value: quarter ring spacings x the exact "
        "binary32 ring spacing, tolerance 4 ulp of numAx*sampling), ssrbphi, and -- where the geometry is small enough for the model (output sinograms x input "
        "segments <= 1.7e5: all scanners up to 32 rings at span 1, the others at larger span / clipped ring differences) -- seeded detector-pair events aimed at "
        "the ranges of the geometry and at the first / last axial positions, ssrbdata and all data oracles. New oracles on every ssrbinfo: a LEGAL request "
        "(odd segments to combine whose groups exist, views / trim / max segment in range) must be served (theorem C15_ssrb_legal_request_served), and every "
        "axial position of every input segment must have an output axial position with the same m, the output grid ending where the inputs end "
        "(C15_ssrb_no_input_position_lost, C15_ssrb_output_grid_spans_input). "
        "GRID SIZES DERIVED FROM FLOAT ZOOMS (round 4): VoxelsOnCartesianGrid(exam_info, proj_data_info, zooms, origin, sizes) on generated scanners "
        "(non-dyadic ring spacing and bin size, arc-corrected and not, span 1/3, tangential ranges whose end is a multiple of 3/5/10/6/15) with zooms 1/3, 0.3, "
        "2.2, 0.6, 0.7, 1.1, 2/3 ... and random, per-axis zooms, sizes -1 or given: index ranges, sizes (2*ceil(fov/voxel)+1 in binary32, transcribed with its "
        "roundings) and voxel sizes compared EXACTLY with the model (operation `voxsize`); oracle: the derived grid is centred, odd, covers the field of view "
        "and exceeds it by less than a voxel, voxel size = sampling/zoom. Zooms 2.2 and 0.6 added to the overlap_interpolate / zoom_image / zoom_viewgram draws. "
        "DEGENERATE zoom requests (round 3): per axis independently zoom exactly 1 with offset 0 / != 0 (pure shift by 1, 2, 1/2 or a random number of "
        "voxels) and zoom != 1 with offset 0 / != 0, i.e. offsets only in x, only in y, only in z, into a new grid of the same and of another size, "
        "standard centred and other index ranges, all three ZoomOptions, the 8 transaxial combinations x 3 options x same/other size in turn; every "
        "variant: one call with 3-D parameters, in place, two steps into a new image, two steps into a RE-USED image holding the result of another zoom, "
        "transaxial one-call and in-place, and the transaxial two-step zoom_image(PixelsOnCartesianGrid&, const PixelsOnCartesianGrid&) plane by plane "
        "into one re-used plane (operation `zoom pl`); all compared with the model and with each other; oracles on every result: total, centre of mass in "
        "mm, uniform regions, the returned grid is the requested one (sizes, voxel size v/zoom, middle = old middle + offsets in mm), a two-step call "
        "leaves the grid of its output image alone, and with zoom 1 and shifts by whole voxels every voxel holds the input value at the same position in mm. "
        "The same degenerate requests for overlap_interpolate (zoom 1 with offset 0 / whole boxes / any, same and other index range: whole-box shifts "
        "copy the values) and zoom_viewgram (zoom 1 or not, shift along x only / y only / both / none, same or another tangential range; 16 combinations). "
        "inverse_SSRB and extend_segment also on one-ring data (a single direct sinogram / a single axial position). "
        "Real overlap_interpolate (VectorWithOffset and iterator versions), zoom_image / zoom_image_in_place (2-D-parameter, 3-D-parameter, two-step; the input's "
        "first plane is any of -2..2 for all interfaces, the 2-D-parameter call on a first plane != 0 runs in a child process because it is undefined behaviour "
        "without docs/fixes/C15-3) with all three ZoomOptions, find_centre_of_gravity_in_mm on seeded small arrays/images against the exact Rat model. "
        "zoom_viewgram(out, in, x, y), zoom_viewgram(viewgram, zoom, min, max, x, y) and zoom_viewgrams on the symmetry-related set "
        "(DataSymmetriesForBins_PET_CartesianGrid) of arc-corrected viewgrams (8..16 detectors, 1..3 rings, view mashing, azimuthal offset, centred and "
        "non-centred tangential ranges, TOF and non-TOF, zoom 0.3..3, shifts up to 2.5 bins in x and y, covering and truncating new ranges, the identity "
        "request): every row against the model (overlapVec with zoom = in_bin/out_bin, offset = (x cos phi + y sin phi)/in_bin, cos/sin through binary64) "
        "and, inside the driver, against the overlap specification. inverse_SSRB on random sinograms (12 detectors, 2..7 rings, span 1/3 4D data, direct "
        "sinograms of span 1/3/SSRB geometry and of another ring spacing, TOF): every bin of every 4D sinogram against the model; a fifth of the cases have "
        "mismatching view / tangential ranges (in a child process) and must be refused. extend_segment with azimuthal sampling k*pi/views, "
        "k in {1, 2, 1/2, 4/3, 3/2, 3}: 180 degrees (flip), 360 degrees (wrap) and nearest-neighbour branches, all values compared exactly. "
        "Float answers `f:<hex>` are compared with the model's exact value within the tolerance printed by the driver "
        "(4*n*2^-24*M + boundary term, n = float operations on the path, M = sum of |terms|; see lean/Driver/C15.lean). "
        "Oracle (implementation only): histogram-coarse == histogram-fine-then-SSRB bin by bin, totals conserved without trimming, m / mean phi / s / TOF position "
        "of the receiving bin; zoom: total conserved with preserve_sum when the new grid covers the object (1e-4 rel), centre of mass within (v_in+v_out)/2 "
        "per axis, uniform stays uniform with preserve_values, all call variants agree (1e-5 rel); zoomed viewgrams, per row: counts conserved when the new "
        "range covers the data, centroid (in mm, shifted by x cos phi + y sin phi with phi from the view number) within half the sum of the bin sizes, "
        "uniform rows stay uniform (value*zoom), both overloads bitwise equal; inverse_SSRB: every bin is the linear interpolation in m of the two direct "
        "sinograms around the output's m, ramp in m reproduced, incompatible data refused; extend_segment: original data untouched, no invented values, "
        "added views equal the views one period away (360 degrees: same tangential position; 180 degrees, segment 0: mirrored).")
    chk.assumptions += ["32-bit overflow not modelled", "float m / TOF-k comparisons of SSRB (1E-4 mm) replaced by exact quarter-ring / unmashed-bin integers "
                        "(valid while the rounding error of the float get_m stays below 1E-4 mm; for scanners whose axial positions reach 1024 mm -- UPENN 5/6 rings -- "
                        "it does not: known finding ssrb:m-tolerance-below-float-precision-on-scanners-longer-than-1m, repair docs/fixes/C15-4; such cases are "
                        "reported under that key and withheld from the model comparison only when the implementation loses counts and does nothing else wrong)",
                        "SSRB data comparison with the model only for geometries with (output sinograms x input segments) <= 1.7e5; larger ones (span 1 with all ring "
                        "differences on scanners with more than 32 rings) are compared on geometry (ssrbinfo/ssrbm/ssrbphi + geometry oracles) only",
                        "real scanners keep their true number of detectors per ring but few views / tangential positions; SSRB(output_filename,...) is not run on them",
                        "VoxelsOnCartesianGrid from projection data: the field-of-view radius (largest |get_s| of the outermost tangential positions) is an input of the "
                        "model (get_s: C01/C12); default_bin_size > 0, at least 2 views, cylindrical data",
                        "TOF bins to combine: odd factors only (even factors put input bin edges on output bin edges, decided by float rounding)",
                        "float rounding of the implementation is bounded, not modelled (except the single binary32 division of the normalised SSRB)",
                        "zoom_viewgram: cos(phi), sin(phi) are taken from binary64 cos/sin of the float angle returned by get_phi (get_phi itself: C01/C12; the "
                        "oracle recomputes the angle from the view number)",
                        "model = documented behaviour where the pinned revision has a defect with a repair in docs/fixes (C15-1 zoom_viewgram identity request, "
                        "C15-2 inverse_SSRB guards, C15-3 plane numbering of the 2-D-parameter zoom_image): without the repair the check reports the defect",
                        "extend_segment: coverages for which the source's 5-samplings comparison is an equality (decided by float rounding) are not generated",
                        "SSRB(output_filename,...): TOF mashing factor of data with a single TOF bin is not compared after the Interfile round trip (file format: C02)"]
    if audit:
        vlib.proof_coverage(chk, audit, "cd lean && lake build StirVerif stirdriver && lake env lean ../build/out/Audit_C15.lean")
    return chk.finish()
