"""C15 — rebinning (SSRB) and resampling (zoom) conserve counts and physical positions."""
import os
from fractions import Fraction
import vlib

PROP = "C15"


def _tok_equal(a, b):
    """impl token `f:<hex>` against model token `q:<num>/<den>:<tolnum>/<tolden>`: |impl - model| <= tol;
    anything else: string equality."""
    if b.startswith("q:"):
        if not a.startswith("f:"):
            return False
        try:
            x = Fraction(float.fromhex(a[2:]))
            _, v, t = b.split(":")
            return abs(x - Fraction(v)) <= Fraction(t)
        except (ValueError, ZeroDivisionError, OverflowError):
            return False
    return a == b


def compare(op, impl, model):
    if impl == model:
        return True
    ta, tb = impl.split(), model.split()
    return len(ta) == len(tb) and all(_tok_equal(x, y) for x, y in zip(ta, tb))


def main(tier, replay):
    if replay:
        for l in open(replay):
            if l.startswith("# seed="):
                os.environ["VERIF_SEED"] = l.split("seed=")[1].split()[0]
                tier = l.split("tier=")[1].split()[0]
    chk = vlib.Check(PROP, tier, level="proof")
    audit = vlib.lean_gate(chk, PROP)
    stats = vlib.run_differential(chk, PROP, "c15_rebin_zoom", tier, compare=compare)
    vlib.standard_coverage(chk, stats,
        "real SSRB(ProjDataInfo,...) / SSRB(ProjData&,ProjData&,do_norm) on generated cylindrical scanners (N 4..20(32), rings 1..8(11), span 1/3/5/7, "
        "clipped max ring difference, view mashing, trimmed/extended tangential range, TOF and non-TOF, rebinned geometries rebinned again) with every "
        "kind of legal (num_segments_to_combine in {1,3,5}, num_views_to_combine | views, tangential trim <0,=0,>0, max_in_segment, odd TOF bins to combine) "
        "plus a malformed stream (even/zero segments to combine, too large trim / max segment / TOF factor, non-divisor views); input = seeded "
        "detector-pair events histogrammed by the real get_bin_for_det_pos_pair; compared line by line with the Lean model: output geometry tables, "
        "azimuthal offset/sampling, every non-zero output bin (integers exact; normalised output: binary32 division modelled exactly, tolerance 2 ulp). "
        "Real overlap_interpolate (VectorWithOffset and iterator versions), zoom_image / zoom_image_in_place (2-D-parameter, 3-D-parameter, two-step) "
        "with all three ZoomOptions, find_centre_of_gravity_in_mm, inverse_SSRB, extend_segment on seeded small arrays/images against the exact Rat model: "
        "float answers `f:<hex>` are compared with the model's exact value within the tolerance printed by the driver "
        "(4*n*2^-24*M + boundary term, n = float operations on the path, M = sum of |terms|; see lean/Driver/C15.lean). "
        "Oracle (implementation only): histogram-coarse == histogram-fine-then-SSRB bin by bin, totals conserved without trimming, m / mean phi / s / TOF position "
        "of the receiving bin; zoom: total conserved with preserve_sum when the new grid covers the object (1e-4 rel), centre of mass within (v_in+v_out)/2 "
        "per axis, uniform stays uniform with preserve_values, all call variants agree (1e-5 rel).")
    chk.assumptions += ["32-bit overflow not modelled", "float m / TOF-k comparisons of SSRB (1E-4 mm) replaced by exact quarter-ring / unmashed-bin integers "
                        "(scanner ring spacing is a dyadic float in the generated scanners)",
                        "TOF bins to combine: odd factors only (even factors put input bin edges on output bin edges, decided by float rounding)",
                        "float rounding of the implementation is bounded, not modelled (except the single binary32 division of the normalised SSRB)"]
    if audit:
        vlib.proof_coverage(chk, audit, "cd lean && lake build StirVerif stirdriver && lake env lean ../build/out/Audit_C15.lean")
    return chk.finish()
