"""C05 — Poisson log-likelihood quantities equal their textbook definition."""
import os
import struct
from fractions import Fraction
import vlib

PROP = "C05"
SCALE = 2 ** 100
VECTOR_OPS = ("grad", "gps", "sens", "sensdiv", "hess", "ahess", "pen", "penh", "penah")
NEAR = [0]
INDET = [0]


def _bits_to_float(tok):
    return struct.unpack("<d", struct.pack("<Q", int(tok)))[0]


def compare(op, impl, model):
    """Derived tolerance: the model answers the exact value (Rat) — or the binary64 value for `val` — together
    with the forward error bound 4*n*2^-24*sum|terms| (+ 8*2^-24*|value| for the log); see lean/Driver/C05.lean."""
    kind = op.split(" ", 1)[0]
    if model == "near":          # a comparison within 2^-10 of a threshold of divide_and_truncate: not compared
        NEAR[0] += 1
        return impl != "err"
    if impl == model:
        return True
    if kind == "hist":
        # members without initialiser: the model answers for the byte the harness put into the object's storage and, after " / ",
        # for the opposite value; both are legitimate values of an indeterminate member
        alts = [a.strip() for a in model.split("/")]
        if impl == alts[0]:
            return True
        if impl in alts[1:]:
            INDET[0] += 1
            return True
        return False
    if impl == "err" or model in ("err", "bad-op", "bad-bin", "<missing>") or impl == "<missing>":
        return False
    try:
        if kind == "val":
            v, b = [_bits_to_float(t) for t in model.split()]
            x = float.fromhex(impl)
            return abs(x - v) <= b + 1e-300
        if kind in VECTOR_OPS:
            it, mt = impl.split(), model.split()
            if len(it) != len(mt):
                return False
            for a, m in zip(it, mt):
                x = float.fromhex(a)
                if x != x or x in (float("inf"), float("-inf")):
                    return False
                v, b = m.split(":")
                if abs(Fraction(x) * SCALE - int(v)) > int(b) + 2:
                    return False
            return True
    except (ValueError, OverflowError):
        return False
    return False


def main(tier, replay):
    if replay:
        for l in open(replay):
            if l.startswith("# seed="):
                os.environ["VERIF_SEED"] = l.split("seed=")[1].split()[0]
                tier = l.split("tier=")[1].split()[0]
    chk = vlib.Check(PROP, tier, level="proof")
    audit = vlib.lean_gate(chk, PROP)
    stats = vlib.run_differential(chk, PROP, "c05_poissonll", tier, compare=compare)
    hist = {}
    of = os.path.join(vlib.OUT, "%s_%s.impl.oracle" % (PROP.lower(), tier))
    if os.path.exists(of):
        for l in open(of):
            if l.startswith("# ") and "=" in l:
                k, v = l[2:].strip().split("=", 1)
                hist[k] = int(v)
    vlib.standard_coverage(chk, stats,
        "real PoissonLogLikelihoodWithLinearModelForMeanAndProjData through its public API (compute_objective_function, compute_sub_gradient, "
        "compute_sub_gradient_without_penalty_plus_sensitivity, get_subset_sensitivity / add_subset_sensitivity, accumulate_sub_Hessian_times_input, "
        "add_multiplication_with_approximate_sub_Hessian) on generated geometries (8-12 detectors, 2-3 rings, span 1/3, non-TOF and TOF 3/5 bins, "
        "ProjMatrixByBinUsingRayTracing with all 32 symmetry switch combinations, image 5/7 voxels across), additive term on/off, normalisation trivial / "
        "FromProjData / chained / base-class efficiency table, zero_seg0_end_planes, max_segment_num_to_process, use_subset_sensitivities, use_tofsens, "
        "every legal num_subsets and every subset. One line per (quantity, subset): per-voxel results compared with the Lean model evaluated exactly in Rat "
        "on explicit matrix rows (from a separate matrix object without symmetries/cache) with the derived bound |impl - exact| <= 4*n*2^-24*sum|terms| "
        "(n = row length(s) + number of contributions to the voxel + 10; sum|terms| taken with |P_bv| + Pmax/2 to allow for the rounding of the ray-traced "
        "matrix elements between the symmetric/cached matrix of the projector and the explicit rows); the value with the model at binary64 and the bound 4*n*2^-24*sum(|y|+|y log e|+|e|) "
        "+ 8*2^-24*|value|. Oracle (harness, double precision, independent of the Lean model): textbook expressions on the explicit rows on the regular region, "
        "gradient-plus-sensitivity minus gradient = sensitivity, sum over subsets = full data, penalised = unpenalised - prior share, all orders of first "
        "requests give the same results (bitwise) on fresh objects whose members without initialiser are pre-set to 0 and to 1, with relative tolerance 3e-5 of "
        "sum|terms|. hist lines: ok/exception pattern of request histories against the flag machine of the model (both values of the indeterminate "
        "members accepted). distinct = distinct op lines.",
        extra=dict(input_histogram=hist, near_threshold_not_compared=NEAR[0], indeterminate_flag_other_value=INDET[0]))
    chk.assumptions += ["floating point rounding is not modelled (forward error bound instead)",
                        "which viewgrams belong to a subset is taken from the library's own subset scheme (C06); the oracle checks that they partition the data",
                        "explicit matrix rows come from ProjMatrixByBinUsingRayTracing itself (row correctness is C03/C04)",
                        "MPI (distributed) paths are not built: which projector pair setup_distributable_computation received is ghost state of the model, "
                        "observable on the implementation only through the error branch"]
    if audit:
        vlib.proof_coverage(chk, audit, "cd lean && lake build StirVerif stirdriver && lake env lean ../build/out/Audit_C05.lean")
    return chk.finish()
