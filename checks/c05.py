"""C05 — Poisson log-likelihood quantities equal their textbook definition."""
import os
import struct
from fractions import Fraction
import vlib

PROP = "C05"
SCALE = 2 ** 100
VECTOR_OPS = ("grad", "gps", "sens", "sensdiv", "ssens", "ssensdiv", "hsub", "htot", "hess", "ahess", "pen", "penh", "penah",
              "pgrad", "pgradfull", "phess", "pahess", "phessfull", "pahessfull")
VALUE_OPS = ("val", "pval", "pvalfull")
NEAR = [0]
INDET = [0]


def _bits_to_float(tok):
    return struct.unpack("<d", struct.pack("<Q", int(tok)))[0]


def compare(op, impl, model):
    """Derived tolerance: the model answers the exact value (Rat) — or the binary64 value for `val` — together
    with the forward error bound 4*n*2^-24*sum|terms| (+ 8*2^-24*|value| for the log); see lean/Driver/C05.lean."""
    kind = op.split(" ", 1)[0]
    if model == "near":          # a comparison within 2^-10 of a threshold of divide_and_truncate: not compared
        NEAR[0] += 1
        return impl != "err"
    if impl == model:
        return True
    if kind == "hist":
        # members without initialiser: the model answers for the byte the harness put into the object's storage and, after " / ",
        # for the opposite value; both are legitimate values of an indeterminate member
        alts = [a.strip() for a in model.split("/")]
        if impl == alts[0]:
            return True
        if impl in alts[1:]:
            INDET[0] += 1
            return True
        return False
    if impl == "err" or model in ("err", "bad-op", "bad-bin", "<missing>") or impl == "<missing>":
        return False
    try:
        if kind in VALUE_OPS:
            v, b = [_bits_to_float(t) for t in model.split()]
            x = float.fromhex(impl)
            return abs(x - v) <= b + 1e-300
        if kind in VECTOR_OPS:
            it, mt = impl.split(), model.split()
            if len(it) != len(mt):
                return False
            for a, m in zip(it, mt):
                x = float.fromhex(a)
                if x != x or x in (float("inf"), float("-inf")):
                    return False
                v, b = m.split(":")
                if abs(Fraction(x) * SCALE - int(v)) > int(b) + 2:
                    return False
            return True
    except (ValueError, OverflowError):
        return False
    return False


def main(tier, replay):
    if replay:
        for l in open(replay):
            if l.startswith("# seed="):
                os.environ["VERIF_SEED"] = l.split("seed=")[1].split()[0]
                tier = l.split("tier=")[1].split()[0]
    chk = vlib.Check(PROP, tier, level="proof")
    audit = vlib.lean_gate(chk, PROP)
    stats = vlib.run_differential(chk, PROP, "c05_poissonll", tier, compare=compare)
    hist = {}
    of = os.path.join(vlib.OUT, "%s_%s.impl.oracle" % (PROP.lower(), tier))
    if os.path.exists(of):
        for l in open(of):
            if l.startswith("# ") and "=" in l:
                k, v = l[2:].strip().rsplit("=", 1)
                hist[k] = int(v)
    vlib.standard_coverage(chk, stats,
        "real PoissonLogLikelihoodWithLinearModelForMeanAndProjData through its public API (compute_objective_function, compute_sub_gradient, "
        "compute_sub_gradient_without_penalty_plus_sensitivity, get_subset_sensitivity / add_subset_sensitivity, accumulate_sub_Hessian_times_input, "
        "add_multiplication_with_approximate_sub_Hessian, their full-data counterparts and the *_without_penalty functions) on generated geometries "
        "(8-12 detectors, 2-3 rings, span 1/3, non-TOF and TOF 3/5 bins, "
        "ProjMatrixByBinUsingRayTracing with all 32 symmetry switch combinations, image 5/7 voxels across), additive term on/off, normalisation trivial / "
        "FromProjData / chained / base-class efficiency table — for TOF data also with one factor per TOF bin (FromProjData on TOF data, a TOF table, chains of "
        "them: is_TOF_only_norm switching use_tofsens on, `tofsens` lines) —, zero_seg0_end_planes (value, gradient, sensitivity and both Hessian products "
        "without the end planes of segment 0), max_segment_num_to_process (`segrange` lines), "
        "set_max_timing_pos_num_to_process below the maximum of the data (`tofrange` lines; all quantities over the requested TOF bins, TOF sensitivity switched on), "
        "use_subset_sensitivities, use_tofsens, "
        "every num_subsets and every subset: set_up's refusal of unbalanced subsets is compared with the model on independently counted viewgrams per subset "
        "(`balance` lines). One line per (quantity, subset): per-voxel results compared with the Lean model evaluated exactly in Rat "
        "on explicit matrix rows (from a separate matrix object without symmetries/cache) with the derived bound |impl - exact| <= 4*n*2^-24*sum|terms| "
        "(n = row length(s) + number of contributions to the voxel + 10; sum|terms| taken with |P_bv| + Pmax/2 to allow for the rounding of the ray-traced "
        "matrix elements between the symmetric/cached matrix of the projector and the explicit rows); the value with the model at binary64 and the bound 4*n*2^-24*sum(|y|+|y log e|+|e|) "
        "+ 8*2^-24*|value|. With a QuadraticPrior attached (2 random (num_subsets, subset) per configuration): penalised subset value / gradient / Hessian "
        "products and the full-data compute_objective_function(image), compute_gradient, accumulate_Hessian_times_input, add_multiplication_with_approximate_Hessian "
        "are recomputed by the model from the bins and the prior's term (p* lines, bound + 16*2^-24*(|q|+|prior term|)), the *_without_penalty results of the same "
        "object go to the unpenalised model lines. Sensitivities read from the files an identical object wrote (total, or one per subset) go to the same "
        "`sens`/`sensdiv` model lines as computed ones. "
        "Oracle (harness, double precision, independent of the Lean model): textbook expressions on the explicit rows on the regular region (over the requested "
        "segment and TOF range), "
        "gradient-plus-sensitivity minus gradient = sensitivity, sum over subsets = full data, penalised = unpenalised - prior share (subset) / - prior term (full data), "
        "*_without_penalty on the object with a prior = result of an object without prior (bitwise), loaded sensitivities = written ones (bitwise) = P^T n, "
        "set_up refuses exactly the unbalanced subset numbers when subset sensitivities are off, all orders of first "
        "requests give the same results (bitwise) on fresh objects whose members without initialiser are pre-set to 0 and to 1, with relative tolerance 3e-5 of "
        "sum|terms|. hist lines: ok/exception pattern of request histories against the flag machine of the model (both values of the indeterminate "
        "members accepted). "
        "OBJECT RE-USE HISTORIES (one history per configuration, two in the thorough tier): ONE object is set_up 2-4 (thorough: up to 5) times; between the "
        "set_ups one thing changes — nothing, num_subsets, use_subset_sensitivities, zero_seg0_end_planes, max_segment_num_to_process, "
        "max_timing_pos_num_to_process, the measured data, the additive term (new / removed / added), the normalisation object (other kind), the target "
        "image (a clone / another number of voxels or voxel size), everything (the data, geometry, projector pair, image, normalisation of the previous "
        "configuration: other scanner, TOF <-> non-TOF, other TOF mashing, all setters called), or the data / projectors / additive term / normalisation of "
        "the previous configuration WITHOUT calling the range setters — through all setters or only the setter concerned; sensitivity file names are set "
        "(then every computing set_up writes them) and in two scripted histories per run (total file with use_subset_sensitivities off, subset files with "
        "it on) and at random the next set_up of the SAME object reads them back (recompute_sensitivity := 0, optionally with new measured data). After "
        "EVERY set_up: (i) 3-6 requests in Rng order (value, gradient, gradient+sensitivity, sensitivity, Hessian product, approximate Hessian) — "
        "ok/exception pattern to the model's flag machine (`hist`), results bit for bit those of a fresh identically configured object (own projector pair) "
        "serving that request first; (ii) everything listed above for a set-up object (all subsets: val/grad/gps/sens|sensdiv/hess/ahess lines, the total "
        "sensitivity as a `sens` line over all viewgrams, segrange/tofrange/tofsens, subset-number range, full-data functions) to the model and the textbook "
        "oracle, and bit for bit equal to the answers of a fresh identically configured object; acceptance/refusal of set_up equal to the fresh object's; "
        "(iii) the model object `SensObj` (heap of images + subsensitivity_sptrs + sensitivity_sptr + recompute_sensitivity, model files) goes through the "
        "same set_up (`hsetup`: setUpSens = resize, compute-or-read decision, compute_sensitivities, set_total_or_subset_sensitivities, file writing/reading) and "
        "`hsub s` / `htot` compare get_subset_sensitivity(s) / get_sensitivity() with the state of the model object (bound as for `sens`); (iv) files a "
        "computing set_up wrote are read back with read_from_file: = get_subset_sensitivity(s) resp. get_sensitivity() bit for bit, total file = sum of the subset "
        "shares, and a second object that reads them answers everything of (ii) bit for bit like the writer. "
        "KNOWN-CANDIDATE reuse:default-segment-or-TOF-range-...: data of another geometry given to a set-up object without calling the range setters (every run, "
        "both directions). "
        "SETTERS AFTER set_up WITHOUT A NEW set_up (6 histories per configuration, 12 in the thorough tier; the first one always set_num_subsets(other value)): "
        "an object is configured (every setter call also made on the model object `Obj`: `sset` lines compare the protected flag already_set_up and the members "
        "the getters show after EVERY call) and set up (`ssetup`: accepted/refused, flag, members after set_up against `Obj.setUp`); then 1-2 public setters are "
        "called with a NEW value or with the SAME value — set_num_subsets (other / same / <= 0), set_proj_data_sptr, set_input_data, set_additive_proj_data_sptr "
        "(new / null / same pointer), set_normalisation_sptr, set_projector_pair_sptr (new object / same pointer), set_max_segment_num_to_process and "
        "set_max_timing_pos_num_to_process (other / the value set_up derived / -1 / larger than the data), set_zero_seg0_end_planes, set_use_subset_sensitivities, "
        "set_recompute_sensitivity, set_sensitivity_filename, set_subsensitivity_filenames (new / same / a pattern boost::format cannot use, which includes the empty "
        "string: the setter throws after resetting the flag), set_subset_sensitivity_sptr, set_frame_num (1 / 2 / 0), set_frame_definitions (equal copy / other), "
        "set_prior_sptr (null / new prior set up / not set up), parse() of a parameter text with two keys — and WITHOUT set_up every kind of request is made in Rng order: "
        "compute_objective_function, compute_sub_gradient, ..._plus_sensitivity, accumulate_sub_Hessian_times_input, add_multiplication_with_approximate_sub_Hessian, "
        "their *_without_penalty forms when a prior is attached, add_subset_sensitivity, the public actual_compute_subset_gradient_without_penalty, "
        "get_subset_sensitivity, get_sensitivity (`sreq` lines: answered/refused against `Obj.answer`, i.e. against the setter table transcribed from the three "
        ".cxx files, parse() included — since fix C05-3 it resets the flag; no line only for add_subset_sensitivity / actual_... after a NEW normalisation or "
        "projector object nobody has set up, whose own checks decide). Oracle: every ANSWERED request that tests already_set_up equals, bit for bit, the answer "
        "of a FRESH object (own projector pair, own prior) configured with the values the object now has and set up — answered although the fresh set_up is "
        "refused counts as failure —, and gradient_plus_sensitivity - gradient = get_subset_sensitivity(0) (1e-4 of the magnitudes) on whatever the object "
        "answers (ORACLE-FAIL, also after parse()); then set_up is called again (`ssetup`) and all requests once more (`sreq`, fresh object). The four public "
        "members that do not test the flag (get_subset_sensitivity / get_sensitivity, add_subset_sensitivity, actual_compute_subset_gradient_without_penalty) "
        "are outside the property's quantifier between a setter and the next set_up: their answered/refused pattern is a model line, a stale answer "
        "(relative 2e-5 against the fresh object) is only counted (`unguarded_answered_stale`, `setters-stale-answer-<request>-after_<setters>`); after the "
        "final set_up they are compared like the others. "
        "distinct = distinct op lines.",
        extra=dict(input_histogram=hist, near_threshold_not_compared=NEAR[0], indeterminate_flag_other_value=INDET[0]))
    chk.assumptions += ["re-use histories: a fresh object 'configured identically' has the members of the re-used object (the TOF sensitivity switch, which has no public "
                        "setter and stays on once a set_up switched it on, is copied); twin objects share the normalisation object and the data with the re-used "
                        "object but have a projector pair of their own; has_same_characteristics of images read from file, the sensitivity file name \"1\" and "
                        "set_subset_sensitivity_sptr are not part of the SensObj model; the list-mode objective "
                        "(PoissonLogLikelihoodWithLinearModelForMeanAndListModeDataWithProjMatrixByBin) is not driven by this harness",
                        "floating point rounding is not modelled (forward error bound instead)",
                        "which viewgrams belong to a subset is taken from the library's own subset scheme (C06); the oracle checks that they partition the data",
                        "explicit matrix rows come from ProjMatrixByBinUsingRayTracing itself (row correctness is C03/C04)",
                        "the factor of a data bin is the bin of the normalisation data with the same indices (TOF bin 0 for non-TOF normalisation data): that is the "
                        "harness's reading of 'bin efficiencies', the model receives the factors per bin",
                        "the TOF range used for the model lines and the oracle is the requested one (set_max_timing_pos_num_to_process, default: all TOF bins); "
                        "what the object reports after set_up goes to the `tofrange` model line",
                        "the prior's own value / gradient / Hessian product are taken from QuadraticPrior (C09's subject)",
                        "set_subset_sensitivity_sptr with recompute off and no file names is refused by set_up in every configuration tried (counted, not a property clause)",
                        "setter histories: pointers, strings and frame definitions enter the model as identities chosen by the harness (same object / equal value = same "
                        "identity); whether subsensitivity_sptrs[0] is null and whether a sensitivity file can be read is book-keeping of the harness (new object: null; "
                        "after a successful set_up: not null; no file exists); the balance of the subsets given to `ssetup` is counted independently with a projector "
                        "pair of its own; a set_up that fails leaves already_set_up as it was (transcribed, Mean.cxx:174-329) but what it leaves in the projectors / "
                        "cached sensitivities is not modelled and no history makes set_up fail while the flag is on with another target; functions that do not test "
                        "the flag are not called with members they cannot use (segment / TOF range larger than the data, frame number outside the definitions); "
                        "TimeFrameDefinitions::operator== (prefix comparison) is exercised only with an equal copy and with definitions that differ in the first frame; "
                        "priors are constructed with the default constructor (QuadraticPrior(only_2D, factor) leaves GeneralisedPrior::_already_set_up uninitialised); "
                        "ask_parameters(), the parsing keys other than the two used, the public MPI switches and use_tofsens after set_up are not driven",
                        "MPI (distributed) paths are not built: which projector pair setup_distributable_computation received is ghost state of the model, "
                        "observable on the implementation only through the error branch"]
    if audit:
        vlib.proof_coverage(chk, audit, "cd lean && lake build StirVerif stirdriver && lake env lean ../build/out/Audit_C05.lean")
    return chk.finish()
