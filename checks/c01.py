"""C01 — detector pairs and sinogram bins form a consistent partition."""
import os
import vlib
import gen_gate

PROP = "C01"


def main(tier, replay):
    if replay:
        for l in open(replay):
            if l.startswith("# seed="):
                os.environ["VERIF_SEED"] = l.split("seed=")[1].split()[0]
                tier = l.split("tier=")[1].split()[0]
    chk = vlib.Check(PROP, tier, level="proof")
    audit = vlib.lean_gate(chk, PROP)
    tie_t = gen_gate.gate(chk, kernels=["det1", "det2", "det2vt", "ax_pos_num"])
    stats = vlib.run_differential(chk, PROP, "c01_geometry", tier)
    vlib.standard_coverage(chk, stats,
        "real ProjDataInfoCylindricalNoArcCorr (and BlocksOnCylindrical) built by construct_proj_data_info for 3 fixed + 45 generated small scanners "
        "(thorough: 300; N even, 1..9 rings, span 1/odd/even, max_delta, view mashing = every divisor, TOF mashing) + predefined scanners: "
        "ALL (view,tang)->detectors, ALL ordered detector pairs (strided for N>128 in quick), ALL ring pairs and ALL (segment,axial) lists, a seeded sample of full "
        "detector-position pairs/bins (pairs<->bin, lists, counts, uncompressed inverse), and histories set_num_views/clone after the lazy tables were built; "
        "every answer compared with the Lean model (incl. the decidable WFb hypothesis vs the implementation's ring-pair consistency); "
        "oracle: exchange symmetry, per-(view,tang) multiplicity, ring-pair partition, bin list exactness on the implementation.")
    chk.coverage["tie_T_translator"] = tie_t
    chk.assumptions += ["float computation of m_offset / ax_pos_num_offset replaced by exact integer arithmetic",
                        "32-bit overflow not modelled", "Generic geometry with a crystal map file not exercised"]
    if audit:
        vlib.proof_coverage(chk, audit, "cd lean && lake build StirVerif stirdriver && lake env lean ../build/out/Audit_C01.lean")
    return chk.finish()
