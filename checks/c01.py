"""C01 — detector pairs and sinogram bins form a consistent partition."""
import os
import vlib
import gen_gate

PROP = "C01"


def compare(op, impl, model):
    """Exact equality, except `wfh` (sampling changed by setters): the model answers the decidable hypothesis WFp of the
    ring-pair theorems, the implementation whether its ring-pair lists equal its ring-pair assignment on the in-range
    (segment, axial position)s.  WFp => consistent is the theorem and is what is required; a sampling that violates WFp
    only in a segment whose ring pairs all fall outside the shortened axial range is consistent on what is left."""
    if op == "wfh":
        return impl == model or (model == "0" and impl == "1")
    return impl == model


def main(tier, replay):
    if replay:
        for l in open(replay):
            if l.startswith("# seed="):
                os.environ["VERIF_SEED"] = l.split("seed=")[1].split()[0]
                tier = l.split("tier=")[1].split()[0]
    chk = vlib.Check(PROP, tier, level="proof")
    audit = vlib.lean_gate(chk, PROP)
    tie_t = gen_gate.gate(chk, kernels=["det1", "det2", "det2vt", "ax_pos_num"])
    stats = vlib.run_differential(chk, PROP, "c01_geometry", tier, sanitize=True, ctx_prefixes=("cfg", "cfgge"), compare=compare)
    vlib.standard_coverage(chk, stats,
        "real ProjDataInfoCylindricalNoArcCorr built by construct_proj_data_info (ProjDataInfoCTI) and by ProjDataInfo::ProjDataInfoGE for 3 fixed + 60 generated small "
        "scanners (thorough: 600; N even, 1..9 rings, span 1/odd/even or GE, max_delta incl. the refused values, view mashing = every divisor, odd TOF mashing, 1 in 6 TOF configurations with an even factor), "
        "ProjDataInfoBlocksOnCylindricalNoArcCorr / ProjDataInfoGenericNoArcCorr (crystal map file) on 18 generated block scanners (thorough: 120; every span / max_delta; "
        "a construction failure is an oracle failure; view mashing must be refused) + SAFIR, and predefined scanners (6; thorough 12 x 4) with seeded span / GE / max_delta / "
        "view mashing / odd TOF mashing: ALL (view,tang)->detectors, ALL ordered detector pairs (strided for N>128 in quick), ALL ring pairs and ALL (segment,axial) lists, "
        "a seeded sample of full detector-position pairs/bins (pairs<->bin, full lists and counts, spatial lists and counts with ignore_non_spatial_dimensions=true incl. TOF data, "
        "uncompressed inverse on every single-ring-difference segment); HISTORIES on every generated cylindrical configuration (8 steps, thorough 10; on the object or on a clone with the "
        "original re-checked): reduce_segment_range (symmetric and arbitrary), set_min/max_ring_difference (shrink, grow into free ring differences, min>max), "
        "set_min/max_axial_pos_num, set_num_tangential_poss, set_min/max_tangential_pos_num, set_num_views after the lazy tables were built, then the stored sampling, the "
        "refusal of the rebuild (error() iff min>max ring difference or odd axial-range sum of a compressed segment; answers of the error state; repair), ALL ring pairs, ALL "
        "(segment,axial) lists, all ordered detector pairs and a bin sample again; every answer compared with the Lean model (CylState: setters + rebuilt tables; WFb / WFp hypothesis "
        "vs the implementation's ring-pair consistency; `wfh`: WFp => consistent required, see compare()); oracle: exchange symmetry, per-(view,tang) multiplicity on the current "
        "tangential range, ring-pair partition on the in-range (segment,axial) positions (out-of-range assignments only for segments a setter touched), bin list exactness, "
        "spatial list exactness, refusals, on the implementation; the harness (with the inline accessors of the lazy tables) runs under ASan+UBSan.")
    chk.coverage["tie_T_translator"] = tie_t
    chk.assumptions += ["float computation of m_offset / ax_pos_num_offset replaced by exact integer arithmetic",
                        "32-bit overflow not modelled",
                        "even TOF mashing factors: the bin theorems assume an odd factor (negative witness C01_F5); the harness compares the reported count with the assignment and does not call "
                        "get_all_det_pos_pairs_for_bin(.., false) unless the library counts factor-1 positions for the central TOF bin (then oracle only, no model comparison)",
                        "Blocks/Generic classes: same model with tofMash = 0, mash = 1; their set_* histories are not exercised",
                        "set_ring_spacing, set_num_axial_poss_per_segment, set_tof_mash_factor after construction not exercised"]
    if audit:
        vlib.proof_coverage(chk, audit, "cd lean && lake build StirVerif stirdriver && lake env lean ../build/out/Audit_C01.lean")
    return chk.finish()
