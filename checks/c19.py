"""C19 — Fourier transforms invert; filters are the convolutions they claim to be."""
import math, os, struct
import vlib

PROP = "C19"
EPS = 2.0 ** -24


def _num(tok):
    """harness number: decimal integer or C99 hex float"""
    if "x" in tok or "X" in tok or "n" in tok:  # hex float, inf, nan
        return float.fromhex(tok)
    return float(int(tok))


def _bits(tok):
    """Lean driver number: IEEE-754 binary64 bit pattern in decimal"""
    return struct.unpack("<d", struct.pack("<Q", int(tok)))[0]


def _close(a, b, tol):
    return len(a) == len(b) and all(abs(x - y) <= tol for x, y in zip(a, b))  # NaN compares False


def _section(toks, name, start=0):
    return toks.index(name, start)


def _box_size(vals):
    n = 1
    for lo, hi in zip(vals[0::2], vals[1::2]):
        n *= max(0, hi - lo + 1)
    return n


def compare(op, impl, model):
    """Derived tolerances (eps = 2^-24, the unit round-off of the implementation's `float`):
    * exact (integer data, every intermediate < 2^24): conv1 conv1ip csym csymip conv2 conv2ip conv3 conv3ip sep sepnull sepoo sci scic; p2a (copies/conjugates);
      rng (index ranges and is_trivial flags) and padr (accepted? padded sizes) are compared as text
    * fft / rfft : |impl - model| <= 16 (log2 N + 2) eps sqrt(N) ||x||_2  per component (FFT forward error bound, N = number of points)
    * ifft / irfft: |impl - model| <= 16 (log2 N + 2) eps ||input||_2 / sqrt(N) ... stated on the input of the inverse
    * the same bounds against the DFT evaluated by its definition at the sampled frequencies
    * dftf dftfip dftfq: |impl - exact circular convolution| <= 32 (log2 L + 2) eps ||k||_1 ||x||_2  (three transforms + product)
    * dftfh (arbitrary kernel H in frequency space): |impl - binary64 model of the same transforms| <= 32 (log2 L + 2) eps max|H| ||x||_2
    * gauss: relative 16 eps (+1e-30): kernel coefficients are float-rounded values of double expressions; libm differences
    * metz: |impl - model| <= 5e-4 max|kernel| : the implementation runs two float FFTs of 2^14..2^15 points (measured noise up to 4e-5 of the peak)
      and drops trailing coefficients below 1e-4 of the peak, so a coefficient of up to ~1.5e-4 may be kept by one side and dropped by the other"""
    kind = op.split(" ", 1)[0]
    if impl == model:
        return True
    if model in ("bad-op", "<missing>") or impl == "<missing>":
        return False
    # Classes of the two known findings: the model transcribes the behaviour of the code as it is and ALSO gives (after " | ")
    # the behaviour the property demands, so that a repaired library still corresponds (the oracle, not the correspondence,
    # reports the defect while it exists).
    if kind == "padr" and " | " in model:
        return impl in model.split(" | ")
    if kind in ("irfft", "dftf", "dftfip", "dftfq") and model.startswith("err | "):
        if impl == "err":
            return True
        model = model[len("err | "):]
    if kind in ("conv2", "conv3", "conv2ip", "conv3ip") and " | " in model:
        return any(compare(op, impl, m) for m in model.split(" | "))
    if impl == "err" or model == "err":
        return False
    try:
        t = op.split()
        if kind in ("conv1", "conv1ip", "csym", "csymip", "conv2", "conv3", "conv2ip", "conv3ip", "sep", "sepnull", "sepoo", "sci", "scic"):
            return [_num(x) for x in impl.split()] == [float(int(x)) for x in model.split()]
        if kind == "p2a":
            return [_num(x) for x in impl.split()] == [_bits(x) for x in model.split()]
        if kind in ("fft", "ifft", "rfft", "irfft"):
            d = int(t[1])
            dims = [int(x) for x in t[2:2 + d]]
            n = 1
            for x in dims:
                n *= x
            data = [_num(x) for x in t[3 + d:]]
            nrm = math.sqrt(sum(x * x for x in data))
            l2 = math.log2(n) + 2
            if kind in ("fft", "rfft"):
                tol = 16 * l2 * EPS * math.sqrt(n) * nrm + 1e-30
            else:
                tol = 16 * l2 * EPS * nrm / math.sqrt(n) + 1e-30
            iv = [_num(x) for x in impl.split()]
            parts = model.split("|")
            mv = [_bits(x) for x in parts[0].split()]
            if not _close(iv, mv, tol):
                return False
            if len(parts) > 1:
                s = parts[1].split()
                for f, re, im in zip(s[0::3], s[1::3], s[2::3]):
                    f = int(f)
                    if abs(iv[2 * f] - _bits(re)) > tol or abs(iv[2 * f + 1] - _bits(im)) > tol:
                        return False
            return True
        if kind == "dftfh":
            d = int(t[1])
            hi, xi, oi = _section(t, "H"), _section(t, "X"), _section(t, "O")
            hb = [int(x) for x in t[hi + 1:hi + 1 + 2 * d]]
            hv = [int(x) for x in t[hi + 1 + 2 * d:xi]]
            xv = [int(x) for x in t[xi + 1 + 2 * d:oi]]
            hb[-1] = 2 * hb[-1] - 1  # padded length of the last dimension
            L = _box_size(hb)
            hmax = max([math.hypot(a, b) for a, b in zip(hv[0::2], hv[1::2])] + [0.0])
            tol = 32 * (math.log2(max(L, 1)) + 2) * EPS * hmax * math.sqrt(sum(x * x for x in xv)) + 1e-30
            return _close([_num(x) for x in impl.split()], [_bits(x) for x in model.split()], tol)
        if kind in ("dftf", "dftfip", "dftfq"):
            d = int(t[1])
            ki, xi = _section(t, "K"), _section(t, "X")
            oi = _section(t, "O") if kind != "dftfip" else len(t)
            kb = [int(x) for x in t[ki + 1:ki + 1 + 2 * d]]
            kv = [int(x) for x in t[ki + 1 + 2 * d:xi]]
            xv = [int(x) for x in t[xi + 1 + 2 * d:oi]]
            L = _box_size(kb)
            tol = 32 * (math.log2(max(L, 1)) + 2) * EPS * sum(abs(x) for x in kv) * math.sqrt(sum(x * x for x in xv)) + 1e-30
            return _close([_num(x) for x in impl.split()], [float(int(x)) for x in model.split()], tol)
        if kind == "gauss":
            ia = [_num(x) for x in impl.replace("|", " ").split()]
            ma = [_bits(x) for x in model.replace("|", " ").split()]
            return len(ia) == len(ma) and all(abs(x - y) <= 16 * EPS * abs(y) + 1e-30 for x, y in zip(ia, ma))
        if kind == "metz":
            for il, ml in zip(impl.split("|"), model.split("|")):
                ia, ma = [_num(x) for x in il.split()], [_bits(x) for x in ml.split()]
                if not _close(ia, ma, 5e-4 * max([abs(y) for y in ma] + [0.0]) + 1e-30):
                    return False
            return impl.count("|") == model.count("|")
    except (ValueError, IndexError, OverflowError):
        return False
    return False


def main(tier, replay):
    if replay:
        for l in open(replay):
            if l.startswith("# seed="):
                os.environ["VERIF_SEED"] = l.split("seed=")[1].split()[0]
                tier = l.split("tier=")[1].split()[0]
    chk = vlib.Check(PROP, tier, level="proof")
    audit = vlib.lean_gate(chk, PROP)
    stats = vlib.run_differential(chk, PROP, "c19_fourier_filters", tier, compare=compare)
    vlib.standard_coverage(chk, stats,
        "real fourier / inverse_fourier / fourier_for_real_data / inverse_fourier_for_real_data / pos_frequencies_to_all on all power-of-two "
        "lengths 1..128 plus two data sets each at 256, 512, 1024 (thorough: all kinds at 1..1024), 1-3 dimensions, both signs, random / impulse / constant / integer data, plus "
        "non-power-of-two error branches; ArrayFilter1DUsingConvolution (zero/constant/periodic, 1- and 2-argument call), ...SymmetricKernel, ArrayFilter2D/3DUsingConvolution "
        "(2-argument call, in-place operator(), default-constructed object), ArrayFilterUsingRealDFTWithPadding<1..3> built from a spatial kernel (2-argument and in-place call), from "
        "fourier_for_real_data(kernel) through the frequency-space constructor and through set_kernel_in_frequency_space (op dftfq), and from an arbitrary complex kernel H (op dftfh); "
        "set_padding_range's accept/reject decision and padding range (op padr: 0-based / shifted / irregular index ranges, non-power-of-two sizes; the private range is observed as the "
        "period of the identity filter H = 1); get_influencing_indices / get_influenced_indices / is_trivial of the 1-D, 2-D, 3-D convolution classes and the Succeeded::no default of the "
        "symmetric-kernel and DFT classes (op rng, one per convolution case); SeparableArrayFunctionObject<3>, SeparableConvolutionImageFilter (parsed and constructed), "
        "SeparableGaussianArrayFilter (FWHM 0, 1e-5..8 sampling distances, max_kernel_size -1 / 1..21 / 0 = documented error), SeparableMetzArrayFilter with random integer kernels/inputs of arbitrary "
        "index ranges. One line per operation compared with the Lean model: exactly for integer-data convolutions, index ranges, padding ranges and pos_frequencies_to_all; transforms against "
        "BOTH the transcribed butterfly model and the DFT by its definition (all frequencies if <= 64 points, else 24 sampled) within 16(log2 N+2) 2^-24 sqrt(N) ||x||_2; padded-DFT filter "
        "(all ways of building / calling it) against the exact circular convolution within 32(log2 L+2) 2^-24 ||k||_1 ||x||_2, with an arbitrary spectrum H against the binary64 model of the "
        "same transforms within 32(log2 L+2) 2^-24 max|H| ||x||_2; Gaussian kernels within 16 ulp(float). Oracle on the implementation alone: inversion, real-vs-complex agreement, impulse, "
        "Parseval, filter == definition sum_j k_j in_{i-j} (also in place), DFT route == direct route when no wrap-around is possible, frequency-space-built filter == spatial-kernel-built "
        "filter, in-place == out-of-place, frequency-space index ranges not starting at 0 or irregular are rejected by set_kernel_in_frequency_space and the constructor alike, output outside "
        "get_influenced_indices(input range) == boundary-condition value, changing input outside get_influencing_indices(output range) leaves the output unchanged, separable == successive "
        "1-D filters in all 6 axis orders, apply_array_functions_on_each_index (out-of-place separable route that consumes get_influencing_indices; oracle only) == 3-D convolution with the "
        "outer-product kernel, Gaussian/Metz kernel sums (normalised Gaussian == 1 also for automatic lengths and narrow FWHM) and mean preservation on locally constant data.")
    chk.assumptions += ["32-bit overflow not modelled", "float rounding of the transforms is bounded, not modelled (binary64 model)",
                        "real-data packing trick and n-D recursion of the transforms are checked by correspondence, not proved (the 1-D convolution theorem for the DFT by its definition is proved)",
                        "Metz kernels: model at binary64, compared within 5e-4 of the kernel peak",
                        "get_influencing/influenced_indices of the 2-D/3-D classes concern the outer index only (as coded); soundness of the reported ranges is proved for the model of each class, tightness only for 1-D",
                        "apply_array_functions_on_each_index is exercised by an oracle only (non-trivial zero-boundary filters, influencing range meeting the input range); MedianArrayFilter3D / MinimalArrayFilter3D / MaximalArrayFilter3D are not named by the property and not exercised"]
    if audit:
        vlib.proof_coverage(chk, audit, "cd lean && lake build StirVerif stirdriver && lake env lean ../build/out/Audit_C19.lean")
    return chk.finish()
