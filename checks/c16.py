"""C16 — single-scatter simulation: symmetric, linear, cache-independent, history-independent.
Lean: StirVerif/C16 (formula over any ordered field; sentinel cache; setter/set_up/process state machine + setter table).
Tie: hand-written model + correspondence: the real SingleScatterSimulation and the Lean driver answer the same operations
(formula values recomputed exactly in Rat from the ingredients the implementation read; set-up/cache state machine:
ok / err / crash / fresh / stale / number of scatter points / template sizes after every operation of a history).
Oracle: the property's own statement on the implementation (harness/c16_scatter.cxx).
Round 2: BlocksOnCylindrical templates, in-place change + same pointer, same-count scatter points elsewhere, down-sampled scanners,
automatic zoom, downsample_images_to_scanner_size, random placement."""
import os
from fractions import Fraction
import vlib

PROP = "C16"
EPSF = Fraction(1, 2 ** 24)
# simulate_for_one_scatter_point: ~16 floating-point operations on float inputs; actual_scatter_estimate adds the sum
# over n scatter points and 8 operations for the common factor.  Forward bound 4*n_ops*2^-24*M (M = same formula on
# absolute values), the rule of CONVENTIONS.md; the implementation computes in double, so this is generous but still
# 4-5 orders of magnitude below the effect of a dropped/swapped factor.
N_OPS_SSP = 16
N_OPS_EST = 64
N_OPS_EFFNS = 8


def _frac(tok):
    a, b = tok.split("/")
    return Fraction(int(a), int(b))


def compare(op, impl, model):
    kind = op.split(" ", 1)[0]
    if kind not in ("ssp", "est", "effns"):
        # an all-zero output equals the all-zero output of a fresh object whatever was stale
        if impl == "ok zero":
            return model in ("ok fresh", "ok stale")
        return impl == model
    try:
        val, mag = [_frac(t) for t in model.split()]
        x = Fraction(float.fromhex(impl))
    except (ValueError, ZeroDivisionError, OverflowError):
        return False
    n = {"ssp": N_OPS_SSP, "est": N_OPS_EST, "effns": N_OPS_EFFNS}[kind]
    return abs(x - val) <= 4 * n * EPSF * mag


def main(tier, replay):
    if replay:
        for l in open(replay):
            if l.startswith("# seed="):
                os.environ["VERIF_SEED"] = l.split("seed=")[1].split()[0]
                tier = l.split("tier=")[1].split()[0]
    chk = vlib.Check(PROP, tier, level="proof")
    audit = vlib.lean_gate(chk, PROP)
    stats = vlib.run_differential(chk, PROP, "c16_scatter", tier, compare=compare)
    vlib.standard_coverage(chk, stats,
        "real SingleScatterSimulation on generated scanners, 7 templates per world: cylindrical (8-16 detectors x 1-3 rings; two of equal size "
        "with different radius/energy resolution, one of another size, two with a coarse default bin size), BlocksOnCylindrical (4-6 flat blocks of "
        "3-4 crystals x 2-3 rings, two of equal size with different radius/crystal pitch: the two crystals of a pair are at different radii, "
        "generator-checked), down-sampled scanners (downsample_scanner through the set_up flag and through explicit calls, both geometries); "
        "3 energy windows, dense/sparse/zero activity images, 3 attenuation images (one the mirror image of another: same number of derived scatter "
        "points elsewhere), 3 scatter-point images (two with the same number of scatter points at different voxels), 2 thresholds, 2 explicit zoom "
        "sets + the automatic (-1) zoom/size, downsample_images_to_scanner_size, randomly_place_scatter_points off and on (time() replaced by a "
        "clock derived from the seed). "
        "`ssp`/`est`/`effns`: value of simulate_for_one_scatter_point / actual_scatter_estimate / detection_efficiency_no_scatter (both orders of "
        "the pair) vs the Lean formula evaluated exactly in Rat on the ingredients the implementation read — the incidence cosine of EACH detector "
        "separately — tolerance 4*n*2^-24*M (n=16 / 64 / 8, M = formula on absolute values), on all of the above configurations. "
        "History operations (set_*/set_up/process/nsp/tmplinfo, `set_act_ip`/`set_att_ip`/`set_spimg_ip` = the owner overwrites the image in "
        "place and hands the SAME shared_ptr to the setter again, `ds_scanner r d`, `ds_sp`): answers ok/err/crash/`ok fresh`/`ok stale`/counts "
        "compared literally with the Lean state machine; `ok fresh` = output bitwise equal to that of a freshly configured object (given equal "
        "VALUES through other pointers). distinct = distinct operation lines. "
        "Oracle (every phase-A configuration): A<->B symmetry for all detector pairs x scatter points (64*2^-24 relative), bin = estimate of its "
        "pair (bitwise), >= 0 (for pairs whose crystals face each other), detection points centred in z, zero activity => 0, 2*activity => "
        "2*estimate (16*2^-24), additivity (4*64*2^-24) on fresh objects and on the SAME object (set_activity_image_sptr + set_up; the only form "
        "used with random placement, where the clock advances between samplings), cache on == off (bitwise; same object with random placement); "
        "every process_data of a clean history == fresh object (bitwise; a fifth of the random histories and some targeted ones with random "
        "placement and the clock pinned). Oracle-only histories (not in the Lean state machine): automatic zoom/size after activity / "
        "attenuation / template changes, downsample_images_to_scanner_size after a computation.")
    chk.assumptions += [
        "line integrals, Compton cross sections, detection efficiencies, cosines and pow() are inputs of the formula model (their linearity / sign "
        "hypotheses are checked on the implementation by the oracle, not proved); detector coordinates (find_detectors, blocks geometry) are taken "
        "from the implementation, only their z-centring is checked",
        "state machine over value identities: two different images/templates/windows are assumed to give different integrals (generator makes sure); "
        "an in-place change + same pointer is modelled as the setter with new values (theorem C16_inplace_same_pointer_invalidates_like_new_pointer); "
        "changing an image in place WITHOUT calling the setter is outside the property and not exercised",
        "automatic (-1) zoom factors, downsample_images_to_scanner_size and set_randomly_place_scatter_points are not in the Lean state machine "
        "(oracle on the implementation only); random placement: srand(time(NULL)) is made reproducible by replacing time(); two objects are only "
        "compared with the clock pinned",
        "BlocksOnCylindrical templates have >= 2 rings (downsample_scanner of a one-ring blocks scanner gives zero ring spacing) and only LORs "
        "between different blocks (tangential range n/2-1); single thread",
        "32-bit overflow not modelled"]
    if audit:
        vlib.proof_coverage(chk, audit, "cd lean && lake build StirVerif stirdriver && lake env lean ../build/out/Audit_C16.lean")
    return chk.finish()
