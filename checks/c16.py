"""C16 — single-scatter simulation: symmetric, linear, cache-independent, history-independent.
Lean: StirVerif/C16 (formula over any ordered field; sentinel cache; setter/set_up/process state machine + setter table).
Tie: hand-written model + correspondence: the real SingleScatterSimulation and the Lean driver answer the same operations
(formula values recomputed exactly in Rat from the ingredients the implementation read; set-up/cache state machine:
ok / err / crash / fresh / stale / number of scatter points / template sizes after every operation of a history).
Oracle: the property's own statement on the implementation (harness/c16_scatter.cxx)."""
import os
from fractions import Fraction
import vlib

PROP = "C16"
EPSF = Fraction(1, 2 ** 24)
# simulate_for_one_scatter_point: ~16 floating-point operations on float inputs; actual_scatter_estimate adds the sum
# over n scatter points and 8 operations for the common factor.  Forward bound 4*n_ops*2^-24*M (M = same formula on
# absolute values), the rule of CONVENTIONS.md; the implementation computes in double, so this is generous but still
# 4-5 orders of magnitude below the effect of a dropped/swapped factor.
N_OPS_SSP = 16
N_OPS_EST = 64


def _frac(tok):
    a, b = tok.split("/")
    return Fraction(int(a), int(b))


def compare(op, impl, model):
    kind = op.split(" ", 1)[0]
    if kind not in ("ssp", "est"):
        # an all-zero output equals the all-zero output of a fresh object whatever was stale
        if impl == "ok zero":
            return model in ("ok fresh", "ok stale")
        return impl == model
    try:
        val, mag = [_frac(t) for t in model.split()]
        x = Fraction(float.fromhex(impl))
    except (ValueError, ZeroDivisionError, OverflowError):
        return False
    n = N_OPS_SSP if kind == "ssp" else N_OPS_EST
    return abs(x - val) <= 4 * n * EPSF * mag


def main(tier, replay):
    if replay:
        for l in open(replay):
            if l.startswith("# seed="):
                os.environ["VERIF_SEED"] = l.split("seed=")[1].split()[0]
                tier = l.split("tier=")[1].split()[0]
    chk = vlib.Check(PROP, tier, level="proof")
    audit = vlib.lean_gate(chk, PROP)
    stats = vlib.run_differential(chk, PROP, "c16_scatter", tier, compare=compare)
    vlib.standard_coverage(chk, stats,
        "real SingleScatterSimulation on generated cylindrical scanners (8-16 detectors x 1-3 rings; thorough: 10 worlds), 3 templates per world "
        "(two of equal size with different radius/energy resolution), 3 energy windows, dense/sparse/zero activity images, 2 attenuation images, "
        "3 scatter-point images (two with the same number of scatter points at different voxels), 2 thresholds, 2 zoom sets. "
        "`ssp`/`est`: value of simulate_for_one_scatter_point / actual_scatter_estimate vs the Lean formula evaluated exactly in Rat on the "
        "ingredients the implementation read, tolerance 4*n*2^-24*M (n=16 / 64, M = formula on absolute values). "
        "History operations (set_*/set_up/process/nsp/tmplinfo): answers ok/err/crash/`ok fresh`/`ok stale`/counts compared literally with the "
        "Lean state machine; `ok fresh` = output bitwise equal to that of a freshly configured object. distinct = distinct operation lines. "
        "Oracle: A<->B symmetry for all detector pairs x scatter points (64*2^-24 relative), bin = estimate of its pair (bitwise), >= 0, "
        "zero activity => 0, 2*activity => 2*estimate (16*2^-24), additivity (4*64*2^-24), cache on == off (bitwise), every process_data of a "
        "clean history == fresh object (bitwise).")
    chk.assumptions += [
        "line integrals, Compton cross sections, detection efficiencies, cosines and pow() are inputs of the formula model (their linearity / sign "
        "hypotheses are checked on the implementation by the oracle, not proved)",
        "state machine over value identities: two different images/templates/windows are assumed to give different integrals (generator makes sure)",
        "cylindrical scanners, explicit zoom factors for the scatter-point image, non-random scatter-point placement, single thread",
        "32-bit overflow not modelled"]
    if audit:
        vlib.proof_coverage(chk, audit, "cd lean && lake build StirVerif stirdriver && lake env lean ../build/out/Audit_C16.lean")
    return chk.finish()
