"""C16 — single-scatter simulation: symmetric, linear, cache-independent, history-independent.
Lean: StirVerif/C16 (formula over any ordered field; sentinel cache; setter/set_up/process state machine + setter table).
Tie: hand-written model + correspondence: the real SingleScatterSimulation and the Lean driver answer the same operations
(formula values recomputed exactly in Rat from the ingredients the implementation read; set-up/cache state machine:
ok / err / crash / fresh / stale / number of scatter points / template sizes after every operation of a history).
Oracle: the property's own statement on the implementation (harness/c16_scatter.cxx).
Round 2: BlocksOnCylindrical templates, in-place change + same pointer, same-count scatter points elsewhere, down-sampled scanners,
automatic zoom, downsample_images_to_scanner_size, random placement.
Round 3: the older switch set_cache_enabled(bool) and the parsed keyword `use cache` in forced three-step histories (cache on / off + change of an
image / on again), setters by file name, set_exam_info_sptr, set_randomly_place_scatter_points in mid-history, the three ways to provide the output,
the parsing constructor (oracle)."""
import os
from fractions import Fraction
import vlib

PROP = "C16"
EPSF = Fraction(1, 2 ** 24)
# simulate_for_one_scatter_point: ~16 floating-point operations on float inputs; actual_scatter_estimate adds the sum
# over n scatter points and 8 operations for the common factor.  Forward bound 4*n_ops*2^-24*M (M = same formula on
# absolute values), the rule of CONVENTIONS.md; the implementation computes in double, so this is generous but still
# 4-5 orders of magnitude below the effect of a dropped/swapped factor.
N_OPS_SSP = 16
N_OPS_EST = 64
N_OPS_EFFNS = 8


def _frac(tok):
    a, b = tok.split("/")
    return Fraction(int(a), int(b))


def compare(op, impl, model):
    kind = op.split(" ", 1)[0]
    if kind not in ("ssp", "est", "effns"):
        # an all-zero output equals the all-zero output of a fresh object whatever was stale
        if impl == "ok zero":
            return model in ("ok fresh", "ok stale")
        return impl == model
    try:
        val, mag = [_frac(t) for t in model.split()]
        x = Fraction(float.fromhex(impl))
    except (ValueError, ZeroDivisionError, OverflowError):
        return False
    n = {"ssp": N_OPS_SSP, "est": N_OPS_EST, "effns": N_OPS_EFFNS}[kind]
    return abs(x - val) <= 4 * n * EPSF * mag


def main(tier, replay):
    if replay:
        for l in open(replay):
            if l.startswith("# seed="):
                os.environ["VERIF_SEED"] = l.split("seed=")[1].split()[0]
                tier = l.split("tier=")[1].split()[0]
    chk = vlib.Check(PROP, tier, level="proof")
    audit = vlib.lean_gate(chk, PROP)
    stats = vlib.run_differential(chk, PROP, "c16_scatter", tier, compare=compare)
    vlib.standard_coverage(chk, stats,
        "real SingleScatterSimulation on generated scanners, 7 generated templates per world (+ 4 cylindrical ones read back from Interfile projection-data headers written by the harness): cylindrical (8-16 detectors x 1-3 rings; two of equal size "
        "with different radius/energy resolution, one of another size, two with a coarse default bin size), BlocksOnCylindrical (4-6 flat blocks of "
        "3-4 crystals x 2-3 rings, two of equal size with different radius/crystal pitch: the two crystals of a pair are at different radii, "
        "generator-checked), down-sampled scanners (downsample_scanner through the set_up flag and through explicit calls, both geometries); "
        "3 energy windows (two share the upper, two the lower threshold) + those read back from 4 Interfile projection-data headers, dense/sparse/zero activity images, 3 attenuation images (one the mirror image of another: same number of derived scatter "
        "points elsewhere), 3 scatter-point images (two with the same number of scatter points at different voxels), 2 thresholds, 2 explicit zoom "
        "sets + the automatic (-1) zoom/size, downsample_images_to_scanner_size, randomly_place_scatter_points off and on (time() replaced by a "
        "clock derived from the seed). "
        "`ssp`/`est`/`effns`: value of simulate_for_one_scatter_point / actual_scatter_estimate / detection_efficiency_no_scatter (both orders of "
        "the pair) vs the Lean formula evaluated exactly in Rat on the ingredients the implementation read — the incidence cosine of EACH detector "
        "separately — tolerance 4*n*2^-24*M (n=16 / 64 / 8, M = formula on absolute values), on all of the above configurations. "
        "History operations (set_*/set_up/process/nsp/tmplinfo, `set_act_ip`/`set_att_ip`/`set_spimg_ip` = the owner overwrites the image in "
        "place and hands the SAME shared_ptr to the setter again, `ds_scanner r d`, `ds_sp`; round 3: BOTH cache switches `set_use_cache` (clears "
        "the arrays, then the flag) and `set_cache_enabled` (the flag only) and the parsed keyword `parse_use_cache b` = parse() of a parameter "
        "file with only `use cache := b`; `set_act_file`/`set_att_file`/`set_spimg_file`/`set_tmpl_file k e` = the setters by FILE NAME on Interfile "
        "files written by the harness (the pool images ARE what read_from_file returns, the file templates / exam infos are pool entries of "
        "their own), `set_exam_sptr` = set_exam_info_sptr, `set_rnd b` = set_randomly_place_scatter_points at any point of a history (the flag is "
        "part of the model's scatter-point stamp), output provided through set_output_proj_data_sptr(sptr) / set_output_proj_data(\"\") / "
        "set_output_proj_data_sptr(exam, info, \"\") chosen per history): answers ok/err/crash/`ok fresh`/`ok stale`/counts "
        "compared literally with the Lean state machine; `ok fresh` = output bitwise equal to that of a freshly configured object (given equal "
        "VALUES through other pointers). distinct = distinct operation lines. "
        "Oracle (every phase-A configuration): A<->B symmetry for all detector pairs x scatter points (64*2^-24 relative), bin = estimate of its "
        "pair (bitwise), >= 0 (for pairs whose crystals face each other), detection points centred in z, zero activity => 0, 2*activity => "
        "2*estimate (16*2^-24), additivity (4*64*2^-24) on fresh objects and on the SAME object (set_activity_image_sptr + set_up; the only form "
        "used with random placement, where the clock advances between samplings), cache on == off (bitwise; same object with random placement); "
        "every process_data of a clean history == fresh object (bitwise; a fifth of the random histories and some targeted ones with random "
        "placement and the clock pinned). "
        "FORCED per world and seed (round 3): 18 three-step histories — compute with the cache on; switch off with set_cache_enabled / the parsed "
        "keyword; change the activity or the attenuation image (new object / in place + same pointer / by file name; scatter points derived or "
        "given again, so that the arrays keep their size); [set_up; compute without cache;] switch on; set_up; compute; for half of them the same "
        "backwards — plus the switch with nothing changed (also WITHOUT set_up after switching on again: the arrays survive set_cache_enabled, which is what "
        "distinguishes it from set_use_cache; kind `strict`, outside both Lean guards), with a same-size template / same-count scatter-point image changed meanwhile, and "
        "with set_use_cache: EVERY result bitwise == fresh object with the same settings AND == fresh object with the OPPOSITE cache setting "
        "(`cache-flipped-oracle`, also on a quarter of the random histories), and == Lean state machine under the weaker guard of `runGuarded2` "
        "(kind `clean2`: enabling the cache on a set-up object is admitted when the next operation is set_up; all random clean histories use it). "
        "Entry-point histories: everything by file name and changes by file name after a computation, file/object mixed, set_exam_info_sptr after "
        "a template change (clean) and alone (KNOWN class of set_exam_info), set_randomly_place_scatter_points before the scatter points are "
        "sampled (clean), with the value it already has on an object with a user-supplied scatter-point image (clean), after they were sampled "
        "(recorded, like threshold/zoom). Oracle-only: SingleScatterSimulation(parameter file) with all keywords == object configured through "
        "the setters, also after parse(`use cache`) + another activity image, twice. Oracle-only histories (not in the Lean state machine): automatic zoom/size after activity / "
        "attenuation / template changes, downsample_images_to_scanner_size after a computation.")
    chk.assumptions += [
        "line integrals, Compton cross sections, detection efficiencies, cosines and pow() are inputs of the formula model (their linearity / sign "
        "hypotheses are checked on the implementation by the oracle, not proved); detector coordinates (find_detectors, blocks geometry) are taken "
        "from the implementation, only their z-centring is checked",
        "state machine over value identities: two different images/templates/windows are assumed to give different integrals (generator makes sure); "
        "an in-place change + same pointer is modelled as the setter with new values (theorem C16_inplace_same_pointer_invalidates_like_new_pointer); "
        "changing an image in place WITHOUT calling the setter is outside the property and not exercised",
        "automatic (-1) zoom factors and downsample_images_to_scanner_size are not in the Lean state machine (oracle on the implementation only); "
        "random placement: the FLAG is a setting of the state machine (stamp of the scatter points), the positions drawn are not modelled; "
        "srand(time(NULL)) is made reproducible by replacing time(); two objects are only compared with the clock pinned",
        "public non-const members NOT exercised: ask_parameters (interactive), set_output_proj_data / set_output_proj_data_sptr with a non-empty "
        "file name (output on disk, write_log), the keywords other than `use cache` only through the parsing constructor (oracle, no model); "
        "`parse_use_cache` is only used on objects whose file-name members are empty (a parse() after a setter by file name reads the files again: "
        "exercised by the parsed-constructor oracle only); BlocksOnCylindrical templates are not written to files (their Interfile header does not "
        "read back: 6-decimal crystal/block spacing — header I/O, outside C16)",
        "BlocksOnCylindrical templates have >= 2 rings (downsample_scanner of a one-ring blocks scanner gives zero ring spacing) and only LORs "
        "between different blocks (tangential range n/2-1); single thread",
        "32-bit overflow not modelled"]
    if audit:
        vlib.proof_coverage(chk, audit, "cd lean && lake build StirVerif stirdriver && lake env lean ../build/out/Audit_C16.lean")
    return chk.finish()
