"""C16 — single-scatter simulation: symmetric, linear, cache-independent, history-independent.
Lean: StirVerif/C16 (formula over any ordered field; sentinel cache; setter/set_up/process state machine + setter table).
Tie: hand-written model + correspondence: the real SingleScatterSimulation and the Lean driver answer the same operations
(formula values recomputed exactly in Rat from the ingredients the implementation read; set-up/cache state machine:
ok / err / crash / fresh / stale / number of scatter points / template sizes after every operation of a history).
Oracle: the property's own statement on the implementation (harness/c16_scatter.cxx).
Round 2: BlocksOnCylindrical templates, in-place change + same pointer, same-count scatter points elsewhere, down-sampled scanners,
automatic zoom, downsample_images_to_scanner_size, random placement.
Round 3: the older switch set_cache_enabled(bool) and the parsed keyword `use cache` in forced three-step histories (cache on / off + change of an
image / on again), setters by file name, set_exam_info_sptr, set_randomly_place_scatter_points in mid-history, the three ways to provide the output,
the parsing constructor (oracle).
Round 4: energy windows that do not contain 511 keV / straddle it narrowly / very narrow / very wide with energy resolutions 5-30 % (phase A + `deteff` /
`eff511`: detection_efficiency transcribed into the model, erf in binary64); activity values up to 1e6, homogeneity factors 1e-6 / 1e3 / 1e6, additivity with
half images and point sources, `actint` (capped solid-angle factor x ray sum, exact in Rat); the automatic (-1) zoom factors in the Lean state machine (what the
call stores: `autoZ`; `zoommem`), one object re-used with attenuation images of another x/y size."""
import os
from fractions import Fraction
import vlib

PROP = "C16"
EPSF = Fraction(1, 2 ** 24)
# simulate_for_one_scatter_point: ~16 floating-point operations on float inputs; actual_scatter_estimate adds the sum
# over n scatter points and 8 operations for the common factor.  Forward bound 4*n_ops*2^-24*M (M = same formula on
# absolute values), the rule of CONVENTIONS.md; the implementation computes in double, so this is generous but still
# 4-5 orders of magnitude below the effect of a dropped/swapped factor.
N_OPS_SSP = 16
N_OPS_EST = 64
N_OPS_EFFNS = 8


def _frac(tok):
    a, b = tok.split("/")
    return Fraction(int(a), int(b))


# detection_efficiency(E) = 0.5f*(erf(a) - erf(b)), a = (hi-E)/sigma, b = (lo-E)/sigma computed in SINGLE precision: the relative
# error of a and b is at most 3*2^-24 (subtraction, sigma rounded to float, division); erf(t) moves by
# (2/sqrt(pi))*|t|*exp(-t^2) times the relative error of t (first order; the model prints M = half the sum of the two
# sensitivities + |value| for the final rounding).  Bound used: 16*2^-24*M + 2^-46 (the floor covers `1 - z` in
# stir::erf, which is rounded to a multiple of 2^-53, and the 1e-16 absolute accuracy of the model's binary64 erf).
DETEFF_FACTOR = 16  # 4*n with n = 3 single-precision operations, rounded up
DETEFF_FLOOR = Fraction(1, 2 ** 46)


def compare(op, impl, model):
    kind = op.split(" ", 1)[0]
    if kind == "deteff":
        try:
            val, mag = [_frac(t) for t in model.split()]
            x = Fraction(float.fromhex(impl))
        except (ValueError, ZeroDivisionError, OverflowError):
            return False
        return abs(x - val) <= DETEFF_FACTOR * EPSF * mag + DETEFF_FLOOR
    if kind == "eff511":
        # norm = raw > 0 ? raw : 1; where raw is within the floor of 0 the implementation may take either branch
        try:
            norm, raw, mag = [_frac(t) for t in model.split()]
            x = Fraction(float.fromhex(impl))
        except (ValueError, ZeroDivisionError, OverflowError):
            return False
        tol = DETEFF_FACTOR * EPSF * mag + DETEFF_FLOOR
        if abs(x - norm) <= tol + 8 * Fraction(1, 2 ** 52) * abs(norm):
            return True
        return raw <= 2 * DETEFF_FLOOR and (abs(x - 1) <= Fraction(1, 2 ** 40) or abs(x - raw) <= tol)
    if kind == "actint":
        # float sum of n products, one division and one product for the capped factor, one product with the sum
        try:
            val, mag = [_frac(t) for t in model.split()]
            x = Fraction(float.fromhex(impl))
            n = int(op.split(" ", 2)[1])
        except (ValueError, ZeroDivisionError, OverflowError):
            return False
        return abs(x - val) <= 4 * (n + 4) * EPSF * mag
    if kind not in ("ssp", "est", "effns"):
        # an all-zero output equals the all-zero output of a fresh object whatever was stale
        if impl == "ok zero":
            return model in ("ok fresh", "ok stale")
        return impl == model
    try:
        val, mag = [_frac(t) for t in model.split()]
        x = Fraction(float.fromhex(impl))
    except (ValueError, ZeroDivisionError, OverflowError):
        return False
    n = {"ssp": N_OPS_SSP, "est": N_OPS_EST, "effns": N_OPS_EFFNS}[kind]
    return abs(x - val) <= 4 * n * EPSF * mag


def main(tier, replay):
    if replay:
        for l in open(replay):
            if l.startswith("# seed="):
                os.environ["VERIF_SEED"] = l.split("seed=")[1].split()[0]
                tier = l.split("tier=")[1].split()[0]
    chk = vlib.Check(PROP, tier, level="proof")
    audit = vlib.lean_gate(chk, PROP)
    stats = vlib.run_differential(chk, PROP, "c16_scatter", tier, compare=compare)
    vlib.standard_coverage(chk, stats,
        "real SingleScatterSimulation on generated scanners, 9 generated templates per world (round 4: two of them with 5 % / 30 % energy resolution) (+ 4 cylindrical ones read back from Interfile projection-data headers written by the harness): cylindrical (8-16 detectors x 1-3 rings; two of equal size "
        "with different radius/energy resolution, one of another size, two with a coarse default bin size), BlocksOnCylindrical (4-6 flat blocks of "
        "3-4 crystals x 2-3 rings, two of equal size with different radius/crystal pitch: the two crystals of a pair are at different radii, "
        "generator-checked), down-sampled scanners (downsample_scanner through the set_up flag and through explicit calls, both geometries); "
        "3 energy windows containing 511 keV (two share the upper, two the lower threshold) + 7 round-4 windows (see ROUND 4) + those read back from 4 Interfile projection-data headers, dense/sparse/zero activity images, 3 attenuation images (one the mirror image of another: same number of derived scatter "
        "points elsewhere) + 1 of another x/y size, 3 scatter-point images (two with the same number of scatter points at different voxels), 2 thresholds, 2 explicit zoom "
        "sets + 1 with sizes -1 + the automatic (-1) zoom/size, downsample_images_to_scanner_size, randomly_place_scatter_points off and on (time() replaced by a "
        "clock derived from the seed). "
        "`ssp`/`est`/`effns`: value of simulate_for_one_scatter_point / actual_scatter_estimate / detection_efficiency_no_scatter (both orders of "
        "the pair) vs the Lean formula evaluated exactly in Rat on the ingredients the implementation read — the incidence cosine of EACH detector "
        "separately — tolerance 4*n*2^-24*M (n=16 / 64 / 8, M = formula on absolute values), on all of the above configurations. "
        "History operations (set_*/set_up/process/nsp/tmplinfo, `set_act_ip`/`set_att_ip`/`set_spimg_ip` = the owner overwrites the image in "
        "place and hands the SAME shared_ptr to the setter again, `ds_scanner r d`, `ds_sp`; round 3: BOTH cache switches `set_use_cache` (clears "
        "the arrays, then the flag) and `set_cache_enabled` (the flag only) and the parsed keyword `parse_use_cache b` = parse() of a parameter "
        "file with only `use cache := b`; `set_act_file`/`set_att_file`/`set_spimg_file`/`set_tmpl_file k e` = the setters by FILE NAME on Interfile "
        "files written by the harness (the pool images ARE what read_from_file returns, the file templates / exam infos are pool entries of "
        "their own), `set_exam_sptr` = set_exam_info_sptr, `set_rnd b` = set_randomly_place_scatter_points at any point of a history (the flag is "
        "part of the model's scatter-point stamp), output provided through set_output_proj_data_sptr(sptr) / set_output_proj_data(\"\") / "
        "set_output_proj_data_sptr(exam, info, \"\") chosen per history): answers ok/err/crash/`ok fresh`/`ok stale`/counts "
        "compared literally with the Lean state machine; `ok fresh` = output bitwise equal to that of a freshly configured object (given equal "
        "VALUES through other pointers). distinct = distinct operation lines. "
        "Oracle (every phase-A configuration): A<->B symmetry for all detector pairs x scatter points (64*2^-24 relative), bin = estimate of its "
        "pair (bitwise), >= 0 (for pairs whose crystals face each other), detection points centred in z, zero activity => 0, 2*activity => "
        "2*estimate (16*2^-24), additivity (4*64*2^-24) on fresh objects and on the SAME object (set_activity_image_sptr + set_up; the only form "
        "used with random placement, where the clock advances between samplings), cache on == off (bitwise; same object with random placement); "
        "every process_data of a clean history == fresh object (bitwise; a fifth of the random histories and some targeted ones with random "
        "placement and the clock pinned). "
        "FORCED per world and seed (round 3): 18 three-step histories — compute with the cache on; switch off with set_cache_enabled / the parsed "
        "keyword; change the activity or the attenuation image (new object / in place + same pointer / by file name; scatter points derived or "
        "given again, so that the arrays keep their size); [set_up; compute without cache;] switch on; set_up; compute; for half of them the same "
        "backwards — plus the switch with nothing changed (also WITHOUT set_up after switching on again: the arrays survive set_cache_enabled, which is what "
        "distinguishes it from set_use_cache; kind `strict`, outside both Lean guards), with a same-size template / same-count scatter-point image changed meanwhile, and "
        "with set_use_cache: EVERY result bitwise == fresh object with the same settings AND == fresh object with the OPPOSITE cache setting "
        "(`cache-flipped-oracle`, also on a quarter of the random histories), and == Lean state machine under the weaker guard of `runGuarded2` "
        "(kind `clean2`: enabling the cache on a set-up object is admitted when the next operation is set_up; all random clean histories use it). "
        "Entry-point histories: everything by file name and changes by file name after a computation, file/object mixed, set_exam_info_sptr after "
        "a template change (clean) and alone (KNOWN class of set_exam_info), set_randomly_place_scatter_points before the scatter points are "
        "sampled (clean), with the value it already has on an object with a user-supplied scatter-point image (clean), after they were sampled "
        "(recorded, like threshold/zoom). Oracle-only: SingleScatterSimulation(parameter file) with all keywords == object configured through "
        "the setters, also after parse(`use cache`) + another activity image, twice. Oracle-only histories: automatic zoom/size after activity / "
        "attenuation / template changes (KNOWN classes), downsample_images_to_scanner_size after a computation (not in the Lean state machine). "
        "ROUND 4. (1) Energy windows: per world 7 more exam infos — 400-480, 250-350, 120-160 keV (do NOT contain 511), 350-(511.5..520.5) and "
        "350-(501.5..510.5) (upper threshold just above / just below 511), 505-517 (very narrow), 50-1000 (very wide) — and two more templates with "
        "energy resolution 5 % and 30 % (the others have 10-20 %): 7 more phase-A configurations per world (14 in the thorough tier) run ALL oracles "
        "(symmetry, >= 0 for every (point, pair) and every bin, zero, linearity, cache on == off) and the `ssp`/`est`/`effns` correspondence on them. "
        "`deteff E Eref res 2.35482f lo hi`: detection_efficiency(E) of the real object vs the Lean transcription "
        "0.5*(erf((hi-E)/s) - erf((lo-E)/s)), s = sqrt(2*E*Eref)*res/2.35482f, evaluated in binary64 with the model's own erf (series / continued "
        "fraction, absolute accuracy 1e-16; NOT a transcription of stir/numerics/erf.inl), for every pool window x 5 templates x 17 fixed + 2 random "
        "energies, for 30 (thorough: 60) random windows (lower threshold 30-600 keV, width 1-600 keV or ending within 3 keV of 511) x resolutions 5-30 % "
        "(a quarter quoted at another reference energy) x 20 energies, and for the scattered energy of the first 3 scatter points of every `est` line; "
        "tolerance 16*2^-24*M + 2^-46, M = half the sum of the first-order sensitivities (2/sqrt(pi))*|t|*exp(-t^2) of the two erf arguments (3 "
        "single-precision operations each) + |value|; oracle 0 <= efficiency <= 1 on every one of them. `eff511 Eref res 2.35482f lo hi`: the "
        "normalisation the object holds (recovered from detection_efficiency_no_scatter(A,B)) vs the model's `eff(511) > 0 ? eff(511) : 1` (either "
        "branch accepted where eff(511) is below 2^-45); oracle: it is positive. "
        "(2) Automatic scatter-point image on a re-used object: a 4th attenuation image with 4-10 more voxels in x and y (same voxel sizes and planes) and "
        "a zoom set with explicit factors and sizes -1; per world 6 forced clean histories (automatic factors starting narrow / wide: set_up; compute; "
        "other size; set_up; compute; by file name + explicit downsample_density_image_for_scatter_points call with the members as arguments; in "
        "place; threshold; the explicit call before any set_up; explicit factors with sizes -1 on a cylindrical and a blocks template; explicit sizes) "
        "+ 1 history with template changes (the KNOWN automatic-zoom classes: the state machine has to predict which results are stale) + 10 "
        "(thorough: 30) random histories with the automatic factors inside the guard: every process_data == fresh object (bitwise, most also == fresh "
        "object with the opposite cache setting), `nsp` and `zoommem` (the members zoom_size_xy, zoom_size_z and `zoom_xy < 0`) == Lean state machine, "
        "which now has the members the automatic call stores (zoom_xy / zoom_z / zoom_size_z frozen as a class measured on probe objects, zoom_size_z "
        "= number of rings, zoom_size_xy stays -1). Generator check: the two image sizes give automatic scatter-point images of different x size. "
        "(3) Activity: pool images with values up to 1e6 (log-uniform), the x < 0 and x >= 0 halves of image 0, a point source; every phase-A "
        "configuration: estimate(f*activity) == f*estimate for f = 1e-6, 1e3, 1e6 on fresh objects and on the same object (64*2^-24 relative), "
        "estimate(left) + estimate(right) == estimate(whole), estimate(3*left + 1e4*point) == 3*estimate(left) + 1e4*estimate(point) (4*64*2^-24); "
        "4 more phase-A configurations with the large / point / half image as THE activity image (all oracles + correspondence). "
        "`actint n r2 pi/2 (inside value length)^n`: integral_over_activity_image_between_scattpoint_det(scatter point, detector) vs the Lean model "
        "min(pi/2, 1/r2) * sum over the ray elements (those RayTraceVoxelsOnCartesianGrid returns for the arguments integral_between_2_points passes; "
        "exact in Rat, tolerance 4*(n+4)*2^-24*M) for both detectors of the first 3 scatter points of every `est` line; oracle: cached integral == direct "
        "integral (bitwise) and == min(pi/2, 1/r2) * integral_between_2_points (4*2^-24).")
    chk.assumptions += [
        "attenuation line integrals, Compton cross sections, max_cos_angle, photon energy after scatter, cosines and pow() are inputs of the formula "
        "model (their sign hypotheses are checked on the implementation by the oracle, not proved); round 4: detection_efficiency and the capped "
        "solid-angle factor of the activity integral ARE transcribed (theorems: >= 0 for every window given erf monotone, <= 1, normalisation > 0, "
        "activity integral linear in the image with the cap), with erf / sqrt as parameters instantiated in binary64 by the driver; the ray elements "
        "of `actint` are RayTraceVoxelsOnCartesianGrid's (taken from STIR, not modelled); detector coordinates (find_detectors, blocks geometry) "
        "are taken from the implementation, only their z-centring is checked",
        "state machine over value identities: two different images/templates/windows are assumed to give different integrals (generator makes sure); "
        "an in-place change + same pointer is modelled as the setter with new values (theorem C16_inplace_same_pointer_invalidates_like_new_pointer); "
        "changing an image in place WITHOUT calling the setter is outside the property and not exercised",
        "automatic (-1) zoom factors: the VALUES computed (zoom_xy = voxel size ratio, zoom_z, sizes) are not modelled — the state machine has which "
        "members the call stores and the computed factors as a class per (attenuation image, template) measured on probe objects; automatic "
        "histories only use the templates with a coarse default bin size and attenuation images with the same voxel sizes and number of planes "
        "(another number of planes with frozen factors can hit the zoom_z consistency error: not exercised); downsample_images_to_scanner_size is "
        "not in the Lean state machine (oracle on the implementation only); "
        "random placement: the FLAG is a setting of the state machine (stamp of the scatter points), the positions drawn are not modelled; "
        "srand(time(NULL)) is made reproducible by replacing time(); two objects are only compared with the clock pinned",
        "public non-const members NOT exercised: ask_parameters (interactive), set_output_proj_data / set_output_proj_data_sptr with a non-empty "
        "file name (output on disk, write_log), the keywords other than `use cache` only through the parsing constructor (oracle, no model); "
        "`parse_use_cache` is only used on objects whose file-name members are empty (a parse() after a setter by file name reads the files again: "
        "exercised by the parsed-constructor oracle only); BlocksOnCylindrical templates are not written to files (their Interfile header does not "
        "read back: 6-decimal crystal/block spacing — header I/O, outside C16)",
        "BlocksOnCylindrical templates have >= 2 rings (downsample_scanner of a one-ring blocks scanner gives zero ring spacing) and only LORs "
        "between different blocks (tangential range n/2-1); single thread",
        "32-bit overflow not modelled"]
    if audit:
        vlib.proof_coverage(chk, audit, "cd lean && lake build StirVerif stirdriver && lake env lean ../build/out/Audit_C16.lean")
    return chk.finish()
