"""C03 — system-matrix rows do not depend on symmetries, caching or request history.
Lean: StirVerif/C03 (symmetry operations, decision trees, cache key, cache state machine; theorems in Props.lean).
Tie: hand-written model + correspondence run (harness/c03_symmetries.cxx drives the real
DataSymmetriesForBins_PET_CartesianGrid / ProjMatrixByBinUsingRayTracing / ProjMatrixByBinUsingInterpolation / ProjMatrixElemsForOneBin).
Oracle: every returned row against the row of a fresh matrix of the same class without symmetries and without cache."""
import os, re
import vlib
import gen_gate

PROP = "C03"


def main(tier, replay):
    if replay:
        for l in open(replay):
            if l.startswith("# seed="):
                os.environ["VERIF_SEED"] = l.split("seed=")[1].split()[0]
                tier = l.split("tier=")[1].split()[0]
    chk = vlib.Check(PROP, tier, level="proof")
    audit = vlib.lean_gate(chk, PROP)
    # tie (T): the 48 symmetry-operation member functions, the two decision trees and cache_key are regenerated from the source
    tie_t = gen_gate.gate(chk, kernels=gen_gate.SO_KERNELS)
    # exact comparison of every answer line (integers; floats of rows are carried as opaque hex tokens, the model
    # only moves them): no tolerance in the correspondence part
    stats = vlib.run_differential(chk, PROP, "c03_symmetries", tier, ctx_prefixes=("cfg", "psetup"))
    extra = {}
    of = os.path.join(vlib.OUT, "c03_%s.impl.oracle" % tier)
    if os.path.exists(of):
        hist = {}
        for l in open(of):
            if l.startswith("HISTO "):
                _, k, v = l.split()
                hist[k] = int(v)
            m = re.match(r"ORACLE-DONE checks=(\d+) fails=(\d+) screened=(\d+) known=(\d+) nonempty_rows=(\d+) elements=(\d+)", l)
            if m:
                extra["oracle_rows_screened_out"] = int(m.group(3))
                extra["oracle_known_class_hits"] = int(m.group(4))
                extra["oracle_rows_nonempty"] = int(m.group(5))
                extra["oracle_row_elements"] = int(m.group(6))
        extra["input_distribution"] = hist
        if stats.get("oracle_checks", 0) == 0:
            chk.violation("oracle-missing", "the harness did not finish its oracle (no ORACLE-DONE line)", "no ORACLE-DONE", found_input=False)
    chk.coverage["tie_T_translator"] = tie_t
    vlib.standard_coverage(chk, stats,
        "real DataSymmetriesForBins_PET_CartesianGrid (all 32 switch combinations x every bin of 7 fixed + 3 (thorough: 30) generated geometries + sampled bins of "
        "special ones: view offset, shifted origin, odd views, mashing, anisotropic voxels, z origin error branch; generated ones now include TOF "
        "(3/5/9 timing positions, TOF mashing 3) with span 1/3, view mashing and even image sizes, even spans 2 and 4, and outer segments cut off by "
        "max_delta < R-1; timing positions != 0 on non-TOF data probe the timing-position swap of the swap_s operations): find_basic_bin, "
        "find_symmetry_operation_from_basic_bin, transform_bin_coordinates / view_segment_indices / image_coordinates / "
        "proj_matrix_elems_for_one_bin, effective switches, planes per ring / axial position, z offsets; "
        "histories on ProjMatrixByBinUsingRayTracing AND ProjMatrixByBinUsingInterpolation (get with repeats, clear_cache, enable_cache, "
        "store_only_basic_bins_in_cache, set_* incl. set_use_actual_detector_boundaries / parser + set_up, set_up on other geometries incl. TOF, "
        "even-span and cut-off-segment data and images that differ in their index range only) with rows compared token by token (hex floats) with "
        "the Lean cache state machine (set_up with the already_setup short cut for ray tracing, without it for interpolation) fed with the "
        "directly computed rows of the basic bins; ProjMatrixElemsForOneBin::merge on integer-valued rows. Comparison is exact (no tolerance). "
        "Oracle (C++): every row returned in the histories and in sweeps over every bin x 32 switch combinations (TOF data, "
        "use_actual_detector_boundaries on the generated geometries and the interpolating matrix beyond the first two geometries: a sample of "
        "8 in the quick tier) x 3 cache modes x {ray tracing: rays (1,2[,3]) x FOV shape x use_actual_detector_boundaries off/on; interpolation}, "
        "and every bin after set_up for an image with another index range (3 cache modes, both matrix classes), "
        "equals the row of a new matrix of the same class with all symmetries off and no cache within the library's own tolerance "
        "(2e-3 of the row maximum) unless (ray tracing) a traced ray is parallel to a grid axis on a voxel boundary (geometric screen); exact: row carries "
        "the requested bin, values >= 0, voxels inside the image (in z: ray tracing: a voxel outside the planes of the image but inside the axial "
        "extent of the scanner is the known finding voxel-outside-image-in-z:...; interpolation: inside the axial support of the kernel "
        "likewise; beyond that it fails), no voxel twice, op(basic bin) = bin. Two probes run set_up for a second geometry on one object and "
        "compare with a new object (use_actual_detector_boundaries after span-3 data; interpolation after another z voxel size); where the "
        "implementation fails a probe (known finding) the histories state the parameters again before each set_up, otherwise they do not. "
        "Input classes where 'row differs' is a known finding (keys in known_findings.txt): use_actual_detector_boundaries with 90/180 degrees "
        "symmetries at odd tangential positions; use_actual_detector_boundaries in oblique segments where phi comes out pi off for bin or basic "
        "bin only; interpolation with x voxel size != y voxel size, 180 degrees symmetry, views beyond 135 degrees. Everything else is strict. "
        "Extension 3: (1) re-set-up of ONE object for CONTAINED data: geometries whose projection data are clones with reduced index "
        "ranges (axial positions removed at the upper / lower / both ends, in all segments or in one segment pair, an odd number too for "
        "span 1, outer segments removed, tangential positions removed, combinations; span 1 and span 3; 2 (thorough: 12) generated chains "
        "incl. TOF) of data that share the image grid: ProjDataInfo::operator>= holds between them, == does not. Section F sets one object "
        "up for one, requests a sample, sets it up for the other (contained, containing, or overlapping: neither contains the other) and "
        "requests EVERY bin, in the 3 cache modes, ray tracing and (2 pairs) interpolation, also chains of 3-4 set_ups; every row is compared "
        "exactly with the Lean cache state machine, for which they are different geometries (classes of the library's ==), and by the oracle "
        "with a new matrix set up for that geometry alone without symmetries and cache; the random histories also run over these groups. "
        "(2) x voxel size != y voxel size in BOTH directions with the x/y exchanging symmetries potentially active: 12 geometries "
        "(8/16/24 detectors: 4/8/12 unmashed views, no tilt, no TOF, with and without arc correction, odd/even images, zoom 1 and 2) with "
        "y - x = +-2, +-0.04, +-0.01, +-0.0025 (beyond the guard's 2e-3 mm), +-0.0015 mm (within) and ratios 1.1, 1/1.1, plus voxels of "
        "a tenth of the bin size with ratios 1.1, 1.002 either way (sampled): all bins x 32 switch combinations in section A (the x and y "
        "voxel sizes now go to the model as hex floats and the MODEL evaluates the constructor's guard fabs(dy-dx) > 2.E-3F with float "
        "rounding: effective switches, basic bins and operations compared exactly) and in the row sweeps of section C; oracle: "
        "do_symmetry_90degrees_min_phi in force implies |dy-dx| <= 2e-3 mm. Known finding (key unequal-xy-voxel-sizes-within-guard-tolerance:"
        "xy-exchanging-symmetry): rows derived by an x/y exchanging operation for 0 < |dy-dx| <= 2e-3 mm may differ from the directly "
        "computed ones by more than the tolerance; such rows are classified by the input (voxel sizes, switch in force, operation "
        "exchanges x and y), everything else stays strict. Found on the way (3): with square voxels but index ranges that differ in x and y "
        "(two fixed geometries: 3 x 5 and 3 x 2 voxels, all 32 switch combinations, both matrix classes) the constructor leaves the x/y "
        "exchanging symmetries on: rows of ProjMatrixByBinUsingInterpolation then leave the image / differ (known finding "
        "interpolation-matrix:unequal-xy-index-ranges:xy-exchanging-symmetry, classified by matrix class, index ranges, switch in force and "
        "operation; proposed repair C03-6); the y and x index ranges go to the model, a probe (op pimpl) tells it whether the "
        "constructor it runs against has the index-range guard of the repair; ray tracing stays strict there.", extra)
    chk.assumptions += ["whether the view offset is zero, the data are TOF and the image origin is unshifted in x/y (the other inputs of the constructor's "
                        "switch logic) are evaluated by the harness with the constructor's own expressions and told to the model; the x/y voxel-size "
                        "guard is evaluated by the model; whether the constructor also compares the x and y index ranges (proposed repair C03-6) is "
                        "read off the implementation by a probe and told to the model",
                        "calculate_proj_matrix_elems_for_one_bin of both matrix classes (ray tracer, interpolation kernel, TOF kernel) is an uninterpreted function in Lean: "
                        "that the directly computed row equals the symmetry-derived one is checked by the C++ oracle (and, for the LOR geometry, by the theorems over R)",
                        "a geometry of the model is what set_up compares (projection data info, voxel size, origin, index range, library ==); "
                        "that symmetries object and row computation depend on nothing else is part of the model (checked by the oracle and the two set_up probes only)",
                        "which switches ProjMatrixByBinUsingRayTracing::set_up hands to the symmetries constructor when use_actual_detector_boundaries stays on "
                        "(as they are / 90 and 180 degrees off, proposed repair C03-5) is read off the implementation by the harness and told to the model",
                        "cylindrical scanner geometry only (BlocksOnCylindrical / Generic branches not modelled or run)",
                        "32-bit overflow not modelled; cache_key itself is private: observed only through rows returned from the cache",
                        "axial offsets are multiples of 1/4 plane (model carries them as integers)"]
    if audit:
        vlib.proof_coverage(chk, audit, "cd lean && lake build StirVerif stirdriver && lake env lean ../build/out/Audit_C03.lean")
    return chk.finish()
