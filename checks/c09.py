"""C09 — priors: value, gradient and Hessian are mutually consistent and convex."""
import os
import struct
from fractions import Fraction
import vlib

PROP = "C09"
U = Fraction(1, 2 ** 24)  # unit round-off of float


def _num(tok):
    """exact value of a number printed by the Lean driver: `n/d` or `b<bits of a binary64>`"""
    if tok.startswith("b"):
        f = struct.unpack("<d", struct.pack("<Q", int(tok[1:])))[0]
        if f != f or f in (float("inf"), float("-inf")):
            return None
        return Fraction(f)
    n, d = tok.split("/")
    return Fraction(int(n), int(d))


def _impl(tok):
    f = float.fromhex(tok)
    if f != f or f in (float("inf"), float("-inf")):
        return None
    return Fraction(f)


class Compare:
    """Derived tolerance: every compared quantity is a sum of products evaluated by the implementation in float
    (some accumulators in double); the model returns the exact value (Rat) or a binary64 value together with the
    magnitude M = sum of |terms| (times the conditioning of log/cosh/sqrt where they occur).  Forward error bound
    of n float operations: |impl - model| <= 4 n 2^-24 M with n = (number of neighbourhood weights) + 16."""

    def __init__(self):
        self.nops = 27 + 16
        self.worst = Fraction(0)

    def __call__(self, op, impl, model):
        t = op.split(" ", 22)
        if t[0] == "cfg":
            try:
                wz0, wz1, wy0, wy1, wx0, wx1 = [int(x) for x in t[15:21]]
                self.nops = max(0, wz1 - wz0 + 1) * max(0, wy1 - wy0 + 1) * max(0, wx1 - wx0 + 1) + 16
            except (ValueError, IndexError):
                return False
            return impl == model
        if t[0] in ("onew", "osetw", "oparse"):
            # object ops: a new object computes 3x3x3 default weights; user / parsed weights may be larger
            nw = 27
            try:
                if t[0] == "osetw":
                    wz0, wz1, wy0, wy1, wx0, wx1 = [int(x) for x in t[1:7]]
                    nw = max(nw, max(0, wz1 - wz0 + 1) * max(0, wy1 - wy0 + 1) * max(0, wx1 - wx0 + 1))
                elif t[0] == "oparse":
                    tk = op.split()
                    nw = max(nw, sum(1 for x in tk[tk.index("W"):] if "0x" in x))
            except (ValueError, IndexError):
                return False
            self.nops = nw + 16
            return impl == model
        if t[0] in ("img", "obox", "okappa", "oanat", "oset", "osetup"):
            return impl == model
        a, b = impl.split(), model.split()
        if t[0] == "owts" and len(a) == 6 and len(b) == 6:
            return a == b  # no weights (yet)
        if t[0] in ("defw", "owts"):
            if a[:6] != b[:6]:
                return False
            a, b = a[6:], b[6:]
            n = 12
        else:
            n = self.nops
        if len(a) != len(b) or not a:
            return False
        for x, y in zip(a, b):
            try:
                v, m = y.split(":")
                xv, mv, mm = _impl(x), _num(v), _num(m)
            except (ValueError, IndexError):
                return False
            if xv is None or mv is None or mm is None:
                return False
            tol = 4 * n * U * abs(mm)
            d = abs(xv - mv)
            if d > tol:
                return False
            if tol > 0:
                self.worst = max(self.worst, d / tol)
        return True


def main(tier, replay):
    if replay:
        for l in open(replay):
            if l.startswith("# seed="):
                os.environ["VERIF_SEED"] = l.split("seed=")[1].split()[0]
                tier = l.split("tier=")[1].split()[0]
    chk = vlib.Check(PROP, tier, level="proof")
    audit = vlib.lean_gate(chk, PROP)
    cmp = Compare()
    stats = vlib.run_differential(chk, PROP, "c09_priors", tier, compare=cmp, ctx_prefixes=("cfg", "onew", "oparse"))
    # the oracle file must be complete (the harness writes ORACLE-DONE last)
    of = os.path.join(vlib.OUT, "%s_%s.impl.oracle" % (PROP.lower(), tier))
    if not (os.path.exists(of) and any(l.startswith("ORACLE-DONE") for l in open(of))):
        chk.violation("oracle-incomplete", "the property oracle did not run to completion", "oracle file incomplete", found_input=False)
    vlib.standard_coverage(chk, stats,
        "real QuadraticPrior/RelativeDifferencePrior/LogcoshPrior/PLSPrior<float> through the GeneralisedPrior API on generated images "
        "(1x1x1..6x7x8, thorough also 8x9x10; singleton dimensions, shifted index ranges, anisotropic voxel sizes), default weights (read back with "
        "get_weights() and also recomputed by the model), user weights 3^3/5^3/1x3x3/odd boxes (symmetric; symmetric with non-zero centre weight; asymmetric = known-finding class), kappa on/off, penalisation factor incl. 0, "
        "gamma/epsilon/scalar/alpha/eta; ops value, grad, htimes (accumulating into a non-zero output), hrow (every voxel for <= 40 voxels, "
        "else corners + sample), approx, surr, defw.  One line per operation; each element compared with the Lean model "
        "(Quadratic: exact Rat; RDP/log-cosh/PLS/default weights: binary64) under the derived bound |impl-model| <= 4 n 2^-24 M, "
        "n = #weights+16, M = sum of |terms| returned by the model (with the conditioning factor of log cosh / sech^2 / the PLS sqrt). "
        "Oracle (implementation only): <u,Hv>=<v,Hu>; Hessian row = H unit; linear scaling in the penalisation factor (x2, x3, 0); uniform image => zero "
        "gradient; <u,Hu> >= -tol and midpoint convexity of the value if is_convex(); Quadratic: exact expansion value(l+e)=value(l)+<g,e>+<e,He>/2 "
        "(random e and per voxel) and grad(l+e)=grad(l)+He; RDP/log-cosh/PLS: central differences of value vs gradient (PLS: every voxel incl. borders, uniform and varying kappa) and of gradient vs Hessian row with "
        "tolerances derived from bounds on the 3rd/4th derivatives of the potentials; accumulate adds; locality (perturbing a voxel outside the reach "
        "leaves the gradient bitwise unchanged) and point-reflection equivariance (borders treated alike at both ends). "
        "OBJECT LIFE CYCLE (ops onew/oparse/obox/okappa/oanat/osetw/oset/osetup/ocall/owts; the Lean driver keeps the members of one prior object, "
        "Model.lean NbPrior, and answers every call and every get_weights() from them): (1) first call: for each of value, grad, hrow, htimes, approx, surr a "
        "fresh object whose FIRST call is that function (each has its own lazy compute_weights block; incl. penalisation factor 0: nothing computed), "
        "then a second function; oracle: weights and results bitwise equal to those of the value-first object. (2) second image: one object used with one "
        "image, set up again for an image of another size and/or voxel size (default and user weights, new kappa / anatomical image), all functions; model: "
        "set_up keeps the weights; oracle: equal to a fresh object (default weights + other voxel size = known-finding class "
        "default-weights-stale-after-set_up-with-other-voxel-size), then all clauses of the property on the re-used object. (3) parse(): parameter text with "
        "`weights :=` 3x3x3, 5x5x5, 1x3x3, even sizes 2x3x3 3x2x3 3x3x4 2x2x2 1x1x2 (model parsedWeights: re-indexing -n/2..; even = asymmetric class), no weights "
        "key with `only 2D` (1x3x3 defaults, also for RDP/log-cosh), ragged array (parse error), `kappa filename` / PLS `anatomical_filename` written by the "
        "harness as Interfile; oracle: equal to the object configured by constructor + setters, then all clauses on the parsed object. (4) setters on a used "
        "object: set_penalisation_factor (incl. to and from 0), set_gamma/epsilon, set_scalar, set_weights (other / empty = defaults again), set_kappa_sptr, "
        "new image values; PLS: set_alpha, set_eta / set_only_2D with and without a new set_up (model: the anatomical norm keeps the values of the last set_up); "
        "oracle: equal to a fresh object with the same members, value linear in the factor on ONE object, then all clauses on the object.",
        extra=dict(worst_relative_to_bound=float(cmp.worst)))
    chk.assumptions += ["regular (box-shaped) images and weights", "float rounding is bounded, not modelled",
                        "32-bit index overflow not modelled", "images positive (RDP: x+y+epsilon > 0)",
                        "weights, kappa and penalisation factor non-negative (positive semi-definiteness)",
                        "asymmetric user weights w(-d) != w(d): known finding neighbourhood-priors:asymmetric-user-weights (theorems needing symmetric weights are named _partial)",
                        "default weights kept from an image of another voxel size: known finding neighbourhood-priors:default-weights-stale-after-set_up-with-other-voxel-size "
                        "(value, gradient and Hessian stay mutually consistent: C09_object_history_keeps_symmetric_weights; Lean witness C09_default_weights_stale_after_set_up_fails)",
                        "object ops: the default weights the model computes (binary64) replace the float weights of the implementation in the following arithmetic "
                        "(covered by the tolerance); warnings of post_processing (even sizes) and _already_set_up errors are not observed",
                        "PLS: Lean theorem for the partial derivative with respect to every single voxel (alpha != 0, anatomical data as prepared by set_up); directional derivatives along arbitrary images and convexity of PLS: oracle only"]
    if audit:
        vlib.proof_coverage(chk, audit, "cd lean && lake build StirVerif stirdriver && lake env lean ../build/out/Audit_C09.lean")
    return chk.finish()
