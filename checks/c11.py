"""C11 — arrays behave as index-range maps under any history and stay in bounds.
Lean: StirVerif/C11 (model, per-operation refinement theorems, history safety theorem).
Tie: hand-written model + correspondence: the real Array<1,int>/VectorWithOffset<int> (ASan+UBSan)
and the Lean driver execute the same histories; observable state compared after every step.
Oracle: N-dim arrays / views against reference maps inside the harness (ASan)."""
import glob, itertools, os, random
import vlib

PROP = "C11"

ALPHABET = ["resize 0 0 4", "resize 0 2 3", "resize 0 -2 6", "resize 0 5 9", "resize 0 3 2",
            "grow 0 -1 5", "reserve 0 -3 12", "setoff 0 -2", "setoff 0 3", "assign 0 1", "assign 1 0",
            "fill 0 7", "set 0 2 5", "get 0 3", "add 0 1", "badd 0 1", "recycle 0", "eq 0 1",
            "resize 1 0 9", "resize 1 0 4", "fill 1 3"]


def gen_random(rng, histories, length):
    lines = []
    for _ in range(histories):
        lines.append("reset")
        for _ in range(length):
            k = rng.randrange(100)
            r, s = rng.randrange(3), rng.randrange(3)
            a = rng.randint(-6, 10)
            b = a + rng.randint(-2, 8)
            if k < 22:
                lines.append("resize %d %d %d" % (r, a, b))
            elif k < 30:
                lines.append("grow %d %d %d" % (r, a, b))
            elif k < 38:
                lines.append("reserve %d %d %d" % (r, a, b))
            elif k < 46:
                lines.append("setoff %d %d" % (r, a))
            elif k < 58:
                lines.append("assign %d %d" % (r, s))
            elif k < 64:
                lines.append("fill %d %d" % (r, rng.randint(-3, 3)))
            elif k < 72:
                lines.append("set %d %d %d" % (r, a, rng.randint(-9, 9)))
            elif k < 80:
                lines.append("get %d %d" % (r, a))
            elif k < 87:
                if r != s:
                    lines.append("add %d %d" % (r, s))
            elif k < 93:
                if r != s:
                    lines.append("badd %d %d" % (r, s))
            elif k < 96:
                lines.append("recycle %d" % r)
            else:
                lines.append("eq %d %d" % (r, s))
    return lines


def split_histories(lines):
    hs, cur = [], None
    for l in lines:
        if l == "reset":
            if cur is not None:
                hs.append(cur)
            cur = []
        elif cur is not None:
            cur.append(l)
        else:
            cur = [l]
    if cur is not None:
        hs.append(cur)
    return hs


def run_impl(exe, lines, tag):
    """Run the implementation on `lines`; returns (list of per-line results or 'ABORT', sanitizer text)."""
    ops = os.path.join(vlib.OUT, "c11_%s.ops" % tag)
    out = os.path.join(vlib.OUT, "c11_%s.impl" % tag)
    open(ops, "w").write("\n".join(lines) + "\n")
    if os.path.exists(out):
        os.remove(out)
    env = dict(os.environ, ASAN_OPTIONS="detect_leaks=0:abort_on_error=0:exitcode=66", UBSAN_OPTIONS="exitcode=66")
    r = vlib.sh([exe, "exec", ops, out], env=env)
    res, pending = [], False
    for l in open(out).read().splitlines() if os.path.exists(out) else []:
        if l.startswith("@"):
            pending = True
        else:
            res.append(l)
            pending = False
    aborted = r.returncode != 0
    if aborted:
        res.append("ABORT")
    return res, (r.stdout[-3000:] if aborted else ""), ops


def run_model(lines, tag):
    ops = os.path.join(vlib.OUT, "c11_%s.mops" % tag)
    out = os.path.join(vlib.OUT, "c11_%s.model" % tag)
    open(ops, "w").write("\n".join(lines) + "\n")
    rc, err = vlib.run_driver(PROP, ops, out)
    return open(out).read().splitlines()


def first_divergence(exe, history, tag):
    """history: ops without the leading reset. Returns None or (index, impl, model, sanitizer)."""
    lines = ["reset"] + history
    impl, san, _ = run_impl(exe, lines, tag)
    model = run_model(lines, tag)
    for i in range(len(lines)):
        a = impl[i] if i < len(impl) else "MISSING"
        b = model[i] if i < len(model) else "MISSING"
        if a != b:
            return (i, a, b, san)
    return None


def shrink(exe, history, tag):
    """drop operations while implementation and model still diverge"""
    cur = list(history)
    changed = True
    while changed and len(cur) > 1:
        changed = False
        for i in range(len(cur)):
            cand = cur[:i] + cur[i + 1:]
            if first_divergence(exe, cand, tag) is not None:
                cur = cand
                changed = True
                break
    return cur


def classify(div):
    i, a, b, san = div
    if a == "ABORT" and b == "UNSAFE":
        return "memory-unsafe", "implementation aborts under AddressSanitizer/UBSan and the model flags the same access as out of bounds"
    if a == "ABORT":
        return "memory-unsafe", "implementation aborts under AddressSanitizer/UBSan (model has no such access)"
    if b == "UNSAFE":
        return "model-unsafe", "model flags an out-of-bounds access that the sanitizers did not see"
    return "map-semantics", "observable state differs from the index-range-map model"


def main(tier, replay):
    chk = vlib.Check(PROP, tier, level="proof")
    audit = vlib.lean_gate(chk, PROP)
    exe = vlib.compile_harness("c11_arrays", sanitize=True)
    rng = random.Random(vlib.seed() * 1000003 + 11)

    if replay:
        hist = [l.strip() for l in open(replay) if l.strip() and not l.startswith("#") and l.strip() != "reset"]
        d = first_divergence(exe, hist, "replay")
        if d:
            kind, desc = classify(d)
            print("replay: diverges at step %d: impl=%s model=%s" % d[:3])
            chk.violation("replay:" + kind, desc, "reset\n" + "\n".join(hist))
        else:
            print("replay: implementation and model agree on all %d steps" % len(hist))
        chk.coverage.update(dict(evaluations=len(hist), distinct_nontrivial=len(set(hist)), rule="replay of one history", samples=[hist[:10]]))
        if audit:
            vlib.proof_coverage(chk, audit, "cd lean && lake build && lake env lean build/out/Audit_C11.lean")
        return chk.finish()

    # ---- histories: corpus first, then bounded-exhaustive, then seeded random
    lines = []
    corpus_files = sorted(glob.glob(os.path.join(vlib.VERIF, "corpus", PROP, "*.ops")))
    for f in corpus_files:
        lines += [l.strip() for l in open(f) if l.strip() and not l.startswith("#")]
    n_corpus = len(split_histories(lines))
    L = 3 if tier == "quick" else 4
    for seq in itertools.product(ALPHABET, repeat=L):
        lines.append("reset")
        lines += seq
    n_exh = len(ALPHABET) ** L
    nrand, lrand = (400, 40) if tier == "quick" else (4000, 120)
    lines += gen_random(rng, nrand, lrand)

    histories = split_histories(lines)
    # run; restart after sanitizer aborts
    flat = []
    for h in histories:
        flat.append("reset")
        flat += h
    model = run_model(flat, "main")
    impl_all, pos, restarts, aborts = [], 0, 0, []
    while pos < len(flat) and restarts < 25:
        impl, san, _ = run_impl(exe, flat[pos:], "main%d" % restarts)
        if impl and impl[-1] == "ABORT":
            k = len(impl) - 1          # index (relative) of the aborted op
            impl_all += impl
            aborts.append((pos + k, san))
            # skip to the next reset
            nxt = pos + k + 1
            while nxt < len(flat) and flat[nxt] != "reset":
                impl_all.append("SKIPPED")
                nxt += 1
            pos = nxt
            restarts += 1
        else:
            impl_all += impl
            pos = len(flat)
    # compare per history
    idx, divergent, op_hist = 0, [], {}
    nontrivial = set()
    for h in histories:
        n = len(h) + 1
        seg_i, seg_m = impl_all[idx:idx + n], model[idx:idx + n]
        for l in h:
            op_hist[l.split()[0]] = op_hist.get(l.split()[0], 0) + 1
        if len(h) >= 2:
            nontrivial.add(tuple(h))
        if seg_i != seg_m:
            divergent.append(h)
        idx += n
    reported = set()
    for h in divergent[:6]:
        small = shrink(exe, h, "shrink") if len(h) <= 60 else h
        d = first_divergence(exe, small, "shrink")
        if d is None:
            small, d = h, first_divergence(exe, h, "shrink")
        if d is None:
            continue
        kind, desc = classify(d)
        key = kind + ":" + ";".join(small)
        if key in reported:
            continue
        reported.add(key)
        text = "reset\n" + "\n".join(small) + "\n# first divergence at step %d\n# impl : %s\n# model: %s\n" % (d[0], d[1], d[2])
        if d[3]:
            text += "# sanitizer report (tail):\n# " + d[3].replace("\n", "\n# ")
        chk.violation(key, desc + " — history: " + "; ".join(small), text)
    n_div = len(divergent)

    # ---- N-dimensional oracle (reference maps, row-major iteration, views), under ASan
    ndout = os.path.join(vlib.OUT, "c11_nd.out")
    nh, nl = (300, 25) if tier == "quick" else (3000, 60)
    env = dict(os.environ, ASAN_OPTIONS="detect_leaks=0:exitcode=66", UBSAN_OPTIONS="exitcode=66")
    r = vlib.sh([exe, "nd", str(vlib.seed()), str(nh), str(nl), ndout], env=env)
    nd_lines = open(ndout).read().splitlines() if os.path.exists(ndout) else []
    nd_steps = 0
    for l in nd_lines:
        if l.startswith("ND-DONE"):
            nd_steps = int(l.split()[1].split("=")[1])
    fails = [l for l in nd_lines if l.startswith("ORACLE-FAIL")]
    for l in fails[:3]:
        chk.violation("nd:" + l[:120], "N-dimensional array disagrees with its reference map: " + l[:200], l)
    if r.returncode != 0 and not fails:
        chk.violation("nd:abort", "N-dimensional array oracle aborted (sanitizer)", r.stdout[-3000:])

    chk.coverage.update(dict(
        evaluations=len(flat) + nd_steps,
        distinct_nontrivial=len(nontrivial),
        rule="histories = corpus (%d) + ALL sequences of length %d over a %d-op alphabet (%d) + %d seeded random histories of length %d on 3 registers; "
             "a history is non-trivial if it has >= 2 operations; distinct = distinct operation sequences. After every operation the full observable state "
             "(index range + contents of all registers, result/err) of the real classes is compared with the Lean model; ASan/UBSan abort = out-of-bounds. "
             "Plus N-dim oracle: %d random histories on Array<2,int>/Array<3,int>/views vs reference maps (%d steps)." % (
                 n_corpus, L, len(ALPHABET), n_exh, nrand, lrand, nh, nd_steps),
        samples=[histories[0], histories[n_corpus + 12345 % n_exh], histories[-1][:12]],
        exhaustive=False,
        operation_histogram=op_hist,
        histories=len(histories), divergent_histories=n_div, sanitizer_aborts=len(aborts),
        traces_validated_against_impl=len(histories) - n_div))
    chk.assumptions += ["element type int; the allocator, shared_ptr lifetime and iterator invalidation are runtime behaviour seen only by ASan, not by the model",
                        "N-dimensional arrays and memory views are checked by the harness oracle (reference map), not by a Lean theorem (Props.lean has only the row-major flattening lemma)",
                        "32-bit int overflow not modelled (values kept small)"]
    if audit:
        vlib.proof_coverage(chk, audit, "cd lean && lake build StirVerif stirdriver && lake env lean ../build/out/Audit_C11.lean")
    return chk.finish()
