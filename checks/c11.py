"""C11 — arrays behave as index-range maps under any history and stay in bounds.
Lean: StirVerif/C11 (model, per-operation refinement theorems, history safety theorem).
Tie: hand-written model + correspondence: the real Array<1,int>/VectorWithOffset<int> (ASan+UBSan)
and the Lean driver execute the same histories; observable state compared after every step.
Oracle: N-dim arrays (2-4 dimensions) / views / constructors / moves against nested reference maps inside the harness (ASan)."""
import glob, itertools, os, random
import vlib

PROP = "C11"

ALPHABET = ["resize 0 0 4", "resize 0 2 3", "resize 0 -2 6", "resize 0 5 9", "resize 0 3 2",
            "grow 0 -1 5", "reserve 0 -3 12", "setoff 0 -2", "setoff 0 3", "assign 0 1", "assign 1 0",
            "fill 0 7", "set 0 2 5", "get 0 3", "add 0 1", "badd 0 1", "recycle 0", "eq 0 1",
            "resize 1 0 9", "resize 1 0 4", "fill 1 3",
            # arithmetic other than += (every operator family once, on ranges that may or may not agree)
            "sub 0 1", "mul 0 1", "div 0 1", "bsub 0 1", "bmul 1 0", "bdiv 0 1",
            "sadd 0 2", "smul 0 -3", "sdiv 0 2", "ssub 1 1",
            "minus 0 0 1", "times 1 0 1", "over 0 1 0", "plus 0 1 1", "overs 0 1 2", "minuss 1 0 4",
            "xapyb 0 0 2 1 -1", "xapybv 0 1 1 0 0", "sapyb 0 3 1 2", "sapybv 0 1 1 0"]

# sub-alphabet for the longer bounded-exhaustive run (thorough tier): the storage operations and one
# operation of every arithmetic family
CORE = ["resize 0 0 4", "resize 0 2 3", "resize 0 -2 6", "resize 0 3 2", "reserve 0 -3 12", "setoff 0 3",
        "assign 0 1", "assign 1 0", "fill 0 7", "set 0 2 5", "recycle 0", "resize 1 0 9", "resize 1 0 4", "fill 1 3",
        "add 0 1", "sub 0 1", "mul 1 0", "div 0 1", "bsub 0 1", "sdiv 0 2", "minus 0 0 1", "over 1 0 1",
        "xapyb 0 0 2 1 -1", "sapybv 0 1 1 0"]

ARITH2 = ["sub", "mul", "div"]
BARITH2 = ["bsub", "bmul", "bdiv"]
SCALAR = ["sadd", "ssub", "smul", "sdiv"]
BIN = ["plus", "minus", "times", "over"]
BINS = ["pluss", "minuss", "timess", "overs"]


def gen_random(rng, histories, length):
    lines = []
    for _ in range(histories):
        lines.append("reset")
        # a third of the histories work on few distinct ranges, so that operands with EQUAL ranges
        # (base-class arithmetic, xapyb) are frequent; the others use arbitrary ranges
        few = rng.randrange(3) == 0
        pool = [(lo, lo + rng.randint(0, 5)) for lo in (rng.randint(-4, 4), rng.randint(-4, 4))]
        for _ in range(length):
            k = rng.randrange(140)
            r, s, t = rng.randrange(3), rng.randrange(3), rng.randrange(3)
            if few:
                a, b = rng.choice(pool)
            else:
                a = rng.randint(-6, 10)
                b = a + rng.randint(-2, 8)
            c = rng.choice([-3, -2, -1, 0, 1, 2, 3, 7, 200, 30000, 30001])
            if k < 22:
                lines.append("resize %d %d %d" % (r, a, b))
            elif k < 30:
                lines.append("grow %d %d %d" % (r, a, b))
            elif k < 38:
                lines.append("reserve %d %d %d" % (r, a, b))
            elif k < 46:
                lines.append("setoff %d %d" % (r, a))
            elif k < 58:
                lines.append("assign %d %d" % (r, s))
            elif k < 64:
                lines.append("fill %d %d" % (r, rng.randint(-3, 3)))
            elif k < 72:
                lines.append("set %d %d %d" % (r, a, rng.randint(-9, 9)))
            elif k < 80:
                lines.append("get %d %d" % (r, a))
            elif k < 87:
                if r != s:
                    lines.append("add %d %d" % (r, s))
            elif k < 93:
                if r != s:
                    lines.append("badd %d %d" % (r, s))
            elif k < 96:
                lines.append("recycle %d" % r)
            elif k < 100:
                lines.append("eq %d %d" % (r, s))
            elif k < 108:
                if r != s:
                    lines.append("%s %d %d" % (rng.choice(ARITH2), r, s))
            elif k < 113:
                if r != s:
                    lines.append("%s %d %d" % (rng.choice(BARITH2), r, s))
            elif k < 119:
                lines.append("%s %d %d" % (rng.choice(SCALAR), r, c))
            elif k < 125:
                lines.append("%s %d %d %d" % (rng.choice(BIN), r, s, t))
            elif k < 129:
                lines.append("%s %d %d %d" % (rng.choice(BINS), r, s, c))
            elif k < 133:
                lines.append("xapyb %d %d %d %d %d" % (r, s, c, t, rng.randint(-3, 3)))
            elif k < 135:
                lines.append("xapybv %d %d %d %d %d" % (r, s, rng.randrange(3), t, rng.randrange(3)))
            elif k < 138:
                lines.append("sapyb %d %d %d %d" % (r, c, s, rng.randint(-3, 3)))
            else:
                lines.append("sapybv %d %d %d %d" % (r, s, t, rng.randrange(3)))
    return lines


def split_histories(lines):
    hs, cur = [], None
    for l in lines:
        if l == "reset":
            if cur is not None:
                hs.append(cur)
            cur = []
        elif cur is not None:
            cur.append(l)
        else:
            cur = [l]
    if cur is not None:
        hs.append(cur)
    return hs


def run_impl(exe, lines, tag):
    """Run the implementation on `lines`; returns (list of per-line results or 'ABORT', sanitizer text)."""
    ops = os.path.join(vlib.OUT, "c11_%s.ops" % tag)
    out = os.path.join(vlib.OUT, "c11_%s.impl" % tag)
    open(ops, "w").write("\n".join(lines) + "\n")
    if os.path.exists(out):
        os.remove(out)
    env = dict(os.environ, ASAN_OPTIONS="detect_leaks=0:abort_on_error=0:exitcode=66", UBSAN_OPTIONS="exitcode=66")
    r = vlib.sh([exe, "exec", ops, out], env=env)
    res, pending = [], False
    for l in open(out).read().splitlines() if os.path.exists(out) else []:
        if l.startswith("@"):
            pending = True
        else:
            res.append(l)
            pending = False
    aborted = r.returncode != 0
    if aborted:
        res.append("ABORT")
    return res, (r.stdout[-3000:] if aborted else ""), ops


def run_model(lines, tag):
    ops = os.path.join(vlib.OUT, "c11_%s.mops" % tag)
    out = os.path.join(vlib.OUT, "c11_%s.model" % tag)
    open(ops, "w").write("\n".join(lines) + "\n")
    rc, err = vlib.run_driver(PROP, ops, out)
    return open(out).read().splitlines()


def first_divergence(exe, history, tag):
    """history: ops without the leading reset. Returns None or (index, impl, model, sanitizer)."""
    lines = ["reset"] + history
    impl, san, _ = run_impl(exe, lines, tag)
    model = run_model(lines, tag)
    for i in range(len(lines)):
        a = impl[i] if i < len(impl) else "MISSING"
        b = model[i] if i < len(model) else "MISSING"
        if a != b:
            return (i, a, b, san)
    return None


def shrink(exe, history, tag):
    """drop operations while implementation and model still diverge"""
    cur = list(history)
    changed = True
    while changed and len(cur) > 1:
        changed = False
        for i in range(len(cur)):
            cand = cur[:i] + cur[i + 1:]
            if first_divergence(exe, cand, tag) is not None:
                cur = cand
                changed = True
                break
    return cur


def classify(div):
    i, a, b, san = div
    if a == "ABORT" and b == "UNSAFE":
        return "memory-unsafe", "implementation aborts under AddressSanitizer/UBSan and the model flags the same access as out of bounds"
    if a == "ABORT":
        return "memory-unsafe", "implementation aborts under AddressSanitizer/UBSan (model has no such access)"
    if b == "UNSAFE":
        return "model-unsafe", "model flags an out-of-bounds access that the sanitizers did not see"
    return "map-semantics", "observable state differs from the index-range-map model"


def main(tier, replay):
    chk = vlib.Check(PROP, tier, level="proof")
    audit = vlib.lean_gate(chk, PROP)
    exe = vlib.compile_harness("c11_arrays", sanitize=True)
    rng = random.Random(vlib.seed() * 1000003 + 11)

    if replay:
        hist = [l.strip() for l in open(replay) if l.strip() and not l.startswith("#") and l.strip() != "reset"]
        d = first_divergence(exe, hist, "replay")
        if d:
            kind, desc = classify(d)
            print("replay: diverges at step %d: impl=%s model=%s" % d[:3])
            chk.violation("replay:" + kind, desc, "reset\n" + "\n".join(hist))
        else:
            print("replay: implementation and model agree on all %d steps" % len(hist))
        chk.coverage.update(dict(evaluations=len(hist), distinct_nontrivial=len(set(hist)), rule="replay of one history", samples=[hist[:10]]))
        if audit:
            vlib.proof_coverage(chk, audit, "cd lean && lake build && lake env lean build/out/Audit_C11.lean")
        return chk.finish()

    # ---- histories: corpus first, then bounded-exhaustive, then seeded random
    lines = []
    corpus_files = sorted(glob.glob(os.path.join(vlib.VERIF, "corpus", PROP, "*.ops")))
    for f in corpus_files:
        lines += [l.strip() for l in open(f) if l.strip() and not l.startswith("#")]
    n_corpus = len(split_histories(lines))
    L = 3
    for seq in itertools.product(ALPHABET, repeat=L):
        lines.append("reset")
        lines += seq
    n_exh = len(ALPHABET) ** L
    exh2_text = ""
    if tier != "quick":
        # longer bounded-exhaustive run over the core sub-alphabet
        for seq in itertools.product(CORE, repeat=4):
            lines.append("reset")
            lines += seq
        exh2_text = " + ALL sequences of length 4 over a %d-op core sub-alphabet (%d)" % (len(CORE), len(CORE) ** 4)
    nrand, lrand = (1500, 40) if tier == "quick" else (10000, 120)
    lines += gen_random(rng, nrand, lrand)

    histories = split_histories(lines)
    # run; restart after sanitizer aborts
    flat = []
    for h in histories:
        flat.append("reset")
        flat += h
    model = run_model(flat, "main")
    impl_all, pos, restarts, aborts = [], 0, 0, []
    while pos < len(flat) and restarts < 25:
        impl, san, _ = run_impl(exe, flat[pos:], "main%d" % restarts)
        if impl and impl[-1] == "ABORT":
            k = len(impl) - 1          # index (relative) of the aborted op
            impl_all += impl
            aborts.append((pos + k, san))
            # skip to the next reset
            nxt = pos + k + 1
            while nxt < len(flat) and flat[nxt] != "reset":
                impl_all.append("SKIPPED")
                nxt += 1
            pos = nxt
            restarts += 1
        else:
            impl_all += impl
            pos = len(flat)
    # compare per history
    idx, divergent, op_hist = 0, [], {}
    nontrivial = set()
    for h in histories:
        n = len(h) + 1
        seg_i, seg_m = impl_all[idx:idx + n], model[idx:idx + n]
        for l in h:
            op_hist[l.split()[0]] = op_hist.get(l.split()[0], 0) + 1
        if len(h) >= 2:
            nontrivial.add(tuple(h))
        if seg_i != seg_m:
            divergent.append(h)
        idx += n
    reported = set()
    for h in divergent[:6]:
        small = shrink(exe, h, "shrink") if len(h) <= 60 else h
        d = first_divergence(exe, small, "shrink")
        if d is None:
            small, d = h, first_divergence(exe, h, "shrink")
        if d is None:
            continue
        kind, desc = classify(d)
        key = kind + ":" + ";".join(small)
        if key in reported:
            continue
        reported.add(key)
        text = "reset\n" + "\n".join(small) + "\n# first divergence at step %d\n# impl : %s\n# model: %s\n" % (d[0], d[1], d[2])
        if d[3]:
            text += "# sanitizer report (tail):\n# " + d[3].replace("\n", "\n# ")
        chk.violation(key, desc + " — history: " + "; ".join(small), text)
    n_div = len(divergent)

    # ---- N-dimensional oracle (reference index-range maps, row-major iteration, views, constructors), under ASan
    ndout = os.path.join(vlib.OUT, "c11_nd.out")
    nh, nl = (1500, 30) if tier == "quick" else (20000, 50)
    env = dict(os.environ, ASAN_OPTIONS="detect_leaks=0:exitcode=66", UBSAN_OPTIONS="exitcode=66")
    if os.path.exists(ndout):
        os.remove(ndout)
    r = vlib.sh([exe, "nd", str(vlib.seed()), str(nh), str(nl), ndout], env=env)
    nd_lines = open(ndout).read().splitlines() if os.path.exists(ndout) else []
    nd_steps, nd_checks, nd_ops, nd_done = 0, 0, {}, False
    for l in nd_lines:
        if l.startswith("ND-DONE"):
            nd_steps = int(l.split()[1].split("=")[1])
            nd_done = True
        elif l.startswith("ORACLE-DONE"):
            nd_checks = int(l.split()[1].split("=")[1])
        elif l.startswith("ND-OPS"):
            nd_ops = {kv.rsplit("=", 1)[0]: int(kv.rsplit("=", 1)[1]) for kv in l.split()[1:]}
    fails = [l for l in nd_lines if l.startswith("ORACLE-FAIL")]
    for l in fails[:3]:
        chk.violation("nd:" + l[:120], "N-dimensional array disagrees with its reference map: " + l[:300], l)
    seen = set()
    for l in nd_lines:
        if l.startswith("KNOWN-CANDIDATE"):
            parts = l.split(" ", 2)
            if parts[1] not in seen:
                seen.add(parts[1])
                chk.violation(parts[1], (parts[2] if len(parts) > 2 else parts[1])[:400], "# seed=%d tier=%s\n%s\n" % (vlib.seed(), tier, l))
    if (r.returncode != 0 or not nd_done) and not fails:
        summary = [l.strip() for l in r.stdout.splitlines()
                   if "ERROR: AddressSanitizer" in l or "runtime error:" in l or l.startswith(("ABORTED-IN", "SUMMARY:"))]
        chk.violation("nd:abort", "N-dimensional array oracle aborted (sanitizer report or crash): " + " | ".join(summary)[:600],
                      "\n".join(summary) + "\n" + r.stdout[-6000:])

    # ---- N-dimensional correspondence: the real array, serialised level by level, and the real at()/size_all() against the
    #      Lean model of nested index-range maps (RArr.at?, RArr.sizeAll; theorem C11_nd_checked_access_is_map)
    ndq = [l[4:].split(" => ") for l in nd_lines if l.startswith("NDQ ") and " => " in l]
    ndq_err = 0
    if ndq:
        ndq_model = run_model([q[0] for q in ndq], "ndq")
        ndq_bad = [(q, m) for (q, m) in zip(ndq, ndq_model + ["MISSING"] * (len(ndq) - len(ndq_model))) if q[1] != m]
        ndq_err = sum(1 for q in ndq if q[1].startswith("err"))
        for q, m in ndq_bad[:3]:
            chk.violation("ndq:" + q[0][:100], "checked access / size_all of an N-dimensional array: implementation and Lean model disagree "
                          "(implementation %s, model %s) on %s" % (q[1], m, q[0][:300]), "%s\n# impl : %s\n# model: %s\n" % (q[0], q[1], m))
    elif nd_done and not fails:
        chk.violation("ndq:none", "the N-dimensional run produced no checked-access questions for the Lean model (tie not exercised)", "\n".join(nd_lines[-20:]))
    op_hist["nd:model-questions"] = len(ndq)
    op_hist["nd:model-questions-outside-the-range"] = ndq_err
    for l in nd_ops:
        op_hist["nd:" + l] = nd_ops[l]
    chk.coverage.update(dict(
        evaluations=len(flat) + nd_checks,
        distinct_nontrivial=len(nontrivial),
        rule="(1) 1-D correspondence: histories = corpus (%d) + ALL sequences of length %d over a %d-op alphabet (%d)%s + %d seeded random histories of "
             "length %d on 3 registers of Array<1,int>; the alphabet has resize/grow/reserve/set_offset/assign/fill/at/recycle/==, the growing "
             "+= -= *= /= of NumericVectorWithOffset, the range-checked base-class += -= *= /=, scalar += -= *= /=, the binary operators x op y and "
             "x op c with assignment, xapyb and sapyb with scalar and vector factors; a history is non-trivial if it has >= 2 operations; distinct = "
             "distinct operation sequences. After every operation the full observable state (index range + contents of all registers, result/err/skip) "
             "of the real classes is compared with the Lean model; ASan/UBSan abort = out-of-bounds. An arithmetic operation is executed only if all "
             "operand elements and scalars are <= 30000 in magnitude and no divisor is zero (else both sides answer skip). "
             "(2) N-dim oracle under ASan: %d/%d/%d random histories of length %d on Array<2,int>/Array<3,int>/Array<4,int> (default-constructed, "
             "block-owning Array(range), copy/move-constructed and -assigned, swapped, resized, shrunk and regrown, single rows resized, filled, "
             "numeric op= and binary operators on different ranges, scalar operators, xapyb/sapyb, get_index_range/is_regular/get_regular_range, "
             "get_min_indices/next/get) compared after every step with a nested reference index-range map (index range of every level, every element, "
             "size_all, full iteration order, operator==); %d/%d/%d histories on 2-/3-/4-D arrays viewing a shared block (writes both ways, shrink inside, "
             "grow, fill, copy: exact aliasing while only shrunk, no aliasing of a foreign cell ever, block untouched after a resize beyond it in the "
             "innermost dimension); %d cases of the six 1-D viewing/copying constructors (alias or copy, shrink inside, set_offset, resize beyond the data with guard cells behind it); "
             "move construction and swap of Array<1>/VectorWithOffset/NumericVectorWithOffset; irregular 2-D arrays (is_contiguous, copy_to, fill_from, "
             "get_full_data_ptr); %d oracle comparisons in %d steps." % (
                 n_corpus, L, len(ALPHABET), n_exh, exh2_text, nrand, lrand, nh, nh // 2 + 1, nh // 4 + 1, nl, nh, nh // 2 + 1, nh // 4 + 1, nh, nd_checks, nd_steps),
        samples=[histories[0], histories[n_corpus + 12345 % n_exh], histories[-1][:12]],
        exhaustive=False,
        operation_histogram=op_hist,
        histories=len(histories), divergent_histories=n_div, sanitizer_aborts=len(aborts),
        traces_validated_against_impl=len(histories) - n_div))
    chk.assumptions += ["element type int; the allocator, shared_ptr lifetime and iterator invalidation are runtime behaviour seen only by ASan, not by the model",
                        "N-dimensional arrays (2-4 dimensions), memory views, constructors, moves and array_index_functions are checked by the harness oracle "
                        "(nested reference map); of the N-dimensional classes the Lean model covers the checked access at(coordinate) and size_all() on nested "
                        "index-range maps of any depth and shape (C11_nd_checked_access_is_map, C11_nd_size_all; tied by serialising the real array and asking the "
                        "real at()), and the row-major flattening lemma; histories of N-dimensional arrays are NOT modelled in Lean; the history model and its "
                        "theorems cover the 1-D classes VectorWithOffset<int> / NumericVectorWithOffset / Array<1,int>",
                        "32-bit int overflow and integer division by zero are undefined behaviour in C++ and outside the property: arithmetic operations whose "
                        "operands exceed 30000 in magnitude or whose divisor has a zero are skipped (by harness and model alike, counted as `skip`)",
                        "aliased compound assignment of a register with itself (x += x etc.) is not generated; index ranges with max < min-1 are not generated"]
    if audit:
        vlib.proof_coverage(chk, audit, "cd lean && lake build StirVerif stirdriver && lake env lean ../build/out/Audit_C11.lean")
    return chk.finish()
