"""C06 — ordered subsets partition the data; every subset is used once per iteration."""
import os
import vlib
import gen_gate

PROP = "C06"


def main(tier, replay):
    if replay:
        for l in open(replay):
            if l.startswith("# seed="):
                os.environ["VERIF_SEED"] = l.split("seed=")[1].split()[0]
                tier = l.split("tier=")[1].split()[0]
    chk = vlib.Check(PROP, tier, level="proof")
    audit = vlib.lean_gate(chk, PROP)
    tie_t = gen_gate.gate(chk, kernels=["find_basic_view_segment_numbers", "num_related_view_segment_numbers", "subset_num_fixed"])
    stats = vlib.run_differential(chk, PROP, "c06_subsets", tier)
    vlib.standard_coverage(chk, stats,
        "real DataSymmetriesForBins_PET_CartesianGrid / find_basic_vs_nums_in_subset / subsets_are_approximately_balanced / "
        "IterativeReconstruction::get_subset_num (rand() scripted) on generated geometries: views 1..24 + seeded sample up to 96 (thorough: all 1..96), "
        "all 8 requested symmetry-flag combinations, TOF and non-TOF, every (view,segment): basic/related/count; subsets n (all n<=6, divisors, sample; thorough: all n) "
        "x every subset; balanced flag; schedules. One line per operation, compared with the Lean model's answer; distinct = distinct (op) lines; "
        "the oracle counts (view,segment) multiplicities over all subsets on the implementation.")
    chk.coverage["tie_T_translator"] = tie_t
    chk.assumptions += ["rand() is a parameter (scripted)", "view range is 0..V-1 (always the case for STIR projection data)",
                        "32-bit overflow not modelled"]
    if audit:
        vlib.proof_coverage(chk, audit, "cd lean && lake build StirVerif stirdriver && lake env lean ../build/out/Audit_C06.lean")
    return chk.finish()
