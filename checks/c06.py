"""C06 — ordered subsets partition the data; every subset is used once per iteration."""
import os
import vlib
import gen_gate

PROP = "C06"


def main(tier, replay):
    if replay:
        for l in open(replay):
            if l.startswith("# seed="):
                os.environ["VERIF_SEED"] = l.split("seed=")[1].split()[0]
                tier = l.split("tier=")[1].split()[0]
    chk = vlib.Check(PROP, tier, level="proof")
    audit = vlib.lean_gate(chk, PROP)
    tie_t = gen_gate.gate(chk, kernels=["find_basic_view_segment_numbers", "num_related_view_segment_numbers", "subset_num_fixed"])
    stats = vlib.run_differential(chk, PROP, "c06_subsets", tier)
    vlib.standard_coverage(chk, stats,
        "real DataSymmetriesForBins_PET_CartesianGrid / TrivialDataSymmetriesForBins / find_basic_vs_nums_in_subset / subsets_are_approximately_balanced / "
        "IterativeReconstruction::get_subset_num (rand() scripted) on generated geometries: views 1..24 + seeded sample up to 96 (thorough: all 1..96), "
        "all 8 requested symmetry-flag combinations, TOF and non-TOF, every (view,segment): basic/related/count; subsets n (all n<=6, divisors, sample; thorough: all n) "
        "x every subset; balanced flag before set_up (non-TOF, explicit max segment) and after the objective function's set_up (`balancedsu`: default "
        "max_segment_num_to_process=-1, explicit and too large values, TOF and non-TOF, with/without subset sensitivities; every second object is used again with data of another number of segments after no setter call / the setter with the value in force / with another value); schedules of get_subset_num (`sched`). "
        "`recon`: the real OSMAPOSLReconstruction set_up + reconstruct on small PET data (matrix projectors, 2..16 views, 1..2 rings, TOF in 1/5 of the cases) with random "
        "num_subsets / start_subset_num / start_subiteration_num / num_subiterations / randomise flag (rand() scripted) and malformed parameters; the subset number of "
        "every sub-iteration is recorded by a wrapping objective function (the real PoissonLogLikelihoodWithLinearModelForMeanAndProjData, balance test real or forced) "
        "and compared with the model's schedule, set-up failures (parameter ranges, unbalanced subsets) included; runs with randomised order that start inside an "
        "iteration (which indexed an empty array before the repair bfafc063a) are ordinary runs: whole sequence compared, remaining sub-iterations of the first iteration distinct. `bp`/`fp`: BackProjectorByBin::back_project(ProjData, subset, n) and ForwardProjectorByBin::forward_project(ProjData, image, subset, n, zero=false) "
        "of the matrix projectors on 2..20 views x 1..3 rings x TOF(3/5 bins)/non-TOF x symmetry flags: every viewgram read / written is recorded by a wrapping ProjData and the "
        "(view, segment, TOF bin) lists are compared with the model. One line per operation, compared with the Lean model's answer; distinct = distinct (op) lines. "
        "Oracles on the implementation: (view,segment) multiplicities over all subsets; balanced flag = equal per-subset viewgram counts; every full iteration of a real run is a "
        "permutation of the subsets, one objective-function call per sub-iteration, every subset sensitivity computed once; viewgrams read/written over all subsets = every "
        "(segment, view, TOF bin) exactly once; sum of the subset back projections = back projection viewgram by viewgram within 4*#bins*2^-24*value (all terms >= 0; all-ones "
        "and per-viewgram coded data); forward projection by subsets = viewgram-by-viewgram forward projection bitwise.")
    chk.coverage["tie_T_translator"] = tie_t
    chk.assumptions += ["rand() is a parameter (scripted; the float expression (int)((float)rand()/RAND_MAX*(n-i)) is evaluated by the harness)",
                        "view range is 0..V-1 (always the case for STIR projection data)",
                        "32-bit overflow not modelled",
                        "the reconstruction object is freshly constructed for every run (no reuse of _current_subset_array between runs); one get_subset_num call per "
                        "sub-iteration (OSMAPOSL; OSSPS calls it the same way but is not run here)",
                        "projector loops observed for the matrix projectors (ProjMatrixByBinUsingRayTracing) in the serial build; the OpenMP variants of the loops are C18's subject",
                        "symmetric TOF range (min_tof_pos_num = -max_tof_pos_num), which is what ProjDataInfo constructs"]
    if audit:
        vlib.proof_coverage(chk, audit, "cd lean && lake build StirVerif stirdriver && lake env lean ../build/out/Audit_C06.lean")
    return chk.finish()
