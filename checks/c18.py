"""C18 — multi-threaded execution gives the single-thread result under every schedule.
Lean: protocol-level theorems (double-checked lazy initialisation, cache under a lock, reduction) for any number of
threads and any schedule.  Tie: event traces recorded from the OpenMP build through the UCL_STIR_VERIF schedule points
(with seeded schedule perturbation) are validated against the model's trace validators; results of multi-threaded runs
are compared with single-threaded runs of the same binary (oracle)."""
import os
import vlib

PROP = "C18"


def main(tier, replay):
    if replay:
        for l in open(replay):
            if l.startswith("# seed="):
                os.environ["VERIF_SEED"] = l.split("seed=")[1].split()[0]
                tier = l.split("tier=")[1].split()[0]
    chk = vlib.Check(PROP, tier, level="proof")
    audit = vlib.lean_gate(chk, PROP)
    stats = vlib.run_differential(chk, PROP, "c18_threads", tier, flavour="omp", ctx_prefixes=("begin",))
    vlib.standard_coverage(chk, stats,
        "OpenMP build of STIR with schedule points: scenarios tables / cache / project / loglik with fresh objects, thread counts "
        "2,4,7 (thorough: 2..16) and 16 threads on 2 work items, seeded yields/sleeps at every schedule point; each scenario's event trace "
        "(one line per event) is validated by the Lean trace validators (an `end` line answers ok/reject); oracle: multi-threaded results vs "
        "single-threaded results of the same binary (forward projection 1e-5, back projection 2e-5, log-likelihood 1e-6, images 5e-5 relative to the maximum: "
        "floating-point reassociation of per-thread partial sums; a lost or duplicated contribution changes results by O(1/threads)).",
        extra=dict(states=stats.get("ops", 0), transitions=stats.get("ops", 0)))
    chk.assumptions += ["protocol-level theorems only: OpenMP atomic/critical/locks are assumed to give sequentially consistent access to the flags and caches",
                        "libgomp and the hardware memory model are not modelled; data races outside the modelled protocols are visible only to the perturbed runs",
                        "list-mode gradients and scatter simulation are not exercised by this harness yet"]
    if audit:
        vlib.proof_coverage(chk, audit, "cd lean && lake build StirVerif stirdriver && lake env lean ../build/out/Audit_C18.lean")
    return chk.finish()
