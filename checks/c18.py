"""C18 — multi-threaded execution gives the single-thread result under every schedule.
Lean: protocol-level theorems (double-checked lazy initialisation, cache under a lock, reduction, per-thread accumulators that
outlive a pass, scatter caches under first-come detector numbering, set_num_threads) for any number of threads and any schedule.  Tie: event traces recorded from the OpenMP build through the UCL_STIR_VERIF schedule points
(with seeded schedule perturbation) are validated against the model's trace validators; results of multi-threaded runs
are compared with single-threaded runs of the same binary (oracle)."""
import os
import vlib

PROP = "C18"


def main(tier, replay):
    if replay:
        for l in open(replay):
            if l.startswith("# seed="):
                os.environ["VERIF_SEED"] = l.split("seed=")[1].split()[0]
                tier = l.split("tier=")[1].split()[0]
    chk = vlib.Check(PROP, tier, level="proof")
    audit = vlib.lean_gate(chk, PROP)
    stats = vlib.run_differential(chk, PROP, "c18_threads", tier, flavour="omp", ctx_prefixes=("begin",))
    vlib.standard_coverage(chk, stats,
        "OpenMP build of STIR with schedule points; scenarios (fresh objects every time, T = 2,4,7 threads; thorough: 2..16; 16 threads on 2 work items), "
        "seeded yields/sleeps at every schedule point: tables / cache / project / loglik; loglik_full (1..3 subsets, optional additive term, normalisation "
        "factors, end-plane zeroing: per subset value, sub-gradient, sub-gradient+sensitivity, add_subset_sensitivity, sensitivity from set_up, "
        "accumulate_sub_Hessian_times_input, add_multiplication_with_approximate_sub_Hessian; plus the value asked 150 times from one T-thread object on a "
        "small data set, unperturbed, to reach the nanosecond window of the per-viewgram reduction); projdata_stream (ProjDataInterfile/ProjDataFromStream on "
        "files written by the harness, both storage orders, and ProjDataInMemory: .io = the harness' own parallel loop of get_/set_ viewgram / sinogram / "
        "segment calls writing disjoint regions and reading against an in-memory copy, exact; .project = forward projection into a file (every viewgram "
        "compared with the file of the single-thread run) and back projection from a file; .loglik = the loglik_full quantities with data, additive term and "
        "normalisation factors read from files; the single-bin accessors get_bin_value/set_bin_value only on ProjDataInMemory); scatter (SingleScatterSimulation::"
        "process_data, 4..9 scatter points, 12..24 detectors x 1..3 rings, cache enabled and disabled). "
        "ADDED (round 2) -- rethread: ONE live object used with N, then M, then N threads (stir::set_num_threads in between; N->M in 7->2, 2->7, 16->1, 4->4; set_up() "
        "called again when the new count exceeds the count of the last set_up, and in 1 of 4 other changes), every use on other data / at another image and compared with "
        "single-thread fresh objects: rethread.project (one BackProjectorByBinUsingProjMatrixByBin + one forward projector; the per-thread images of the back "
        "projector are also followed by the executable model: `acc setup/pass/output` operations, the slots summed by get_output -- bp.reduce events -- must be the "
        "model's), rethread.loglik (one PoissonLogLikelihoodWithLinearModelForMeanAndProjData: everything loglik_full asks), rethread.listmode; "
        "scatter.history: ONE SingleScatterSimulation: process_data with T1 threads, a setter called again (nothing / set_template_proj_data_info with the same "
        "template (twice as often, cache enabled 7 times in 8) / equal copies of the three images / a scatter-point image with the same number of points elsewhere / "
        "set_exam_info / set_use_cache toggled), set_up, process_data with T2 threads; both outputs bitwise against fresh single-thread objects, and the same "
        "history with one thread; listmode: PoissonLogLikelihoodWithLinearModelForMeanAndListModeDataWithProjMatrixByBin on synthetic in-memory list-mode "
        "data (150..400 events, prompts and delayeds, TOF or not, additive term, normalisation, 1..3 subsets; no cache files / several batches / one batch): per "
        "subset value, add_subset_sensitivity, sensitivity from set_up, sub-gradient (+ sensitivity), Hessian product, T threads vs 1 thread; tiny: 16 threads on "
        "fewer work items than threads for loglik, loglik_full, scatter (5 bins per viewgram), scatter.history and listmode (3..8 events); clear_cache: child processes "
        "in which 2/4/7 threads fetch 3000 rows through one matrix cache while 1 fetch in 20 is preceded by clear_cache() (rows against directly computed rows; crash / "
        "hang of the child = verdict); default_threads: get_default_num_threads / set_num_threads() / set_default_num_threads with and without OMP_NUM_THREADS "
        "against the model of num_threads.cxx (`nt` operations, exact) and the number of threads a parallel region really runs, plus one whole projection under the "
        "default. `threads <T>` lines inside a trace: no event after it may come from a thread >= T, work items are counted per segment. Each trace (one line per event; one trace per "
        "distributable pass where the number of work items is known) is validated by the Lean trace validators (an `end` line answers ok/reject). "
        "Oracle: T-thread result vs single-thread result of the same binary. Tolerances relative to the maximum of the reference: forward projection 1e-5 "
        "(one thread per bin, no reassociation expected), back projection 2e-5, images 5e-5 (float sums of <= ~10^3 addends reassociated over per-thread images: "
        "bound n*2^-24 ~ 6e-5 worst case, ~sqrt(n)*2^-24 typical; the gradient relative to |back projection| + |sensitivity| whose difference it is), log-likelihood "
        "values 1e-6 (double partial sums), scatter bins bitwise (each bin is one thread's sequential sum), scatter totals 1e-12 (double reduction), "
        "list-mode images 5e-5 (float sums of <= 400 events reassociated over per-thread images), list-mode values 1e-7 relative + 1e-6 (a lost event changes them by |log| ~ 1); "
        "a lost or duplicated contribution of one viewgram / one bin changes results by >= 1e-3.",
        extra=dict(states=stats.get("ops", 0), transitions=stats.get("ops", 0)))
    chk.assumptions += ["protocol-level theorems only: OpenMP atomic/critical/locks are assumed to give sequentially consistent access to the flags and caches",
                        "libgomp and the hardware memory model are not modelled; data races outside the modelled protocols are visible only to the perturbed runs",
                        "races that are benign on this hardware/compiler (a dropped `omp atomic` on an aligned float, as in the scatter cache; a dropped critical "
                        "around copies of disjoint regions, as in ProjDataInMemory) do not change results and are invisible to the comparison with the "
                        "single-thread run (measured: both go unnoticed at quick and thorough tier); only a race detector would see them",
                        "ProjDataFromStream / ProjDataInMemory have no schedule points: interleavings inside their critical sections are provoked by contention "
                        "(hundreds of short calls per thread), not forced",
                        "list-mode: synthetic in-memory list-mode data only (no scanner file formats), LM_distributable_computation has no schedule points of its own: its "
                        "interleavings are perturbed only at the matrix-cache points inside it; scatter: single scatter only, output in memory, no down-sampling of scanner or "
                        "image inside the simulation",
                        "thread-count changes: more threads than the last set_up() was made with is only exercised after a new set_up() (the documented way to size the per-thread "
                        "buffers); without it BackProjectorByBin indexes its vector of per-thread images out of range (not run: it would corrupt the harness' heap)",
                        "the Accum / ScCache / NumThreads theorems are about the transcribed bookkeeping (which slots are zeroed and summed, which number a detector gets, what "
                        "omp_set_num_threads is called with), with an image abstracted to an integer and a cache request taken as one atomic step",
                        "concurrent clear_cache() is provoked on ProjMatrixByBinUsingRayTracing from the harness' own threads; the SPECT matrices that call it from inside the "
                        "library's parallel loops are not run"]
    if audit:
        vlib.proof_coverage(chk, audit, "cd lean && lake build StirVerif stirdriver && lake env lean ../build/out/Audit_C18.lean")
    return chk.finish()
