"""C14 — list-mode histogramming agrees with the event list."""
import os
from fractions import Fraction
import vlib

PROP = "C14"
SCALE = 2 ** 100


def compare(op, impl, model):
    """Histogram ops: exact.  `lmgps` (list-mode gradient plus sensitivity of the real objective function): the model answers,
    per voxel, round(exact*2^100):ceil(bound*2^100) with the exact value in Rat and the derived forward error bound
    4*n*2^-24*sum|terms| (n = longest row + number of additions to the voxel + 10); see lean/Driver/C14.lean."""
    if impl == model:
        return True
    if op.split(" ", 1)[0] == "runw":
        return compare_runw(impl, model)
    if op.split(" ", 1)[0] != "lmgps":
        return False
    if impl in ("err", "<missing>") or model in ("no-row", "bad-op", "<missing>"):
        return False
    try:
        it, mt = impl.split(), model.split()
        if len(it) != len(mt):
            return False
        for a, m in zip(it, mt):
            x = float.fromhex(a)
            if x != x or x in (float("inf"), float("-inf")):
                return False
            v, b = m.split(":")
            if abs(Fraction(x) * SCALE - int(v)) > int(b) + 2:
                return False
        return True
    except (ValueError, OverflowError):
        return False


def compare_runw(impl, model):
    """Normalised histograms: the implementation prints the stored floats (hex), the model per output bin that received additions
    round(exact*2^100):ceil(bound*2^100), bound = 4*(n+3)*2^-24*sum|terms| for n additions (each term: two float divisions,
    the sum: n-1 float additions).  Bins listed by one side only count as 0 (bound 0) on the other."""
    if impl in ("err", "<missing>") or model in ("err", "bad-op", "<missing>"):
        return False
    try:
        ip, mp = impl.split(" | "), model.split(" | ")
        if len(ip) != len(mp) or ip[0].split() != mp[0].split():
            return False
        for fi, fm in zip(ip[1:], mp[1:]):
            di = {} if fi.strip() == "-" else dict((t.split("=")[0], float.fromhex(t.split("=")[1])) for t in fi.split())
            dm = {} if fm.strip() == "-" else dict((t.split("=")[0], tuple(int(x) for x in t.split("=")[1].split(":"))) for t in fm.split())
            for k in set(di) | set(dm):
                x = di.get(k, 0.0)
                if x != x or x in (float("inf"), float("-inf")):
                    return False
                v, b = dm.get(k, (0, 0))
                if abs(Fraction(x) * SCALE - v) > b + 2:
                    return False
        return True
    except (ValueError, OverflowError, IndexError):
        return False


def main(tier, replay):
    if replay:
        for l in open(replay):
            if l.startswith("# seed="):
                os.environ["VERIF_SEED"] = l.split("seed=")[1].split()[0]
                tier = l.split("tier=")[1].split()[0]
    chk = vlib.Check(PROP, tier, level="proof")
    audit = vlib.lean_gate(chk, PROP)
    stats = vlib.run_differential(chk, PROP, "c14_lm_histogram", tier, compare=compare)
    extra = {}
    of = os.path.join(vlib.OUT, "c14_%s.impl.oracle" % tier)
    if os.path.exists(of):
        for l in open(of):
            if l.startswith("STATS "):
                extra["input_distribution"] = dict((kv.split("=")[0], int(kv.split("=")[1])) for kv in l.split()[1:])
    vlib.standard_coverage(chk, stats,
        "real stir::LmToProjData (set_input_data/set_template_proj_data_info_sptr/set_time_frame_definitions or frame definition file/"
        "set_store_prompts/set_store_delayeds/set_num_segments_in_memory/num_TOF_bins_in_memory and 'maximum absolute segment number to process' "
        "via the object's own keymap/set_num_events_to_store/set_up/process_data) fed by a synthetic in-memory ListModeData whose events are "
        "real CListEventCylindricalScannerWithDiscreteDetectors (decoded by the library) plus raw-bin events around the template ranges; "
        "generated scanners (8..24 detectors, 1..4 rings, TOF 5/7/9/15 bins), templates with span 1/2/3, view mashing, TOF mashing, trimmed "
        "tangential range; streams with events before the first time mark, equal marks, marks on frame boundaries, gaps, marks going back "
        "(malformed); frame partitions / frames with gaps / frames beyond the data; every num_segments_in_memory 1..n+1 with several "
        "num_TOF_bins_in_memory; num_events_to_store; output read back from Interfile or ProjDataInMemory.  One `run` line = one process_data "
        "call; answer = final current_time, clamped batch size and all non-zero bins of every frame, compared EXACTLY with the Lean model "
        "(integers).  Oracle = independent count over the event list per frame (property statement), batch-size independence, frames of a "
        "partition add up, num_events cut-off, get_bin glue.  "
        "LIST-MODE OBJECTIVE (last clause): the real PoissonLogLikelihoodWithLinearModelForMeanAndListModeDataWithProjMatrixByBin driven in memory "
        "(set_input_data with the synthetic ListModeData, set_proj_matrix(ProjMatrixByBinUsingRayTracing, random symmetry switches), set_additive_proj_data_sptr "
        "(TOF-dependent values) on/off, BinNormalisationFromProjData / trivial, set_max_segment_num_to_process, 1..num_views subsets, frame_defs + 'time frame number' and "
        "'num_events_to_use' through the object's keymap, no cache files / cache files with 1,2,3,5,7,n/2,n,n+1,1000 events per batch) on generated geometries "
        "(8/12/16 detectors, 1-3 rings, span 1/3, view mashing, trimmed tangential range, non-TOF and 3/5/7 TOF bins, 5x5 / 7x7 voxel images), streams of the generator above "
        "with monotone time marks.  For every subset: compute_sub_gradient_without_penalty, ..._plus_sensitivity, get_subset_sensitivity, "
        "accumulate_sub_Hessian_times_input_without_penalty, compute_objective_function_without_penalty at two images, and compute_gradient_without_penalty.  ORACLE (harness): "
        "(i) the same events histogrammed by the real LmToProjData (prompts only, same frame / same num_events, same processed segments; histogram == independent count) are given to "
        "the real PoissonLogLikelihoodWithLinearModelForMeanAndProjData with the same matrix type, additive term and normalisation; gradient plus sensitivity, subset "
        "sensitivity and Hessian product are compared per subset and voxel (both classes put a bin into the subset of the view of its basic bin under the symmetries of the "
        "matrix), the gradient including the sensitivity term per subset and in total for non-TOF data (for TOF data the projection-data class back projects the sensitivity "
        "term TOF bin by TOF bin while the list-mode class uses the non-TOF back projection: only equal if the TOF bins cover the kernel); tolerance 2*4*n*2^-24*sum|terms|, "
        "n = longest row + contributions to the voxel + 10; (ii) textbook expressions in double on explicit rows from the event list; (iii) another cache size gives the same "
        "result; (iv) histories: configure, set_up, compute, change stream / frame number / frame definitions / cache size / additive term / number of subsets back to the "
        "reference configuration, set_up: bitwise equal to a fresh object; (v) value differences between two images against sum of logs - sensitivity.image.  "
        "CORRESPONDENCE: one `lmgps` line per subset = gradient plus sensitivity of the real class against the Lean model (lmEvents/lmContribs: event selection by frame and "
        "ranges, batches, subset test, back projection of 1/(row.image+additive)) evaluated exactly in Rat on the rows, additive values and basic views of the real matrix, "
        "bound 4*n*2^-24*sum|terms|.  Runs in which a known class of defect (stable key) is detected are reported and not compared with the model.  "
        "RE-USE OF CACHE FILES: for every case with cache files a second object with recompute_cache = false on the same cache path, given ANOTHER stream and no "
        "frame definitions, must reproduce the results of the object that wrote the files bitwise; in a quarter of these the second object has "
        "use_subset_sensitivities = false (one subset: bitwise; several subsets: gradient plus sensitivity and Hessian product bitwise, subset sensitivity = total "
        "sensitivity / number of subsets against the textbook value, compute_sub_gradient_without_penalty must refuse).  "
        "NORMALISATION IN LmToProjData (family 3): 'Bin Normalisation type for pre-normalisation' / '... post-normalisation' / 'do pre normalisation' through the "
        "class's own keymap with a registered table normalisation (get_bin_efficiency from a hash of the bin; every 4th..9th bin unusable: 0, 1e-12 or negative in a third "
        "of the cases), alone or inside the library's ChainedBinNormalisation; generated scanners 8/12/16 detectors x 1-3 rings, non-TOF and TOF, span 1/3, view mashing, "
        "trimmed tangential range, uncompressed geometry with N-1 or N/2-1 tangential positions; frames, every kind of batch size, whole stream, num_events_to_store.  "
        "One `runw` line = one process_data call, answer = the stored floats; the Lean model (processDataW on preStream: get_bin_from_event with do_pre_normalisation, "
        "do_post_normalisation, get_compression_count as data of the real geometry) is evaluated exactly in Rat and compared with the bound 4*(n+3)*2^-24*sum|terms| "
        "(n additions to the bin).  Oracle: stored value == sum over the events of the frame of increment/(efficiency of the event's uncompressed bin x compression count "
        "counted independently over ring pairs and views) resp. increment/efficiency of the output bin, unusable efficiencies and events the decoder rejects add nothing; "
        "batch sizes give bitwise the same floats; frames of a partition add up.  "
        "OTHER EVENT CLASSES AND REAL FILES (family 4): events of cylindrical scanners that only know their LOR (library get_LOR + ListEvent::get_bin = "
        "ProjDataInfo::get_bin(LOR)); BlocksOnCylindrical scanners (4x2, 6x2, 4x3, 8x2, 4x4 crystals, 1-3 rings; ProjDataInfoBlocksOnCylindricalNoArcCorr templates) with "
        "detector-pair and LOR-only events; SAFIR list-mode files written from the event list (signature, 64-bit records incl. times > 2^32 ms) read by "
        "CListModeDataSAFIR (directly, and through read_from_file<ListModeData> with a parameter file, template projection data file and crystal map file written by the harness); "
        "ECAT8 32-bit list-mode files for the Siemens mMR (Interfile header + 32-bit words) read through read_from_file<ListModeData>; LmToProjData on the files via "
        "set_input_data(filename), every num_segments_in_memory (several passes = save_get_position/set_get_position on the real file), frames, whole stream, "
        "num_events_to_store.  Oracle: histogram == independent count with get_bin_for_det_pos_pair, the reader's records == the event list (times, prompt/delayed, bins), "
        "reset(), file histograms == histograms of the synthetic stream of the same events, reader history (file with crystal map, then file without).  "
        "distinct = distinct op lines.",
        extra)
    chk.assumptions += [
        "event -> bin map (get_bin_for_det_pos_pair) is data for this property (C01)",
        "time marks are integer milliseconds (ListTime unit) and frame boundaries are k/1000. (comparison of the doubles = comparison of the integers)",
        "records are either a time mark or an event (combined records as in CListRecordROOT are not exercised)",
        "family 1/2/4: normalisation is the default TrivialBinNormalisation, counts < 2^24 (float exact); family 3: the efficiencies returned by the normalisation "
        "object and the number of ring pairs / view mashing factor of the template are data taken from the real objects (the oracle counts ring pairs and views itself); "
        "floating point rounding of the normalised sums is not modelled (forward error bound); the model describes get_bin_from_event / do_post_normalisation as after the "
        "proposed fixes C14-6 / C14-7 (runs of the unrepaired code on such inputs are recognised, reported with a stable key and not compared)",
        "BinNormalisationFromProjData / FromAttenuationImage cannot be used with LmToProjData (get_bin_efficiency is not implemented there): the table normalisation of the "
        "harness and ChainedBinNormalisation are used instead; BinNormalisationPETFromComponents is not exercised here",
        "CListEventScannerWithDiscreteDetectors<ProjDataInfoGenericNoArcCorr> cannot be instantiated (its get_LOR does not compile for the Generic class): blocks scanners "
        "are exercised through the harness's event class that calls ProjDataInfoGenericNoArcCorr::get_bin_for_det_pos_pair the same way, and through the SAFIR reader",
        "real file formats: SAFIR (both constructors, with and without crystal map) and ECAT8 32-bit (Siemens mMR, non-TOF, axial compression 1, maximum ring difference 0..2); "
        "NeuroLF records, ECAT 962/966, GE, ROOT and PENN formats are not exercised",
        "num_segments_in_memory / num_TOF_bins_in_memory >= 1 or -1 (0 and other negative values make process_data loop forever: not run)",
        "list-mode objective: matrix rows, additive values and the view of the basic bin are data taken from the real ProjMatrixByBinUsingRayTracing / ProjData (C03/C04/C02); "
        "images strictly positive (the max_quotient thresholds of the projection-data class are C05's subject); floating point rounding is not modelled (forward error bound); "
        "the sensitivity, the Hessian product and the value are compared on the implementation only (no Lean model); builds with OpenMP / MPI are not run; "
        "cache files are written to and read from a scratch directory; use_subset_sensitivities = false is exercised on the re-using object only",
    ]
    if audit:
        vlib.proof_coverage(chk, audit, "cd lean && lake build StirVerif.C14.Props Driver.C14 && lake env lean ../build/out/Audit_C14.lean")
    return chk.finish()
