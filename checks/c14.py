"""C14 — list-mode histogramming agrees with the event list."""
import os
from fractions import Fraction
import vlib

PROP = "C14"
SCALE = 2 ** 100


def compare(op, impl, model):
    """Histogram ops: exact.  `lmgps` (list-mode gradient plus sensitivity of the real objective function): the model answers,
    per voxel, round(exact*2^100):ceil(bound*2^100) with the exact value in Rat and the derived forward error bound
    4*n*2^-24*sum|terms| (n = longest row + number of additions to the voxel + 10); see lean/Driver/C14.lean."""
    if impl == model:
        return True
    if op.split(" ", 1)[0] != "lmgps":
        return False
    if impl in ("err", "<missing>") or model in ("no-row", "bad-op", "<missing>"):
        return False
    try:
        it, mt = impl.split(), model.split()
        if len(it) != len(mt):
            return False
        for a, m in zip(it, mt):
            x = float.fromhex(a)
            if x != x or x in (float("inf"), float("-inf")):
                return False
            v, b = m.split(":")
            if abs(Fraction(x) * SCALE - int(v)) > int(b) + 2:
                return False
        return True
    except (ValueError, OverflowError):
        return False


def main(tier, replay):
    if replay:
        for l in open(replay):
            if l.startswith("# seed="):
                os.environ["VERIF_SEED"] = l.split("seed=")[1].split()[0]
                tier = l.split("tier=")[1].split()[0]
    chk = vlib.Check(PROP, tier, level="proof")
    audit = vlib.lean_gate(chk, PROP)
    stats = vlib.run_differential(chk, PROP, "c14_lm_histogram", tier, compare=compare)
    extra = {}
    of = os.path.join(vlib.OUT, "c14_%s.impl.oracle" % tier)
    if os.path.exists(of):
        for l in open(of):
            if l.startswith("STATS "):
                extra["input_distribution"] = dict((kv.split("=")[0], int(kv.split("=")[1])) for kv in l.split()[1:])
    vlib.standard_coverage(chk, stats,
        "real stir::LmToProjData (set_input_data/set_template_proj_data_info_sptr/set_time_frame_definitions or frame definition file/"
        "set_store_prompts/set_store_delayeds/set_num_segments_in_memory/num_TOF_bins_in_memory and 'maximum absolute segment number to process' "
        "via the object's own keymap/set_num_events_to_store/set_up/process_data) fed by a synthetic in-memory ListModeData whose events are "
        "real CListEventCylindricalScannerWithDiscreteDetectors (decoded by the library) plus raw-bin events around the template ranges; "
        "generated scanners (8..24 detectors, 1..4 rings, TOF 5/7/9/15 bins), templates with span 1/2/3, view mashing, TOF mashing, trimmed "
        "tangential range; streams with events before the first time mark, equal marks, marks on frame boundaries, gaps, marks going back "
        "(malformed); frame partitions / frames with gaps / frames beyond the data; every num_segments_in_memory 1..n+1 with several "
        "num_TOF_bins_in_memory; num_events_to_store; output read back from Interfile or ProjDataInMemory.  One `run` line = one process_data "
        "call; answer = final current_time, clamped batch size and all non-zero bins of every frame, compared EXACTLY with the Lean model "
        "(integers).  Oracle = independent count over the event list per frame (property statement), batch-size independence, frames of a "
        "partition add up, num_events cut-off, get_bin glue.  distinct = distinct op lines.",
        extra)
    chk.assumptions += [
        "event -> bin map (get_bin_for_det_pos_pair) is data for this property (C01)",
        "time marks are integer milliseconds (ListTime unit) and frame boundaries are k/1000. (comparison of the doubles = comparison of the integers)",
        "records are either a time mark or an event (combined records as in CListRecordROOT are not exercised)",
        "normalisation is the default TrivialBinNormalisation; counts < 2^24 (float exact)",
        "num_segments_in_memory / num_TOF_bins_in_memory >= 1 or -1 (0 and other negative values make process_data loop forever: not run)",
    ]
    if audit:
        vlib.proof_coverage(chk, audit, "cd lean && lake build StirVerif.C14.Props Driver.C14 && lake env lean ../build/out/Audit_C14.lean")
    return chk.finish()
