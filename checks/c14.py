"""C14 — list-mode histogramming agrees with the event list."""
import os
from fractions import Fraction
import vlib

PROP = "C14"
SCALE = 2 ** 100


def compare(op, impl, model):
    """Histogram ops: exact.  `lmgps` (list-mode gradient plus sensitivity of the real objective function): the model answers,
    per voxel, round(exact*2^100):ceil(bound*2^100) with the exact value in Rat and the derived forward error bound
    4*n*2^-24*sum|terms| (n = longest row + number of additions to the voxel + 10); see lean/Driver/C14.lean."""
    if impl == model:
        return True
    if op.split(" ", 1)[0] == "runw":
        return compare_runw(impl, model)
    if op.split(" ", 1)[0] != "lmgps":
        return False
    if impl in ("err", "<missing>") or model in ("no-row", "bad-op", "<missing>"):
        return False
    try:
        it, mt = impl.split(), model.split()
        if len(it) != len(mt):
            return False
        for a, m in zip(it, mt):
            x = float.fromhex(a)
            if x != x or x in (float("inf"), float("-inf")):
                return False
            v, b = m.split(":")
            if abs(Fraction(x) * SCALE - int(v)) > int(b) + 2:
                return False
        return True
    except (ValueError, OverflowError):
        return False


def compare_runw(impl, model):
    """Normalised histograms: the implementation prints the stored floats (hex), the model per output bin that received additions
    round(exact*2^100):ceil(bound*2^100), bound = 4*(n+3)*2^-24*sum|terms| for n additions (each term: two float divisions,
    the sum: n-1 float additions).  Bins listed by one side only count as 0 (bound 0) on the other."""
    if impl in ("err", "<missing>") or model in ("err", "bad-op", "<missing>"):
        return False
    try:
        ip, mp = impl.split(" | "), model.split(" | ")
        if len(ip) != len(mp) or ip[0].split() != mp[0].split():
            return False
        for fi, fm in zip(ip[1:], mp[1:]):
            di = {} if fi.strip() == "-" else dict((t.split("=")[0], float.fromhex(t.split("=")[1])) for t in fi.split())
            dm = {} if fm.strip() == "-" else dict((t.split("=")[0], tuple(int(x) for x in t.split("=")[1].split(":"))) for t in fm.split())
            for k in set(di) | set(dm):
                x = di.get(k, 0.0)
                if x != x or x in (float("inf"), float("-inf")):
                    return False
                v, b = dm.get(k, (0, 0))
                if abs(Fraction(x) * SCALE - v) > b + 2:
                    return False
        return True
    except (ValueError, OverflowError, IndexError):
        return False


def main(tier, replay):
    if replay:
        for l in open(replay):
            if l.startswith("# seed="):
                os.environ["VERIF_SEED"] = l.split("seed=")[1].split()[0]
                tier = l.split("tier=")[1].split()[0]
    chk = vlib.Check(PROP, tier, level="proof")
    audit = vlib.lean_gate(chk, PROP)
    stats = vlib.run_differential(chk, PROP, "c14_lm_histogram", tier, compare=compare)
    extra = {}
    of = os.path.join(vlib.OUT, "c14_%s.impl.oracle" % tier)
    if os.path.exists(of):
        for l in open(of):
            if l.startswith("STATS "):
                extra["input_distribution"] = dict((kv.split("=")[0], int(kv.split("=")[1])) for kv in l.split()[1:])
    vlib.standard_coverage(chk, stats,
        "real stir::LmToProjData (set_input_data/set_template_proj_data_info_sptr/set_time_frame_definitions or frame definition file/"
        "set_store_prompts/set_store_delayeds/set_num_segments_in_memory/num_TOF_bins_in_memory and 'maximum absolute segment number to process' "
        "via the object's own keymap/set_num_events_to_store/set_up/process_data) fed by a synthetic in-memory ListModeData whose events are "
        "real CListEventCylindricalScannerWithDiscreteDetectors (decoded by the library) plus raw-bin events around the template ranges; "
        "generated scanners (8..24 detectors, 1..4 rings, TOF 5/7/9/15 bins), templates with span 1/2/3, view mashing, TOF mashing, trimmed "
        "tangential range; streams with events before the first time mark, equal marks, marks on frame boundaries, gaps, marks going back "
        "(malformed); frame partitions / frames with gaps / frames beyond the data; every num_segments_in_memory 1..n+1 with several "
        "num_TOF_bins_in_memory; num_events_to_store; output read back from Interfile or ProjDataInMemory.  One `run` line = one process_data "
        "call; answer = final current_time, clamped batch size and all non-zero bins of every frame, compared EXACTLY with the Lean model "
        "(integers).  Oracle = independent count over the event list per frame (property statement), batch-size independence, frames of a "
        "partition add up, num_events cut-off, get_bin glue.  "
        "LIST-MODE OBJECTIVE (last clause): the real PoissonLogLikelihoodWithLinearModelForMeanAndListModeDataWithProjMatrixByBin driven in memory "
        "(set_input_data with the synthetic ListModeData, set_proj_matrix(ProjMatrixByBinUsingRayTracing, random symmetry switches), set_additive_proj_data_sptr "
        "(TOF-dependent values) on/off, BinNormalisationFromProjData / trivial, set_max_segment_num_to_process, 1..num_views subsets, frame_defs + 'time frame number' and "
        "'num_events_to_use' through the object's keymap, no cache files / cache files with 1,2,3,5,7,n/2,n,n+1,1000 events per batch) on generated geometries "
        "(8/12/16 detectors, 1-3 rings, span 1/3, view mashing, trimmed tangential range, non-TOF and 3/5/7 TOF bins, 5x5 / 7x7 voxel images), streams of the generator above "
        "with monotone time marks.  For every subset: compute_sub_gradient_without_penalty, ..._plus_sensitivity, get_subset_sensitivity, "
        "accumulate_sub_Hessian_times_input_without_penalty, compute_objective_function_without_penalty at two images, and compute_gradient_without_penalty.  ORACLE (harness): "
        "(i) the same events histogrammed by the real LmToProjData (prompts only, same frame / same num_events, same processed segments; histogram == independent count) are given to "
        "the real PoissonLogLikelihoodWithLinearModelForMeanAndProjData with the same matrix type, additive term and normalisation; gradient plus sensitivity, subset "
        "sensitivity and Hessian product are compared per subset and voxel (both classes put a bin into the subset of the view of its basic bin under the symmetries of the "
        "matrix), the gradient including the sensitivity term per subset and in total for non-TOF data (for TOF data the projection-data class back projects the sensitivity "
        "term TOF bin by TOF bin while the list-mode class uses the non-TOF back projection: only equal if the TOF bins cover the kernel); tolerance 2*4*n*2^-24*sum|terms|, "
        "n = longest row + contributions to the voxel + 10; (ii) textbook expressions in double on explicit rows from the event list; (iii) another cache size gives the same "
        "result; (iv) histories: configure, set_up, compute, change stream / frame number / frame definitions / cache size / additive term / number of subsets back to the "
        "reference configuration, set_up: bitwise equal to a fresh object; (v) value differences between two images against sum of logs - sensitivity.image.  "
        "CORRESPONDENCE: one `lmgps` line per subset = gradient plus sensitivity of the real class against the Lean model (lmEvents/lmContribs: event selection by frame and "
        "ranges, batches, subset test, back projection of 1/(row.image+additive)) evaluated exactly in Rat on the rows, additive values and basic views of the real matrix, "
        "bound 4*n*2^-24*sum|terms|.  Runs in which a known class of defect (stable key) is detected are reported and not compared with the model.  distinct = distinct op lines.",
        extra)
    chk.assumptions += [
        "event -> bin map (get_bin_for_det_pos_pair) is data for this property (C01)",
        "time marks are integer milliseconds (ListTime unit) and frame boundaries are k/1000. (comparison of the doubles = comparison of the integers)",
        "records are either a time mark or an event (combined records as in CListRecordROOT are not exercised)",
        "normalisation is the default TrivialBinNormalisation; counts < 2^24 (float exact)",
        "num_segments_in_memory / num_TOF_bins_in_memory >= 1 or -1 (0 and other negative values make process_data loop forever: not run)",
        "list-mode objective: matrix rows, additive values and the view of the basic bin are data taken from the real ProjMatrixByBinUsingRayTracing / ProjData (C03/C04/C02); "
        "images strictly positive (the max_quotient thresholds of the projection-data class are C05's subject); floating point rounding is not modelled (forward error bound); "
        "the sensitivity, the Hessian product and the value are compared on the implementation only (no Lean model); builds with OpenMP / MPI are not run; "
        "cache files are written to and read from a scratch directory (recompute_cache = true; re-use of old cache files is not exercised)",
    ]
    if audit:
        vlib.proof_coverage(chk, audit, "cd lean && lake build StirVerif.C14.Props Driver.C14 && lake env lean ../build/out/Audit_C14.lean")
    return chk.finish()
