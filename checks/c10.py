"""C10 — image files round-trip voxel positions, values and exam information."""
import os
from fractions import Fraction
import vlib

PROP = "C10"

EPS_FMT = Fraction(501, 100000000)      # decimal formatting with 6 significant digits: relative error <= 5e-6
EPS_F = Fraction(1, 2 ** 24)            # binary32 unit round-off
TINY = Fraction(1, 2 ** 149)            # smallest binary32 subnormal


def num(tok):
    """exact value of a token: C99 hex float, decimal, integer or p/q"""
    t = tok.strip()
    if "/" in t:
        return Fraction(t)
    if "x" in t or "X" in t:
        return Fraction(float.fromhex(t))
    return Fraction(t)


def close(a, b, rel, absolute=0):
    return abs(a - b) <= rel * max(abs(a), abs(b)) + absolute


def compare(op, impl, model):
    """derived tolerances (see evidence `rule`): the model is exact rational arithmetic, the implementation works in
    binary32/binary64 and prints header numbers with 6 significant digits"""
    if impl == model:
        return True
    kind = op.split(" ", 1)[0]
    a, b = impl.split(), model.split()
    try:
        if kind == "whdr":
            if len(a) != 9 or len(b) != 9 or a[:3] != b[:3]:
                return False
            o = op.split()
            mins, vox, org = [int(x) for x in o[1:4]], [num(x) for x in o[7:10]], [num(x) for x in o[10:13]]
            for k in range(3):           # header order x, y, z  <->  op order z, y, x
                d = 2 - k
                if not close(num(a[3 + k]), num(b[3 + k]), EPS_FMT):
                    return False
                # first pixel offset: one float multiplication and one addition, then 6 significant digits
                noise = 4 * EPS_F * (abs(vox[d] * mins[d]) + abs(org[d]))
                if abs(num(a[6 + k]) - num(b[6 + k])) > EPS_FMT * abs(num(b[6 + k])) + noise:
                    return False
            return True
        if kind == "rhdr":
            if len(a) != 12 or len(b) != 12 or a[:6] != b[:6]:
                return False
            o = op.split()
            vox = [num(x) for x in o[4:7]]       # x y z
            fpo = [num(x) for x in o[7:10]]
            for k in range(3):                   # answer order z, y, x
                hv = vox[2 - k]
                if not close(num(a[6 + k]), num(b[6 + k]), 2 * EPS_F):      # double -> float
                    return False
                mn = int(b[k])
                noise = 4 * EPS_F * (abs(fpo[2 - k]) + abs(hv * mn))
                if abs(num(a[9 + k]) - num(b[9 + k])) > noise:
                    return False
            return True
        if kind == "fsf":
            return close(num(impl), num(model), 2 * EPS_F, TINY)
        if kind == "conv":
            ia, ib = impl.split("|"), model.split("|")
            if len(ia) != 2 or len(ib) != 2:
                return False
            # header scale factor (6 significant digits) against the exact one (float rounding of the cast)
            if not close(num(ia[0]), num(ib[0]), EPS_FMT + 2 * EPS_F, TINY):
                return False
            ca, cb = ia[1].split(), ib[1].split()
            if ca == ["fail"] or cb == ["fail"]:
                return ca == cb
            if len(ca) != len(cb):
                return False
            real = op.split()[1] in ("f32", "f64")
            for x, y in zip(ca, cb):
                if y == "ub":            # undefined behaviour in stir::round: any stored number is "right"
                    continue
                if real:
                    if not close(num(x), num(y), 2 * EPS_F if op.split()[1] == "f64" else 0, TINY):
                        return False
                elif ".." in y:
                    lo, hi = y.split("..")
                    if not (int(lo) <= int(x) <= int(hi)):
                        return False
                elif int(x) != int(y):
                    return False
            return True
        if kind in ("exam", "exams", "examf", "examm"):
            if len(a) != len(b):
                return False
            for i, (x, y) in enumerate(zip(a, b)):
                if i in (0, 1, 2, 6, 9):     # modality, orientation, rotation, radionuclide name, number of frames
                    if x != y:
                        return False
                elif not close(num(x), num(y), 2 * EPS_FMT + 2 * EPS_F, Fraction(1, 10 ** 9)):
                    return False
            return True
    except (ValueError, ZeroDivisionError, IndexError):
        return False
    return False


def main(tier, replay):
    if replay:
        for l in open(replay):
            if l.startswith("# seed="):
                os.environ["VERIF_SEED"] = l.split("seed=")[1].split()[0]
                tier = l.split("tier=")[1].split()[0]
    chk = vlib.Check(PROP, tier, level="proof")
    audit = vlib.lean_gate(chk, PROP)
    stats = vlib.run_differential(chk, PROP, "c10_imageio", tier, compare=compare)
    cover = {}
    of = os.path.join(vlib.OUT, "c10_%s.impl.oracle" % tier)
    if os.path.exists(of):
        for l in open(of):
            if l.startswith("COVER "):
                _, k, v = l.split()
                cover[k] = int(v)
    registry = sorted(k[len("registry:"):] for k in cover if k.startswith("registry:"))
    exercised = {"image:Interfile", "dynamic:Interfile", "dynamic:Multi", "parametric:Interfile", "parametric:Multi"}
    not_exercised = [r for r in registry if r not in exercised]
    vlib.standard_coverage(chk, stats,
        "SINGLE IMAGES: real InterfileOutputFileFormat (setters / parsed parameters / default_sptr / write_to_file) + read_from_file<DiscretisedDensity<3,float>> "
        "on generated images: every NumericType (10) x ByteOrder (2) x scale_to_write_data setting (automatic, too small, larger than needed, absolute, 1/4 with exact ties) "
        "x value distributions (mixed sign, positive, all-zero, all-negative, single voxel, integers, 1e30, 1e-25, non-positive, constant, half-steps), random index ranges "
        "(minima -9..9, sizes 1..9, thorough 1..12), voxel sizes and origins (short decimals and arbitrary floats), exam information with 0, 1 or (1 case in 4) 2-3 time "
        "frame definitions attached. CONTAINERS: DynamicDiscretisedDensity and ParametricVoxelsOnCartesianGrid through InterfileDynamic/InterfileParametric/MultiDynamic/"
        "MultiParametric output formats, set up by setters / parse() / the registry by registered name / default_sptr and write_to_file(): every NumericType x requested "
        "ByteOrder (the Interfile container formats are fixed to the native order and must say so and announce it; the members of a Multi image are written in the requested "
        "order) x the 5 scale settings, 2-3 (thorough 2-4) members each with a value distribution of its own drawn from all 11 kinds (the first member cycles through them), "
        "all modalities. FAULT STREAM: the data file truncated at every length (small files) / at the data-set boundaries +-1 element and a sample of lengths: single images, "
        "the data file of every Interfile container (also NM) and the data file of EVERY member of every Multi image. "
        "Operations (one line each, answered by the implementation from the files it wrote/read and by the Lean model): whdr = geometry keys of a header (every header of a "
        "container), rhdr = index range/origin of an image or member read back, fsf = stir::find_scale_factor, conv = header scale factor + numbers stored in the data file "
        "(every data set of every container, decoded with the byte order the header announces), offs = data offsets announced for the data sets of an Interfile container, "
        "trunc / ctrunc / mtrunc = read_from_file on a truncated single image / Interfile container (all data sets, dynamic-or-parametric and NM flags) / Multi image (length of every member file), "
        "exam = exam information of an Interfile container, exams = of a single image or Multi member (read_interfile_image keeps the first time frame), examf = of member f "
        "of a dynamic Interfile image, examm = of a Multi dynamic image assembled from its members. Comparison: integers, ranges, offsets, error tokens exact; "
        "header decimals within 5.01e-6 relative (6 significant digits) + 4*2^-24*sum|terms| for the float operations; scale factors within 2*2^-24 relative; "
        "stored integers n must satisfy |n - x/s| <= 1/2 + 2^-22(|x/s|+1) (quotient and +0.5 computed in binary32); `ub` (model: undefined behaviour in "
        "stir::round, or quotient within that rounding error of 2^31) accepts anything. Oracle (on the implementation, every case and EVERY MEMBER of every container): "
        "per-voxel get_physical_coordinates_for_indices before = after within (printed header error + 8*2^-24*sum|terms|); float output bit-exact; double output within "
        "(5.01e-6 + 4*2^-24)|x|, also stored double x header scale; integer output |x' - x| <= s/2 + (5.01e-6 + 8*2^-24)|x| with s the header's scale factor, value/s inside "
        "the type's range, stored number = rounded quotient; negative -> 0 for unsigned (stored and read back); exam information field by field (modality, patient position, "
        "radionuclide, energy window, calibration factor, time frames, start time) for the container AND each member; truncated files rejected, complete files accepted. "
        "Known findings are absorbed only for exactly their class: stir::round/int32 only for the voxels whose quotient |x/s| (+ its 5.01e-6 uncertainty) reaches 2^31 - "
        "every other voxel of uint/long/ulong output is checked strictly; the NM data-offset finding only for PARAMETRIC Interfile images and only when the parameter read back equals "
        "parameter 1's stored numbers times its own scale factor, resp. (truncation) when a file holding one data set is accepted - stored numbers, offsets, geometry and "
        "exam information of NM containers are checked in any case, and dynamic NM images are checked strictly (repaired in /repo by 0e66b8adc: the model's dynamic reader lets "
        "a frame without a parsed offset follow the previous one); DOUBLE autoscale only when the header scale is 0 and zeros come back; subnormal float scale factor (64-bit output of ~1e-25 values) only for the "
        "range clause. distinct = distinct operation lines.",
        extra=dict(input_histogram=cover, output_formats_registered_in_this_build=registry, registered_formats_not_exercised=not_exercised))
    chk.assumptions += ["decimal formatting of header numbers (operator<< with 6 significant digits, strtod) is an abstract rounding with relative error <= 5e-6",
                        "binary32/64 rounding of individual operations is not modelled (derived tolerances), except float underflow of the scale factor to 0 "
                        "(subnormal scale factors: tolerance 2^-149)",
                        "istream::read sets failbit iff fewer bytes remain than requested; file system behaves",
                        "RadionuclideDB answers are inputs of the model", "32-bit overflow of index arithmetic not modelled",
                        "byte order: the harness decodes the data file with the order the header announces; byte swapping itself is not modelled in Lean",
                        "image output formats registered in this build: %s (ITK, ECAT6/7 are not built: HAVE_ITK / HAVE_LLN_MATRIX undefined); only these are exercised"
                        % ", ".join(registry)]
    if not_exercised:
        chk.assumptions.append("NOT COVERED: registered output formats that this check does not exercise: " + ", ".join(not_exercised))
    if audit:
        vlib.proof_coverage(chk, audit, "cd lean && lake build StirVerif stirdriver && lake env lean ../build/out/Audit_C10.lean")
    return chk.finish()
