"""C07 — OSMAPOSL sub-iterations follow the EM update and are restartable."""
import os
from fractions import Fraction
import vlib

PROP = "C07"

# Derived tolerance for one voxel of one sub-iteration (images are re-synchronised to the implementation after every
# sub-iteration, so nothing compounds).  Longest float path: pg/n (1), + s (1), s*10 / s/10 (1), divide (1), product with
# lambda (1), threshold constants 0.1F / 1e-6F vs 1/10 / 10^-6 (1) = 6 roundings of 2^-24 each, where the rounding of pg/n
# is amplified by at most |pg/n| / d <= 11 s / (s/10) = 110 inside the clamp range (outside it both sides clamp to the same
# bound).  (110 + 6) * 2^-24 < 2^-17; we allow 2^-16 relative plus 2^-148 absolute (float denormals).
REL = Fraction(1, 2 ** 16)
ABS = Fraction(1, 2 ** 148)
FLT_MAX = Fraction(int(float.fromhex("0x1.fffffep+127")))


def _impl_value(tok):
    try:
        return float.fromhex(tok)
    except ValueError:
        return None


def _match_one(x, m):
    """x: implementation float; m: model token `p/q`, inf, -inf, nan; `p/q~e`: gradual underflow, absolute error bound e
    (a thresholded voxel below FLT_MIN is a denormal float: absolute error 2^-149, amplified by the update factor)."""
    extra = Fraction(0)
    if "~" in m:
        m, e = m.split("~", 1)
        try:
            extra = Fraction(e)
        except (ValueError, ZeroDivisionError):
            return False
    if m == "nan":
        return x != x
    if m in ("inf", "-inf"):
        return x == float(m)
    try:
        q = Fraction(m)
    except (ValueError, ZeroDivisionError):
        return False
    if x != x:
        return False
    if x in (float("inf"), float("-inf")):
        # float overflow of a finite product: accept iff the exact value is beyond FLT_MAX
        return abs(q) >= FLT_MAX * (1 - REL) and (q > 0) == (x > 0)
    return abs(Fraction(x) - q) <= REL * abs(q) + ABS + extra


def compare(op, impl, model):
    kind = op.split(" ", 1)[0]
    if kind == "emx":
        # numerator and sensitivity are formed by the model from the explicit system matrix: n float operations per voxel
        # (longest row + longest column + 16, token 7 of the op), all terms non-negative: forward error bound 4 n 2^-24 |value|
        a, b = impl.split(), model.split()
        try:
            rel = Fraction(4 * int(op.split(" ", 8)[6]), 2 ** 24)
        except (ValueError, IndexError):
            return False
        if len(a) != len(b) or not a:
            return False
        for x, m in zip(a, b):
            xv = _impl_value(x)
            try:
                q = Fraction(m)
            except (ValueError, ZeroDivisionError):
                return False
            if xv is None or xv != xv or xv in (float("inf"), float("-inf")):
                return False
            if abs(Fraction(xv) - q) > rel * abs(q) + ABS:
                return False
        return True
    if kind not in ("upd", "eoi", "setup", "uimg", "post", "init", "flt", "dvt"):
        return impl == model
    # (`post` of the filter stream, section C: the user's post-filter may end with a thresholding member, which the model computes)
    if kind == "init" or (kind == "post" and " C " not in op):      # no arithmetic between the observation and the answer: exact
        a, b = impl.split(), model.split()
        try:
            return len(a) == len(b) and bool(a) and all(Fraction(float.fromhex(x)) == Fraction(m) for x, m in zip(a, b))
        except (ValueError, ZeroDivisionError, OverflowError):
            return False
    a, b = impl.split(), model.split()
    if len(a) != len(b) or not a:
        return False
    for x, m in zip(a, b):
        if m == "*":      # non-zero / 0: inconsistent data, not constrained (see lean/Driver/C07.lean)
            continue
        xv = _impl_value(x)
        if xv is None:
            return False
        if not any(_match_one(xv, alt) for alt in m.split("|")):
            return False
    return True


def main(tier, replay):
    if replay:
        for l in open(replay):
            if l.startswith("# seed="):
                os.environ["VERIF_SEED"] = l.split("seed=")[1].split()[0]
                tier = l.split("tier=")[1].split()[0]
    chk = vlib.Check(PROP, tier, level="proof")
    audit = vlib.lean_gate(chk, PROP)
    stats = vlib.run_differential(chk, PROP, "c07_osmaposl", tier, compare=compare)
    cov = {}
    of = os.path.join(vlib.OUT, "c07_%s.impl.oracle" % tier)
    if os.path.exists(of):
        for l in open(of):
            if l.startswith("COVERAGE "):
                _, k, v = l.split()
                cov[k] = int(v)
    vlib.standard_coverage(chk, stats,
        "real stir::OSMAPOSLReconstruction<DiscretisedDensity<3,float>> (public API: set_up / reconstruct one sub-iteration at a time) on generated "
        "problems (8-16 detectors, 2-4 rings, span 1 and span 3, view mashing 1 and 2, non-TOF and time-of-flight data (15 TOF bins mashed to 3 or 5), "
        "images 5-7 across, ray-tracing matrix with all symmetry switches, Poisson data, additive on/off, "
        "normalisation on/off (non-TOF), subset/total sensitivities, none/quadratic/RDP prior x additive/multiplicative MAP, relative-change clamps, "
        "inter-update/inter-iteration filters, post-filter, every number of subsets the library accepts, start subset, enforce_initial_positivity "
        "on/off, `zero end planes of segment 0` off/on (set_zero_seg0_end_planes and the parameter-file keyword; 1 and several subsets, with/without "
        "additive term and normalisation, span 1 / span 3 / view mashing / TOF), sensitivities computed / written to / read from files "
        "(recompute sensitivity, sensitivity filename, subset sensitivity filenames: setters and keywords)); "
        "a FILTER stream (round 4): user filters that are real registered data processors (Separable Gaussian, Separable Convolution with sharpening kernels "
        "[-a 1+2a -a], Separable Cartesian Metz, Median, Minimal, Truncate To Cylindrical FOV, Threshold Min To Small Positive Value, the harness-defined filter) "
        "alone and as the USER'S OWN ChainedDataProcessor objects (2 and 3 and more members, smoothing+sharpening in both orders, chains that hold a thresholding "
        "member already, nested chains, chains with a null member) in the inter-update, the inter-iteration and the post-filter slot, given through the setters "
        "AND parsed from parameter files (`inter-update filter type := Chained Data Processor` ...), on objects whose set_up() is called 1, 2 or 3 times in a row, "
        "with/without prior and relative-change clamps: every sub-iteration is an `upd` (+ `eoi`, `post`) operation whose section C gives the number of set_up "
        "calls and the slot's content (u = user filter, t = thresholding, c X Y = chain, n = null) and one F section per member filter (what that member, as an "
        "object of its own, returned: data); the Lean model wraps the slot as OSMAPOSLReconstruction::set_up does - once per call, whatever the content - and "
        "applies the resulting object (Slots.setUpN, updateEstimateS, endOfIterationS; post-filter: not wrapped); `flt`: the data processors on their own "
        "(ChainedDataProcessor / ThresholdMinToSmallPositiveValueDataProcessor made by constructors or parsed, images with zeros, negatives, nothing positive) "
        "against Filt.apply; `dvt`: divide_and_truncate through the public function on related viewgrams of the geometry (all-zero viewgrams: 0/0, zero and "
        "negative denominators, zero / tiny / negative numerators, regular values) against divideAndTruncate (both branches within 2^-20 of a threshold); "
        "plus a synthetic stream through the class's virtual hooks (zeros, tiny values, negatives, values around every clamp). Per "
        "sub-iteration: image before + the real objective function's subset gradient-plus-sensitivity, subset sensitivity, prior gradient (hex "
        "floats, data) -> image after; the Lean model recomputes the image after exactly in Rat; comparison per voxel |impl - model| <= 2^-16 "
        "|model| + 2^-148 (6 float roundings, the one of prior_gradient/num_subsets amplified <= 110x inside the clamp range [s/10,10s]); both "
        "branches accepted where a comparison with the float threshold of stir::divide is within 2^-20; gradual underflow: where the thresholded (filtered) "
        "value of a voxel is below FLT_MIN = 2^-126 the implementation holds a denormal float (absolute error 2^-149) and the model's answer carries the absolute "
        "bound |update factor| 2^-149 + 2^-148. Further operations answered by the model: "
        "`uimg` the image written by write_update_image (same tolerance), `post` what is saved as iterate k of a run with a post-filter (exact: "
        "filtered at k = num_subiterations only), `init` get_initial_data_ptr for initial estimate 0 / 1 / file (exact), `bal` acceptance of every "
        "number of subsets 1..views+1 by set_up (balanced subsets: projector symmetries as requested, views, TOF, view-mashing phi offset), `chk` "
        "parameter ranges; `mat`/`dat`/`emx` (non-TOF geometries): the explicit system matrix and the data per bin are handed to the model, which "
        "forms numerator AND sensitivity of a plain-EM sub-iteration itself (emExplicit: bins of the subset, segments to process, the three "
        "viewgrams of the first/last sinogram of segment 0 zeroed when `zero end planes of segment 0` is on) and answers 24 voxels of the image "
        "after; tolerance 4 n 2^-24 relative, n = longest row + longest column + 16 float operations, all terms non-negative. "
        "distinct = distinct op lines. Oracle on the implementation: textbook EM formula from the explicit system matrix (TOF: "
        "s_S of the non-TOF matrix, STIR's default, or of the TOF matrix; with `zero end planes of segment 0` the matrix without the rows of the "
        "first and last sinogram of segment 0 for numerator, sensitivity, counts and log-likelihood alike), non-negativity, count preservation, monotone log-likelihood, MAP "
        "denominator bounds, stepwise = uninterrupted run (bitwise; with a post-filter: called once, at the last sub-iteration, on the last "
        "iterate, all other saved iterates untouched), save intervals, re-used objects, a run with report_objective_function_values_interval > 0 "
        "and write_update_image = bitwise the run without them (and image_k = image_{k-1} * limited written update, bitwise), restart at every k "
        "from the saved Interfile image (bitwise, post-filter included), the same restart and runs from initial estimate 0 / 1 driven by "
        "PARAMETER FILES (OSMAPOSLReconstruction(parfile) + no-argument reconstruct(): initial estimate, start at subiteration number, objective "
        "function / projector / prior / normalisation parsed from Interfile copies of the data) = bitwise the in-memory path, "
        "sensitivity files (written file(s) = bitwise the sensitivity in use; a run reading them = bitwise the run computing them; files holding "
        "twice the sensitivity are the sensitivity in use), "
        "filter stream: non-negativity after every sub-iteration with the user's filters on (NaN-aware: !(v >= 0) fails), strictly positive image after a fired "
        "inter-iteration filter, repeated set_up leaves the start image alone, stepwise run = uninterrupted run of an object made the OTHER way (setters <-> "
        "parameter file; bitwise, the post-filtered last iterate bitwise the user's post-filter members applied one by one), one restart point per case (bitwise); "
        "viewgram space: every quotient of divide_and_truncate is a number in [0, 10^4] (NaN-aware), exactly 0 for a bin without counts (0/0 included), y/ybar on the "
        "regular region, finite log-likelihood contribution; all non-negativity / positivity / finiteness tests of the harness are NaN-aware (a NaN is a failure); "
        "enforce_initial_positivity both ways (known finding restart:enforce-initial-positivity-lifts-exact-zeros: option on + exact zeros in the "
        "saved image; there the same restart point with the option off must be bitwise equal and the deviating run must be bitwise the run from "
        "the lifted image). Known finding em-formula:tof-subset-sensitivity-by-symmetries-of-non-tof-projector: TOF data, > 1 subset, subset "
        "sensitivities, view symmetries requested: the sensitivity subset differs from the data subset; pinned from both sides (the implementation "
        "must then be exactly data-subset numerator / that other sensitivity). Known finding em-formula:tof-voxels-seen-by-tof-matrix-only-have-sensitivity-0: "
        "TOF data, view symmetries requested, image wider than the field of view: edge voxels seen by the TOF matrix only have sensitivity 0 and a "
        "positive numerator and become inf, also with one subset; pinned: every non-finite voxel must have s = 0 in the implementation and in the "
        "explicit non-TOF matrix, a positive numerator and a positive sensitivity in the explicit TOF matrix.",
        extra=dict(input_distribution=cov))
    chk.assumptions += ["float rounding, overflow/underflow and signed zeros are not modelled (exact Rat + derived tolerance)",
                        "subset gradient-plus-sensitivity, subset sensitivities, prior gradient and user filters (inter-update, inter-iteration, post) are data for the model (C05/C09), except in the `emx` operations where the model forms numerator and sensitivity from the explicit system matrix (its elements are data: C04) on the regular region of divide_and_truncate",
                        "randomised subset order excluded (C06)",
                        "what a member filter (Gaussian, convolution, Metz, median ...) does to an image is data for the model (C09), taken from a separate object of that member made the same way (constructor or parsed); in the real / restart streams the user filters are harness-defined DataProcessors set through the setters also on objects made from a parameter file, in the filter stream they are registered processors and user chains by setters and by parameter file; Nonseparable Convolution Using Real DFT and HUToMu are not exercised as filters; filter-stream cases on TOF data end without verdict at a step of the two pinned TOF classes (sensitivity 0 with a positive numerator: judged by the real stream); NaN produced in VIEWGRAM space inside the objective function (other than by divide_and_truncate, which has its own oracle) is invisible in image space with matrix back projectors (NaN viewgram values are skipped as zeros under -ffast-math) and is the business of C05; TOF data without normalisation and with the default `use time-of-flight sensitivities := 0` only; `sensitivity filename := 1` (sensitivity forced to 1) not exercised; a real step that turns a finite non-negative image into a non-finite one is judged (ORACLE-FAIL unless it is one of the two pinned TOF classes: known findings em-formula:tof-subset-sensitivity-by-symmetries-of-non-tof-projector and em-formula:tof-voxels-seen-by-tof-matrix-only-have-sensitivity-0) and ends its case; steps from images with negative values or near overflow that become non-finite end their case without verdict; zoom 1; parametric images, MPI, KOSMAPOSL not covered",
                        "resuming from the post-filtered LAST image of a finished run is not a restart in the sense of the property (k < num_subiterations)"]
    if audit:
        vlib.proof_coverage(chk, audit, "cd lean && lake build StirVerif stirdriver && lake env lean ../build/out/Audit_C07.lean")
    return chk.finish()
