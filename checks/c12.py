"""C12 — bin coordinates, lines of response and detector positions agree."""
import math, os, struct
import vlib

PROP = "C12"

# Float comparison rule: the harness prints every float exactly (%a); the Lean model answers `<value bits>:<magnitude bits>`
# (binary64).  |impl - model| <= C * 2^-24 * magnitude, with C per operation kind (number of binary32 operations on the
# longest path x 4, plus the transcendental calls); `arc`/`det`/`dpos`/`blor` involve binary32 coordinates (R*sin, rounding of
# crystal positions to 0.001 mm) whose error is relative to the ring radius, hence the larger constants.
C_KIND = {"coord": 64.0, "lor": 64.0, "tofb": 64.0, "det": 256.0, "ovl": 64.0, "arc": 8192.0, "dpos": 64.0, "blor": 4096.0,
          "lc2n": 64.0, "lnmk": 64.0, "ln2c": 64.0, "acsu": 1.0, "acrow": 8192.0}


def _f(bits):
    return struct.unpack("<d", struct.pack("<Q", int(bits)))[0]


def _close(kind, impl_tok, model_tok):
    try:
        x = float.fromhex(impl_tok)
        vb, mb = model_tok.split(":")
        v, m = _f(vb), _f(mb)
    except Exception:
        return False
    if math.isnan(x) or math.isnan(v):
        return False
    return abs(x - v) <= C_KIND[kind] * 2.0 ** -24 * abs(m) + 1e-30


def _floats_ok(kind, a, b, skip=0):
    ta, tb = a.split(), b.split()
    if len(ta) != len(tb):
        return False
    for i, (x, y) in enumerate(zip(ta, tb)):
        if i < skip or ":" not in y:
            if x != y:
                return False
        elif not _close(kind, x, y):
            return False
    return True


def compare(op, impl, model):
    kind = op.split(" ", 1)[0]
    if impl == model:
        return True
    if kind in ("rt", "rtx", "fbin"):
        # the model lists every result that a correctly rounded nearest-detector search may return (ties of the rounding)
        cands = [c.strip() for c in model.split("|")]
        return impl in cands
    if kind in ("coord", "tofb", "dpos", "ovl", "arc", "acsu", "acrow"):
        return _floats_ok(kind, impl, model)
    if kind == "det":
        return _floats_ok(kind, impl, model, skip=1)
    if kind == "ln2c":
        # z1 psi1 z2 psi2 ; angles modulo 2 pi (an angle of exactly 0 may come out as 2 pi - rounding error)
        if _floats_ok(kind, impl, model):
            return True
        try:
            ta = impl.split()
            for d1 in (0.0, 2 * math.pi, -2 * math.pi):
                for d2 in (0.0, 2 * math.pi, -2 * math.pi):
                    alt = " ".join([ta[0], (float.fromhex(ta[1]) + d1).hex(), ta[2], (float.fromhex(ta[3]) + d2).hex()])
                    if _floats_ok(kind, alt, model):
                        return True
        except Exception:
            pass
        return False
    if kind in ("lor", "blor", "lc2n", "lnmk"):
        if _floats_ok(kind, impl, model):
            return True
        # the same line in the other representation: phi -> phi +- pi reverses beta/s/tan(theta), exchanges z1,z2, toggles `swapped`
        try:
            ta, tb = impl.split(), model.split()
            if kind in ("lor", "lc2n", "lnmk"):
                z1, z2, phi, beta, sw = ta
                phi_m = _f(tb[2].split(":")[0])
                phi_i = float.fromhex(phi)
                if abs(abs(phi_i - phi_m) - math.pi) > 1e-4:
                    return False
                neg = lambda h: (-float.fromhex(h)).hex()
                alt_phi = (phi_i + (math.pi if phi_m > phi_i else -math.pi)).hex()
                alt = " ".join([z2, z1, alt_phi, neg(beta), "1" if sw == "0" else "0"])
                return _floats_ok(kind, alt, model)
            s, phi, m, tt = ta
            phi_m = _f(tb[1].split(":")[0])
            phi_i = float.fromhex(phi)
            if abs(abs(phi_i - phi_m) - math.pi) > 1e-4:
                return False
            neg = lambda h: (-float.fromhex(h)).hex()
            alt_phi = (phi_i + (math.pi if phi_m > phi_i else -math.pi)).hex()
            return _floats_ok(kind, " ".join([neg(s), alt_phi, m, neg(tt)]), model)
        except Exception:
            return False
    return False


def main(tier, replay):
    if replay:
        for l in open(replay):
            if l.startswith("# seed="):
                os.environ["VERIF_SEED"] = l.split("seed=")[1].split()[0]
                tier = l.split("tier=")[1].split()[0]
    chk = vlib.Check(PROP, tier, level="proof")
    audit = vlib.lean_gate(chk, PROP)
    stats = vlib.run_differential(chk, PROP, "c12_coordinates", tier, compare=compare)
    vlib.standard_coverage(chk, stats,
        "real ProjDataInfoCylindricalNoArcCorr/ArcCorr, ProjDataInfoBlocksOnCylindricalNoArcCorr, ProjDataInfoGenericNoArcCorr, LORCoordinates, "
        "DetectorCoordinateMap, ProjDataInfo TOF table, overlap_interpolate, ArcCorrection on ALL predefined scanners (enumerated through "
        "Scanner::Type; non-arc-corrected and arc-corrected; seeded span / view mashing / TOF mashing) + generated cylindrical scanners "
        "(random radius, spacing, tilt, spans odd/even, mashing, TOF) + generated blocks-on-cylindrical and generic (crystal-map file) scanners, "
        "also with TOF (set_tof_mash_factor) and span 3 + constructor-rejected configurations.  Oracle (C++, double): for every selected bin (all "
        "bins of small geometries; ends, neighbours of ends, 0 and a seeded sample per index for large ones) the property's clauses: "
        "get_LOR->get_bin round trip -- for a third of the bins also with the SAME LINE handed to get_bin as LORInCylinderCoordinates, "
        "LORInAxialAndSinogramCoordinates, LORAs2Points on the cylinder, LORAs2Points moved along the line (-2/8..8/8 of the chord at either end) and "
        "the four reversed forms (TOF bin must change sign); without rounding ties the answers must be identical --, line through the physical "
        "detector positions of every contributing detector pair vs get_s/get_phi/get_m/get_tantheta (every TOF bin), every (detector pair, "
        "unmashed timing position) of a TOF bin maps back to the bin, opposite TOF bins have exchanged detection coordinates, detector pairs -> "
        "Cartesian coordinates (also moved outwards) -> find_scanner_coordinates_given_cartesian_coordinates / "
        "find_bin_given_cartesian_coordinates_of_detection give the detectors / the bin back (cylindrical and blocks), arc-corrected bins have the "
        "angles / axial position / obliqueness of the detector-based geometry of the same scanner, antisymmetry/monotonicity, uniform sampling, TOF "
        "table (cylindrical, blocks, generic), arc correction of uniform/random rows; the six ArcCorrection overloads (Sinogram, Viewgram, "
        "RelatedViewgrams with Cartesian-grid symmetries, SegmentBySinogram, SegmentByView, ProjData; value-returning and in-place forms) on "
        "multi-ring, view-mashed, span-3 and TOF data must equal the sinogram-by-sinogram result bit for bit; ONE ArcCorrection object re-used: "
        "histories set_up(A) -> use -> set_up(B) -> use -> A -> C -> B on the same object, B/C differing from A in exactly one of ring radius, "
        "detectors per ring (angular increment) with the same tangential range, tangential range, default bin size (also 0 = central bin size), "
        "set_up overload (all three) / requested size and bin size, rings/span; after every set_up the re-used object must report the geometries of, "
        "and give bit for bit the rows of, a FRESH object set up with the same arguments (every do_arc_correction overload: Sinogram, Viewgram, "
        "RelatedViewgrams, SegmentBySinogram, SegmentByView, ProjData; value-returning and in-place), the integral / uniform-to-uniform oracles run on "
        "its rows, set_up(proj_data_info) must choose 2 ceil(max_s / bin size) + 1 positions, and the Lean model answers the history as a state machine "
        "(`acnew`/`acsu`/`acrow`: the driver keeps the cached box edges of the object between lines; `acsu` = arc-corrected range and sampling derived "
        "by the overload, exact); ProjDataInfo objects whose lazily computed axial tables / TOF bin table already exist and that are then changed "
        "(reduce_segment_range, set_ring_spacing there and back, set_tof_mash_factor twice; cylindrical arc-corrected and not, span 1/3, TOF) must "
        "report bit for bit the coordinates (get_s/phi/m/t/tantheta/k, samplings, TOF boundaries) of a fresh object of the final geometry (oracle only); "
        "LOR representation changes "
        "(constructors, change_representation, get_intersections_with_cylinder between all four LOR types, also from stretched points) must keep "
        "the directed line.  Operation lines (a seeded subset of those bins + TOF table + crystal positions + overlap_interpolate/ArcCorrection "
        "rows + LOR conversions on a grid of pi/64) are answered by the Lean model and compared: integers and bins exactly (`rt`/`rtx`/`fbin`: "
        "membership in the model's set of admissible nearest-detector roundings; `rtx` = the other LOR representations, modelled through explicit "
        "cylinder/sinogram conversions), floats with |impl-model| <= C*2^-24*magnitude, the model supplying the magnitude (sum of |terms| x "
        "conditioning of sqrt(R^2-s^2)); C = " + repr(C_KIND) + ". distinct = distinct operation lines.")
    chk.assumptions += ["32-bit overflow not modelled", "binary32 rounding inside STIR is bounded, not modelled: trigonometric coordinates are recomputed in binary64 by the model",
                        "bins of arc-corrected data with |s| >= 0.995 R (outside the detector ring) are skipped",
                        "detector pairs on the same flat bucket of a blocks scanner (degenerate lines along the bucket face) are skipped",
                        "segments clipped to a single ring difference with the axial size of a compressed segment (C01 known finding) are skipped",
                        "the Lean model describes the code with the fixes docs/fixes/C12-1..8 (coincident nearest detectors -> miss; max_delta >= span/2; "
                        "TOF in arc-corrected get_bin; generic get_tantheta over the chord length; last arc-corrected box one bin wide; get_sino_coords "
                        "direction flags; arc-corrected get_bin view 2*num_views -> 0; ArcCorrection keeps the TOF mashing factor); for C12-6/C12-7 the harness "
                        "probes through the real API whether the code under test contains the fix (line `lorfix`) and the model follows it, the oracle "
                        "reporting the unrepaired behaviour as KNOWN-CANDIDATE lor:cylinder-to-sinogram-direction / arccorr:get_bin-returns-view-equal-to-num_views",
                        "LOR objects whose radius differs from the ring radius are not used (set_radius is documented as a radial scaling that does not "
                        "preserve the line); LORAs2Points off the ring radius are",
                        "blocks/generic: get_bin accepts LORAs2Points only (other LOR types: std::bad_cast) and only exact crystal positions; TOF and axially "
                        "compressed blocks/generic data are run, their failures are the known findings generic:get_bin-no-tof and "
                        "generic:no-coordinates-for-axially-compressed-bins",
                        "TOF blocks scanners: Scanner::set_up runs check_consistency (which reads max_FOV_radius) before initialise_max_FOV_radius(); the "
                        "harness first builds and drops the non-TOF twin so that the reused storage holds the right value (observation outside C12)",
                        "crystal-map look-up of ProjDataInfoGenericNoArcCorr::get_bin, overlap_interpolate/ArcCorrection on rows and all floating-point "
                        "coordinates are not theorems: correspondence (rows: exact rational model + forward error bound) and oracle only; the ArcCorrection "
                        "overloads other than Sinogram are compared with the Sinogram overload (oracle), not modelled separately",
                        "re-used ArcCorrection objects: the theorem `C12_arccorrection_reused_object_eq_fresh` is about the model's state machine, whose "
                        "set_up assigns every cached member as the C++ code does (transcription tied to the code by the `acsu`/`acrow` correspondence and "
                        "the bitwise comparison with a fresh object); non-TOF histories of five set_up calls; the number of positions chosen by "
                        "set_up(proj_data_info) is data for the model (checked by the C++ oracle against 2 ceil(max_s / bin size) + 1 in binary64)",
                        "round trip theorems are about exact angles with an arbitrary choice at rounding ties; the correspondence accepts any result in the model's candidate set"]
    if audit:
        vlib.proof_coverage(chk, audit, "cd lean && lake build StirVerif stirdriver && lake env lean ../build/out/Audit_C12.lean")
    return chk.finish()
