"""C08 — OSSPS sub-iterations follow the preconditioned relaxed update within bounds; resumable."""
import math
import os
import vlib

PROP = "C08"


def _model_tok(t):
    """`<int>p<exp>` -> float (the model's exact rational rounded to 64 bits)"""
    m, e = t.split("p")
    return math.ldexp(int(m), int(e))


def compare(op, impl, model):
    """Numeric tokens of the model are `value~bound`: the implementation's hex float must lie within `bound` of the exact
    value (plus 2^-60 relative for the 64-bit rounding of the printed exact value).  Everything else: equal strings."""
    if impl == model:
        return True
    a, b = impl.split(), model.split()
    if len(a) != len(b):
        return False
    for x, y in zip(a, b):
        if "~" in y:
            try:
                v, t = y.split("~")
                v, t = _model_tok(v), _model_tok(t)
                f = float.fromhex(x)
            except ValueError:
                return False
            if f != f or math.isinf(f):
                return False
            if not abs(f - v) <= t * (1 + 1e-9) + abs(v) * 2.0 ** -60:
                return False
        elif x != y:
            return False
    return True


def main(tier, replay):
    if replay:
        for l in open(replay):
            if l.startswith("# seed="):
                os.environ["VERIF_SEED"] = l.split("seed=")[1].split()[0]
                tier = l.split("tier=")[1].split()[0]
    chk = vlib.Check(PROP, tier, level="proof")
    audit = vlib.lean_gate(chk, PROP)
    stats = vlib.run_differential(chk, PROP, "c08_ossps", tier, compare=compare, ctx_prefixes=("cfg", "recfg"))
    info = {}
    of = os.path.join(vlib.OUT, "%s_%s.impl.oracle" % (PROP.lower(), tier))
    if os.path.exists(of):
        for l in open(of):
            if l.startswith("INFO "):
                for kv in l.split()[1:]:
                    k, _, v = kv.partition("=")
                    k2, _, v2 = v.rpartition("=")
                    if k2:          # keys like ns=3=1
                        k, v = k + "=" + k2, v2
                    try:
                        info[k] = int(v)
                    except ValueError:
                        info[k] = v
    vlib.standard_coverage(chk, stats,
        "real OSSPSReconstruction<DiscretisedDensity<3,float>> (set_up / reconstruct(target) / update_estimate / end_of_iteration_processing) with "
        "PoissonLogLikelihoodWithLinearModelForMeanAndProjData + ProjMatrixByBinUsingRayTracing on generated scanners (8-12 detectors, "
        "2-3 rings, all symmetry switches; non-TOF, or TOF with 5 bins / 9 bins mashed by 3), images 5-7 across, every number of subsets "
        "1..views, alpha/gamma/upper bound/start subset/enforce_initial_positivity varied, no prior / QuadraticPrior (default, 2D, custom "
        "weights, kappa, beta=0) / a QuadraticPrior declared image dependent (recompute branch) / refused configurations; objective "
        "function with trivial normalisation or BinNormalisationFromProjData with random factors in [0.5,2.5], zero_seg0_end_planes off/on, "
        "use_subset_sensitivities on/off (unbalanced subsets then refused by set_up), TOF data with and without `use time-of-flight "
        "sensitivities` (non-TOF sensitivity projector); reconstruction with randomise_subset_order, a real SeparableConvolutionImageFilter "
        "(smoothing 1/4,1/2,1/4 or sharpening -1/8,5/4,-1/8 in x and y) as inter-iteration filter (interval 1 or 2) and/or post filter; every "
        "run has at least one case of each kind.  The explicit system matrix (one row per bin and TOF bin, normalisation factor, zeroed flag, "
        "subset), the non-TOF sensitivity rows, data, prior weights are given to the Lean model, which recomputes in exact rationals: D0 = "
        "-H(1) (data y n^2, end planes of segment 0 left out with zero_seg0_end_planes as in the repaired code), sensitivity-zero mask, refusal of unbalanced subsets, image "
        "after set_up, every penalised sub-gradient (y/(Px+a) - 1/n, zeroed bins dropped) and surrogate curvature update_estimate obtained "
        "(`grad`, `curv`), every sub-iteration (`step`: before, gradient and curvature as returned by the real objects -> after, subset used; "
        "with a randomised order the subset is the implementation's) and what end_of_iteration_processing makes of it (`endit`: filters by "
        "interval / last sub-iteration, 3-tap convolution with zero boundary) of the uninterrupted run, of a second reconstruct() without "
        "set_up, and of runs resumed from every saved iterate with fresh objects: enforce_initial_positivity off and on, `precomputed "
        "denominator := <file written by the first set_up>`, a user supplied denominator 2 D0 + 1 from file (`setupf`), plus set_up with "
        "denominator files that are missing / have another index range, origin (0.5 mm, 1/256 mm) or voxel size (x1.5, x(1+2^-16)): refused "
        "or accepted exactly as has_same_characteristics' tolerances say.  Comparison per voxel |impl - exact| <= bound with the derived "
        "forward bounds: step 32*2^-24*(|lambda|+|update|) (8 float operations, 4*n*2^-24*sum|terms|); grad 4*2^-24*(sum_b P_bj(|q_b|((n_b+3)*"
        "M_b/|den_b|+2)+2+2/n_b+(m_j+2)|q_b-1/n_b|) + 4*PM_j/N + |g_j|) with n_b the row length, m_j the number of bins of the subset seeing "
        "voxel j, M_b = sum|P x|+|a|, PM_j the prior's sum of |terms|; D0 4*n*2^-24*D0_j with n = longest row + most bins per voxel + subsets "
        "+ 8; curvature 4*90*2^-24*c_j; filters 64*2^-24*(|taps| applied to |image|).  The model is re-synchronised to the implementation's "
        "floats after every sub-iteration.  Oracle on the implementation: iterates in [0, ub] after update_estimate, and after the filters "
        "when these are bound preserving (smoothing kernel; after the sharpening kernel iterates do leave the bounds, OSSPS does not clamp "
        "after filtering: known finding bounds:sharpening-filter-applied-after-clamp, Lean: C08_in_bounds_fails_after_sharpening_filter); "
        "D0 >= 0, bitwise equal to "
        "-add_multiplication_with_approximate_Hessian_without_penalty(ones) and equal to sum_b P_bj (P1)_b/(n_b^2 y_b) over the bins of the "
        "objective function (zeroed end planes of segment 0 excluded; the former finding denominator:includes-zeroed-seg0-end-planes is fixed in the tree); gradient equal "
        "to the definition sum_{b in S} P_bj (y_b/(Px+a)_b - 1/n_b) - prior, taken at the current image for the scheduled subset (randomised "
        "order: every complete full iteration uses a permutation of the subsets); ascent direction (D > 0); one zeta for all voxels, "
        "recovered from unclamped voxels, equal to alpha/(1+gamma n) with n the full-iteration number; full formula per voxel; saved files "
        "equal the iterates after end_of_iteration_processing and the next sub-iteration starts from them; resumed runs (recomputed "
        "denominator, and denominator read back from the file set_up wrote) bitwise equal to the uninterrupted run, filters included; "
        "mismatching / missing denominator files refused.  "
        "OBJECT RE-USE HISTORIES (ops recfg / resetup / resetupf; 3 per generated geometry + 2 on a parsed object): ONE OSSPSReconstruction object, ONE "
        "objective function object and ONE prior object (unless replaced on purpose) go through 2-3 consecutive set_up(target) -> "
        "reconstruct(target) runs: (kind 0) the same configuration and start image again and again (always one with a quadratic prior x 3 "
        "runs and one with `precomputed denominator := 1` + prior); (kind 1) every run changes a random non-empty subset of: input "
        "projection data, additive term (on/off/new), normalisation (on/off/new factors), number of subsets + start subset, alpha/gamma/"
        "upper bound, prior penalisation factor (also 0), the prior object (none / quadratic / image dependent, new kappa / weights), start "
        "image, `precomputed denominator` mode (computed / 1 / the file an earlier set_up of this object wrote, only while data and "
        "normalisation are unchanged / a user file), restart at sub-iteration k+1 from a saved iterate of the previous run; (kind 2) an "
        "interrupted run continued on the same object (set_start_subiteration_num(k+1), start image = saved iterate k read from file or the "
        "very image object of the previous run), 2-3 legs.  For every run of a history the full problem (rows, normalisation, prior, "
        "parameters) is given to the Lean model again while the model's object keeps the stored denominator the previous run left "
        "(Model.setUpObject / runHistory); compared as for single runs: D0 written by THIS set_up against the model's -H(1) for the CURRENT "
        "data, every gradient / curvature / sub-iteration (the model's D is D0 of the current data + 2 x prior curvature, once).  Oracle: "
        "set_up of the re-used object rewrites the denominator file, bitwise equal to -add_multiplication_with_approximate_Hessian_without_"
        "penalty(ones) of the current objective function and equal to its definition from the current rows; all single-run clauses "
        "(bounds, gradient definition, one zeta, relaxation schedule, full formula with D = D0 + 2 curvature); every sub-iterate and the "
        "denominator file bitwise equal to those of a FRESH reconstruction + objective function + prior configured identically; kind 2: "
        "bitwise equal to the uninterrupted run of a fresh object.  PARAMETER FILES (the users' path; non-TOF): OSSPS parameter files "
        "written by the harness (objective function with input file / additive sinogram / Bin Normalisation From ProjData / quadratic "
        "prior with kappa file / ray tracing matrix switches, initial estimate, output prefix, subsets, sub-iterations) are parsed by "
        "initialise(), the image comes from get_initial_data_ptr(), then set_up + reconstruct(target): per run one configuration that "
        "leaves ALL OSSPS keys (relaxation parameter, relaxation gamma, upper bound, enforce initial positivity condition, write update "
        "image, filters, start at subset) to the parser (op pardefaults: the parsed values are the model's Params.default, which the model "
        "then uses for the run; no filters; no update image files) and one that writes every key (incl. `write update image := 1`: the "
        "file is the additive update before the clamp); each through the whole single-run programme (uninterrupted, second reconstruct() "
        "without set_up, resumed by parameter file with `start at subiteration number`, `initial estimate := <saved iterate>`, "
        "`precomputed denominator := <file>`, refused denominator files) and compared bitwise with the same configuration made through "
        "the setters; plus 2 histories on a parsed object.  Without filters the iterate handed out equals the image update_estimate left.  "
        "ROUND 4.  (a) RESTRICTED SEGMENT / TOF RANGE: the objective function restricted to fewer segments than the data have "
        "(set_max_segment_num_to_process; in parameter files `maximum absolute segment number to process`; 3 generated geometries always "
        "have more than one segment) and, for TOF data, to fewer TOF bins (set_max_timing_pos_num_to_process; with `use time-of-flight "
        "sensitivities` off the code switches it on, as the model does) — forced cases without prior, with quadratic prior, TOF with and "
        "without TOF sensitivities, TOF + segments, plus random ones (1 in 3), values equal to the data's maximum, changed between the "
        "runs of a history (all -> restricted -> other range with new data, scripted + random), and ranges larger than the data's "
        "(refused).  EVERY bin of the data is given to the model (`row` carries segment and TOF bin); the model (Problem.processed) leaves "
        "the bins outside the range out of D0 = -H(1), sub-gradient, sensitivity mask, subset balancing alike, as every loop of the code "
        "does; compared as before (setup: D0; grad; sens0; step; refusal), for single runs, resumed runs, histories, parameter files.  "
        "Oracle: D0 equals sum_b P_bj (P1)_b/(n_b^2 y_b) over the bins INSIDE the range and the gradient its definition over the bins of "
        "the subset inside the range (textbook definitions from the explicit matrix, double precision) — D belongs to the same Phi as the "
        "gradient.  (b) D EXACTLY 0 BEFORE IT IS MADE POSITIVE, PRIOR PRESENT: kappa images that are 0 in every voxel no bin of the "
        "objective function sees (geometry 0 always has corner voxels outside the FOV; kappa_kind 1) and additionally in random seen "
        "voxels (kind 2), also through a kappa file; user weights that are all 0 with a non-zero penalisation factor; with QuadraticPrior, "
        "the image dependent test double, and LogcoshPrior (the library's only other PriorWithParabolicSurrogate; RelativeDifferencePrior "
        "is not one and is refused by set_up: malformed stream).  Counted per run: voxels with D0 + 2 curvature == 0.  `step` compares every "
        "iterate with the model, which thresholds AFTER adding the penalty curvature (Model.workDenominator) as the code does; a NaN / inf "
        "never compares equal.  Oracle, all NaN-aware (`!(v >= 0 && v <= ub)`, `!(d*g >= 0)`): every iterate (after update_estimate and "
        "after end_of_iteration_processing), gradient and curvature finite; a voxel whose gradient component is exactly 0 keeps its clamped "
        "value bitwise (finite update zeta N 0 / D = 0: D strictly positive and finite); saved iterates equal the in-memory ones.  "
        "(c) LogcoshPrior (scalar 0.25..3, default 3D / 2D / user weights, kappa): gradient beta sum w kappa kappa tanh(s d)/s and "
        "curvature beta sum w kappa kappa tanh(s d)/(s d) checked against their definitions (double, rel 1e-4), all formula / relaxation / "
        "bounds clauses with D = D0 + 2 curvature(first image of the run) as the code has it (the prior declares its curvature image "
        "independent); `step` correspondence with gradient and curvature as data (Problem.opaquePrior); resumed runs are run and compared "
        "with the model but not required to reproduce the uninterrupted run (the property's restart clause is for no / quadratic prior).  "
        "(d) kappa differing from voxel to voxel and plane to plane with the default 3D neighbourhood on 3-5 plane images and user 3x3x3 "
        "weights combined with kappa are forced cases of every run (curvature and gradient: model `curv` / `grad` + definition oracle).",
        extra=dict(harness_counts=info))
    chk.assumptions += ["float rounding is modelled only through the forward error bounds above (the model is exact rational arithmetic)",
                        "normalisation only through BinNormalisationFromProjData (factor per bin, independent of the TOF bin; other normalisation classes: C05/C13); "
                        "segment / TOF ranges are symmetric (-m..m) as the API has them; within a history only the segment range is changed, not the TOF range (a restricted "
                        "TOF range switches use_tofsens on in the object for good); no MPI, single thread",
                        "LogcoshPrior: tanh is not in the Lean model (gradient / curvature are data for `step`, checked by the double precision oracle only); that it declares "
                        "its surrogate curvature independent of the image although it is not is outside the property's quantifier (quadratic prior) and only reported",
                        "randomise_subset_order: rand() is re-seeded by the harness after set_up (set_up seeds it from the clock); the permutation itself is not modelled, "
                        "the subset used is taken from the implementation and resumed runs are not expected to reproduce a randomised run",
                        "filters: only SeparableConvolutionImageFilter with 3 taps in x and y; other image processors (median, Metz, chained) are covered only by the "
                        "abstract theorem C08_in_bounds_after_filters",
                        "has_same_characteristics is modelled for VoxelsOnCartesianGrid (origin, index range, grid spacing), exact squares instead of float norms; "
                        "cases closer than 2x to a tolerance are not generated",
                        "the transaxial voxel size of the generated images is a multiple of 0.25 mm: the Interfile header written with a saved iterate "
                        "keeps 6 significant digits of the voxel size, other grids are not reproduced exactly by a resumed run's set_up (C10)",
                        "the objective function is observed through recording subclasses (compute_sub_gradient, parabolic_surrogate_curvature) and public API only",
                        "32-bit overflow not modelled",
                        "object re-use: between the runs of a history only public setters are used (set_proj_data_sptr, set_additive_proj_data_sptr, set_normalisation_sptr, "
                        "set_prior_sptr, set_penalisation_factor, set_num_subsets, set_start_subset_num, set_num_subiterations, set_start_subiteration_num, "
                        "set_output_filename_prefix; relaxation / upper bound / `precomputed denominator` through a subclass, they have no setter); projector pair, "
                        "zero_seg0_end_planes, use_subset_sensitivities, filters and the image grid stay fixed within a history; histories never randomise the subset order; "
                        "a set_up that refuses is not followed by a run",
                        "parameter files: non-TOF data, quadratic prior with default 3D / 2D weights (+ kappa file) only, no filters, trivial or From ProjData normalisation; "
                        "KeyParser itself (keyword matching, value syntax) is C17's subject"]
    if audit:
        vlib.proof_coverage(chk, audit, "cd lean && lake build StirVerif.C08.Props Driver.C08 && lake env lean ../build/out/Audit_C08.lean")
    return chk.finish()
