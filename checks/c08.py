"""C08 — OSSPS sub-iterations follow the preconditioned relaxed update within bounds; resumable."""
import math
import os
import vlib

PROP = "C08"


def _model_tok(t):
    """`<int>p<exp>` -> float (the model's exact rational rounded to 64 bits)"""
    m, e = t.split("p")
    return math.ldexp(int(m), int(e))


def compare(op, impl, model):
    """Numeric tokens of the model are `value~bound`: the implementation's hex float must lie within `bound` of the exact
    value (plus 2^-60 relative for the 64-bit rounding of the printed exact value).  Everything else: equal strings."""
    if impl == model:
        return True
    a, b = impl.split(), model.split()
    if len(a) != len(b):
        return False
    for x, y in zip(a, b):
        if "~" in y:
            try:
                v, t = y.split("~")
                v, t = _model_tok(v), _model_tok(t)
                f = float.fromhex(x)
            except ValueError:
                return False
            if f != f or math.isinf(f):
                return False
            if not abs(f - v) <= t * (1 + 1e-9) + abs(v) * 2.0 ** -60:
                return False
        elif x != y:
            return False
    return True


def main(tier, replay):
    if replay:
        for l in open(replay):
            if l.startswith("# seed="):
                os.environ["VERIF_SEED"] = l.split("seed=")[1].split()[0]
                tier = l.split("tier=")[1].split()[0]
    chk = vlib.Check(PROP, tier, level="proof")
    audit = vlib.lean_gate(chk, PROP)
    stats = vlib.run_differential(chk, PROP, "c08_ossps", tier, compare=compare)
    info = {}
    of = os.path.join(vlib.OUT, "%s_%s.impl.oracle" % (PROP.lower(), tier))
    if os.path.exists(of):
        for l in open(of):
            if l.startswith("INFO "):
                for kv in l.split()[1:]:
                    k, _, v = kv.partition("=")
                    k2, _, v2 = v.rpartition("=")
                    if k2:          # keys like ns=3=1
                        k, v = k + "=" + k2, v2
                    try:
                        info[k] = int(v)
                    except ValueError:
                        info[k] = v
    vlib.standard_coverage(chk, stats,
        "real OSSPSReconstruction<DiscretisedDensity<3,float>> (set_up / reconstruct(target) / update_estimate) with "
        "PoissonLogLikelihoodWithLinearModelForMeanAndProjData + ProjMatrixByBinUsingRayTracing on generated scanners (8-12 detectors, "
        "2-3 rings, all symmetry switches), images 5-7 across, every number of subsets 1..views, alpha/gamma/upper bound/start subset/"
        "enforce_initial_positivity varied, no prior / QuadraticPrior (default, 2D, custom weights, kappa, beta=0) / a QuadraticPrior "
        "declared image dependent (recompute branch) / refused configurations.  The explicit system matrix, data, prior weights are "
        "given to the Lean model, which recomputes in exact rationals: D0 = -H(1), sensitivity-zero mask, image after set_up, every "
        "penalised sub-gradient and surrogate curvature update_estimate obtained (`grad`, `curv`), and every sub-iteration "
        "(`step`: before, gradient and curvature as returned by the real objects -> after, subset used) of the uninterrupted run, of a "
        "second reconstruct() without set_up, and of runs resumed from every saved iterate (fresh objects, "
        "enforce_initial_positivity off and on).  Comparison per voxel |impl - exact| <= bound with the derived forward bounds: "
        "step 32*2^-24*(|lambda|+|update|) (8 float operations, 4*n*2^-24*sum|terms|); grad 4*2^-24*(sum_b P_bj(|q_b|((n_b+3)*M_b/|den_b|+2)+2+"
        "(m_j+2)|q_b-1|) + 4*PM_j/N + |g_j|) with n_b the row length, m_j the number of bins of the subset seeing voxel j, M_b = sum|P x|+|a|, "
        "PM_j the prior's sum of |terms|; D0 4*n*2^-24*D0_j with n = longest row + most bins per voxel + subsets + 6; curvature 4*90*2^-24*c_j. "
        "The model is re-synchronised to the implementation's floats after every sub-iteration.  Oracle on the implementation: iterates in "
        "[0, ub]; D0 >= 0 and bitwise equal to -add_multiplication_with_approximate_Hessian_without_penalty(ones); gradient taken at the "
        "current image for the scheduled subset; ascent direction (D > 0); one zeta for all voxels, recovered from unclamped voxels, equal to "
        "alpha/(1+gamma n) with n the full-iteration number; full formula per voxel; saved files equal in-memory iterates; resumed runs "
        "bitwise equal to the uninterrupted run.",
        extra=dict(harness_counts=info))
    chk.assumptions += ["float rounding is modelled only through the forward error bounds above (the model is exact rational arithmetic)",
                        "bin normalisation is 1, no TOF, no zero_seg0_end_planes, subset order not randomised (C06), no inter-iteration / post filter",
                        "the transaxial voxel size of the generated images is a multiple of 0.25 mm: the Interfile header written with a saved iterate "
                        "keeps 6 significant digits of the voxel size, other grids are not reproduced exactly by a resumed run's set_up (C10)",
                        "the objective function is observed through recording subclasses (compute_sub_gradient, parabolic_surrogate_curvature) and public API only",
                        "32-bit overflow not modelled"]
    if audit:
        vlib.proof_coverage(chk, audit, "cd lean && lake build StirVerif.C08.Props Driver.C08 && lake env lean ../build/out/Audit_C08.lean")
    return chk.finish()
