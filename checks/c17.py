"""C17 — text and header input is parsed faithfully or rejected, never mis-handled.
Lean: StirVerif/C17 (model of the KeyParser text core + theorems).
Tie: hand-written model + correspondence (harness/c17_keyparser.cxx vs lean/Driver/C17.lean, line by line).
Oracle part 1 (harness/c17_keyparser.cxx): registry round trip (classes that need external data get small files written by the
harness) / keyword matching / aliases in arbitrary spellings of alias AND target, incl. the aliases the library registers itself /
vectorised keys of every type / per-segment lists of projection-data headers, on the implementation.
Part 1 also: Interfile image / multiple-data-set headers with their size-giving keys in ANY order against the Lean model of the
count-key call-backs (`hdr` ops), and histories of copies / assignments / destructions of a ParsingObject against the Lean heap
model (`po` ops).
Oracle part 2 (harness/c17_fuzz.cxx): KeyParser::parse, read_interfile_image, read_interfile_dynamic_image, read_interfile_parametric_image,
read_interfile_PDFS, MultipleDataSetHeader on grammar-aware mutations of library-written headers, on the structured "exactly one
size-bearing field inconsistent" family, on library-written headers with their size-giving lines in another order, and copy /
clone() / assignment histories of registered parsing classes, under AddressSanitizer + UBSan, with the anchored STIR sources
compiled *instrumented* into the harness.
Part 2 is runtime evidence, not a theorem."""
import concurrent.futures, hashlib, os, re, subprocess
import vlib

PROP = "C17"

# STIR sources compiled with the sanitizers into the fuzz harness (they shadow the objects of the plain libraries)
INSTRUMENTED = ["buildblock/KeyParser.cxx", "buildblock/interfile_keyword_functions.cxx", "buildblock/MultipleDataSetHeader.cxx",
                "IO/InterfileHeader.cxx", "IO/InterfileHeaderSiemens.cxx", "IO/InterfilePDFSHeaderSPECT.cxx", "IO/interfile.cxx",
                "buildblock/ProjDataInfo.cxx", "buildblock/Scanner.cxx", "buildblock/ProjDataFromStream.cxx", "buildblock/ParsingObject.cxx"]
# Every sanitizer report kills the reader, except signed integer overflow: that one is reported on stderr and the run goes on
# with the wrapped value, as it does in the un-instrumented library on x86-64.  The property names out-of-bounds access, unbounded
# allocation and silently accepted inconsistent sizes; an overflow in the arithmetic on absurd header values is judged by what it
# leads to (rejected / accepted and consistent / inconsistent / killed) and counted in coverage.fuzz_signed_overflow_reports.
SAN_FLAGS = ["-fsanitize=address,undefined", "-fno-sanitize-recover=all", "-fsanitize-recover=signed-integer-overflow", "-fno-omit-frame-pointer"]


def _cxx_flags(bdir):
    # _GLIBCXX_ASSERTIONS: operator[] of std::vector / std::string beyond the end aborts.  (ASan alone misses vector[-1] when the
    # element is larger than the red zone in front of the buffer: `PET_data_type_values[PET_data_type_index]` with index -1.)
    return ["-std=gnu++17", "-O1", "-g1", "-w", "-DNDEBUG", "-DUCL_STIR_VERIF", "-D_GLIBCXX_ASSERTIONS",
            "-I", os.path.join(bdir, "src", "include"), "-I", os.path.join(vlib.REPO, "src", "include"),
            "-I", "/usr/include/hdf5/serial", "-I", os.path.join(vlib.VERIF, "harness")] + SAN_FLAGS


def _compile_cached(src, bdir, objdir):
    """object file for `src`, keyed by the hash of its preprocessed text (so header changes are seen)"""
    flags = _cxx_flags(bdir)
    pre = subprocess.run(["g++"] + flags + ["-E", "-P", src], stdout=subprocess.PIPE, stderr=subprocess.PIPE)
    if pre.returncode != 0:
        return None, pre.stderr.decode(errors="replace")[-3000:]
    h = hashlib.sha1(pre.stdout + " ".join(flags).encode()).hexdigest()[:20]
    obj = os.path.join(objdir, "%s-%s.o" % (os.path.basename(src).replace(".cxx", ""), h))
    if not os.path.exists(obj):
        tmp = obj + ".tmp%d" % os.getpid()
        r = vlib.sh(["g++"] + flags + ["-c", src, "-o", tmp])
        if r.returncode != 0:
            return None, r.stdout[-3000:]
        os.replace(tmp, obj)
    return obj, ""


def build_fuzz_harness():
    bdir = vlib.stir_build("plain")
    objdir = os.path.join(vlib.BUILD, "c17-obj")
    os.makedirs(objdir, exist_ok=True)
    os.makedirs(vlib.BIN, exist_ok=True)
    srcs = [os.path.join(vlib.REPO, "src", s) for s in INSTRUMENTED] + [os.path.join(vlib.VERIF, "harness", "c17_fuzz.cxx")]
    with concurrent.futures.ThreadPoolExecutor(max_workers=len(srcs)) as ex:
        res = list(ex.map(lambda s: _compile_cached(s, bdir, objdir), srcs))
    for (obj, err), s in zip(res, srcs):
        if obj is None:
            raise SystemExit("C17: cannot compile %s with sanitizers:\n%s" % (s, err))
    exe = os.path.join(vlib.BIN, "c17_fuzz-asan")
    r = vlib.sh(["g++"] + SAN_FLAGS + [o for o, _ in res] + ["-o", exe] + vlib.stir_link_args(bdir))
    if r.returncode != 0:
        raise SystemExit("C17: cannot link the fuzz harness:\n" + r.stdout[-4000:])
    # keep the cache small: drop objects not used by this build
    used = {o for o, _ in res}
    for f in os.listdir(objdir):
        p = os.path.join(objdir, f)
        if p not in used and f.endswith(".o"):
            try:
                os.remove(p)
            except OSError:
                pass
    return exe


def fuzz_env():
    return dict(os.environ, STIR_CONFIG_DIR=os.path.join(vlib.REPO, "src", "config"), STIR_REPO=vlib.REPO,
                C17_CORPUS=os.path.join(vlib.VERIF, "corpus", PROP),
                ASAN_OPTIONS="detect_leaks=0:max_allocation_size_mb=256:detect_odr_violation=0:exitcode=66:print_summary=0:detect_stack_use_after_return=0",
                UBSAN_OPTIONS="print_stacktrace=1:exitcode=66")


_UB_KINDS = [(r"division by zero", "division-by-zero"), (r"reference binding to null pointer", "null-reference"),
             (r"member (call|access) (on|within) null pointer", "null-member-access"), (r"signed integer overflow", "signed-integer-overflow"),
             (r"negation of", "signed-integer-overflow"), (r"load of (misaligned|null)", "bad-load"), (r"store to (misaligned|null)", "bad-store"),
             (r"index -?\d+ out of bounds", "index-out-of-bounds"), (r"shift exponent", "bad-shift"), (r"is outside the range of representable values", "float-cast-overflow"),
             (r"load of value .* not a valid value", "invalid-enum-or-bool"), (r"variable length array bound", "vla-bound"),
             (r"downcast of address", "bad-downcast"), (r"applying (non-)?zero offset", "pointer-overflow"), (r"pointer index expression", "pointer-overflow")]


def _strip_overflow(stderr_text):
    """drop the (non-fatal) UBSan signed-integer-overflow reports with their stack traces: they never killed the reader"""
    out, skipping = [], False
    for l in stderr_text.splitlines(True):
        if "runtime error: signed integer overflow" in l:
            skipping = True
            continue
        if skipping and re.match(r"\s+#\d+ 0x", l):
            continue
        if skipping and not l.strip():
            skipping = False
            continue
        skipping = False
        out.append(l)
    return "".join(out)


def classify(stderr_text, how, target="unknown", text=b""):
    """stable key for a killed input: kind of report + innermost STIR function on the stack"""
    stderr_text = _strip_overflow(stderr_text)
    kind = None
    m = re.search(r"ERROR: AddressSanitizer: ([a-zA-Z0-9_-]+)", stderr_text)
    if m:
        kind = "asan-" + m.group(1)
        if m.group(1) == "requested":
            kind = "asan-allocation-size-too-big"
        if m.group(1) == "SEGV":
            kind = "asan-SEGV"
    m = re.search(r"runtime error: (.*)", stderr_text)
    if m and (kind is None or m.start() < stderr_text.find("ERROR: AddressSanitizer")):
        kind = "ubsan-other"
        for pat, name in _UB_KINDS:
            if re.search(pat, m.group(1)):
                kind = "ubsan-" + name
                break
    m = re.search(r"Assertion '([^']*)' failed", stderr_text)
    if m and kind is None:
        kind = "glibcxx-assertion-index-out-of-bounds" if "size()" in m.group(1) else "glibcxx-assertion"
        # Known open class (see known_findings.txt): 'PET data type := <a value that is not in the list>' leaves PET_data_type_index at -1,
        # and the post_processing of every Interfile header class then reads PET_data_type_values[-1]
        vals = [l.split(b":=", 1)[1].strip() for l in text.replace(b"\r", b"").split(b"\n")
                if b":=" in l and re.sub(rb"[ _!\t]+", b" ", l.split(b":=", 1)[0].split(b"[", 1)[0].lower()).strip() == b"pet data type"]
        allowed = (b"emission", b"transmission", b"blank", b"attenuationcorrection", b"normalisation", b"normalization", b"image")
        if vals and re.sub(rb"[ _!\t]+", b" ", vals[-1].lower()).strip() not in allowed and "post_processing" in stderr_text:
            return "oob:PET_data_type_values[PET_data_type_index]:unsupported-value-of-PET-data-type"
    if "VERIF-TIMEOUT" in stderr_text:
        kind = "timeout"
    if kind is None:
        kind = "killed-" + how
    func = "unknown-function"
    for fm in re.finditer(r"#\d+ 0x[0-9a-f]+ in (.+?) (?:/|\(/|\S+:\d+)", stderr_text):
        name = fm.group(1)
        if name.startswith("stir::") or " stir::" in name:
            name = name[name.find("stir::"):]
            if re.match(r"stir::(VectorWithOffset|NumericVectorWithOffset|Array|BasicCoordinate|Coordinate\dD|CartesianCoordinate\dD|IndexRange|detail::|round\b)", name):
                continue      # generic containers / helpers: the caller is the interesting frame
            name = re.sub(r"\(.*", "", name)          # drop the argument list
            name = re.sub(r"<[^<>]*>", "", name)       # drop template arguments (one level is enough for a key)
            name = re.sub(r"<[^<>]*>", "", name)
            func = name.replace(" ", "")
            break
    if kind == "asan-allocation-size-too-big":
        # Known open class (see known_findings.txt): a table / image / sinogram is allocated with the size that the header
        # itself declares (number of dimensions, time frames, energy windows, data sets, matrix size, projections ...), with
        # no plausibility limit and before the data file is looked at.  An allocation belongs to this class only if it is
        # explained by a number written in the input: requested bytes <= 256 * (largest int literal >= 2^20 in the text).
        # A large allocation from a header that contains small numbers only is NOT in the class and is reported per function.
        m = re.search(r"requested allocation size 0x([0-9a-f]+)", stderr_text)
        lits = [int(x) for x in re.findall(rb"\d+", text) if len(x) <= 10 and int(x) <= 2**31 - 1]
        nmax = max(lits) if lits else 0
        if m and nmax >= 2**20 and int(m.group(1), 16) <= 256 * nmax:
            return "alloc:proportional-to-number-declared-in-header"
    if kind == "timeout" and target == "dynimage":
        # Known open class (see known_findings.txt), same root as the allocation class: read_interfile_dynamic_image builds one
        # image + ExamInfo (with all N time frames) per declared time frame before it looks at the data file: work ~ N^2.
        lits = [int(x) for x in re.findall(rb"\d+", text) if len(x) <= 10 and int(x) <= 2**31 - 1]
        if lits and max(lits) >= 20000:
            return "timeout:dynimage:work-grows-with-square-of-declared-number-of-time-frames"
    if func == "unknown-function":
        t = text[:-1] if text.endswith(b"\r") else text
        if t.endswith(b"\\") and kind in ("timeout", "asan-allocation-size-too-big", "asan-out-of-memory"):
            # read_line() appending the last line to itself for ever (same defect as reported by part 1)
            return "keyparser:continuation-backslash-at-eof"
        func = "target-" + target
    return "%s:%s" % (kind, func)


def inconsistent_key(target, msg):
    """stable key of an `inconsistent` verdict: the class name the harness gives in braces, else the text with numbers removed"""
    m = re.match(r"\{([a-zA-Z0-9:_-]+)\}", msg.strip())
    if m:
        return "inconsistent:" + m.group(1)
    return "inconsistent:%s:%s" % (target, re.sub(r"[^a-zA-Z]+", "-", re.sub(r"\d+", "N", msg)).strip("-")[:80])


def report_tail(stderr_text):
    stderr_text = _strip_overflow(stderr_text)
    i = stderr_text.find("runtime error")
    j = stderr_text.find("ERROR: AddressSanitizer")
    k = stderr_text.find("VERIF-TIMEOUT")
    a = stderr_text.find("Assertion '")
    pos = [p for p in (i, j, k, a) if p >= 0]
    start = max(0, min(pos) - 200) if pos else max(0, len(stderr_text) - 2500)
    return stderr_text[start:start + 3500]


def run_fuzz(chk, tier):
    exe = build_fuzz_harness()
    work = os.path.join(vlib.OUT, "c17", "fuzz-%s-%d" % (tier, vlib.seed()))
    subprocess.run(["rm", "-rf", work])
    os.makedirs(work, exist_ok=True)
    resfile = os.path.join(work, "result.txt")
    try:
        r = vlib.sh([exe, "run", str(vlib.seed()), tier, work, resfile], env=fuzz_env(), timeout=7200)
    except subprocess.TimeoutExpired:
        chk.violation("fuzz-timeout", "C17 fuzz harness timed out", "timeout", found_input=False)
        return {}
    if r.returncode != 0 or not os.path.exists(resfile):
        chk.violation("fuzz-harness-abort", "C17 fuzz harness itself aborted (exit %d)" % r.returncode, r.stdout[-4000:], found_input=False)
        return {}
    verdicts, per_target, killed_by_key, inconsistent_by_key, done = {}, {}, {}, {}, None
    overflow_reports, structured = 0, 0
    order_family, copy_hist, n_order, n_copy = {}, {}, 0, 0
    tofkey_family, n_tofkeys = {}, 0
    for l in open(resfile, errors="replace"):
        t = l.split()
        if not t:
            continue
        if t[0] == "CASE":
            v = t[3]
            if v == "rejected" and len(t) > 4:
                v += "-" + t[4]
            verdicts[v] = verdicts.get(v, 0) + 1
            per_target[t[1]] = per_target.get(t[1], 0) + 1
            if "+signed-overflow" in t:
                overflow_reports += 1
            if "order-family" in t:
                k = "%s:%s" % (t[1], t[3])
                order_family[k] = order_family.get(k, 0) + 1
            if "tofkey-family" in t:
                k = t[3] if not (t[3] == "rejected" and len(t) > 4) else "rejected-" + t[4]
                tofkey_family[k] = tofkey_family.get(k, 0) + 1
            if t[1] == "copy" and len(t) > 5:
                k = "%s | %s" % (t[5], " ".join(t[3:5]))
                copy_hist[k] = copy_hist.get(k, 0) + 1
            if t[3] == "inconsistent":
                msg = " ".join(t[4:]).split(" | ")[0].replace(" +signed-overflow", "")
                key = inconsistent_key(t[1], msg)
                inp = l.split("input=")[-1].strip() if "input=" in l else None
                inconsistent_by_key.setdefault(key, []).append((t[1], msg, inp))
        elif t[0] == "KILLED":
            target, idx, how, inputfile, stderrfile = t[1], t[2], t[3], t[4], t[5]
            per_target[target] = per_target.get(target, 0) + 1
            verdicts["killed"] = verdicts.get("killed", 0) + 1
            err = open(stderrfile, errors="replace").read() if os.path.exists(stderrfile) else ""
            text = open(inputfile, "rb").read() if os.path.exists(inputfile) else b""
            killed_by_key.setdefault(classify(err, how, target, text), []).append((target, inputfile, err))
        elif t[0] == "DONE":
            done = l.strip()
            m = re.search(r"structured=(\d+)", l)
            structured = int(m.group(1)) if m else 0
            m = re.search(r"order=(\d+) copy=(\d+)", l)
            n_order, n_copy = (int(m.group(1)), int(m.group(2))) if m else (0, 0)
            m = re.search(r"tofkeys=(\d+)", l)
            n_tofkeys = int(m.group(1)) if m else 0
    if done is None:
        chk.violation("fuzz-incomplete", "C17 fuzz harness did not finish", r.stdout[-2000:], found_input=False)
    elif n_order < 100 or n_copy < 100 or not any(k.endswith(":accepted") for k in order_family) or not any("accepted" in k for k in copy_hist):
        chk.violation("fuzz-family-missing", "C17 fuzz harness: the key-order family (%d inputs) or the copy histories (%d) did not run, or none was accepted" % (n_order, n_copy),
                      done, found_input=False)
    if done is not None and (n_tofkeys < 500 or tofkey_family.get("accepted", 0) < 50 or not any(k.startswith("rejected") for k in tofkey_family)):
        chk.violation("fuzz-family-missing", "C17 fuzz harness: the TOF-key family (%d inputs, verdicts %s) did not run, or none was accepted / none rejected" % (n_tofkeys, tofkey_family),
                      done, found_input=False)
    for key, cases in sorted(killed_by_key.items()):
        target, inputfile, err = min(cases, key=lambda c: os.path.getsize(c[1]) if os.path.exists(c[1]) else 1 << 30)
        text = open(inputfile, "rb").read() if os.path.exists(inputfile) else b""
        desc = ("%s: %d of the generated inputs kill the reader under ASan/UBSan (target %s, smallest input %d bytes): %s" % (
            key, len(cases), target, len(text), " ".join(report_tail(err).split())[:260]))
        replay = "# seed=%d tier=%s\nfuzz-target %s\nfuzz-input-hex %s\n# sanitizer report:\n# %s\n" % (
            vlib.seed(), tier, target, text.hex(), report_tail(err).replace("\n", "\n# "))
        chk.violation(key, desc, replay)
    for key, cases in sorted(inconsistent_by_key.items()):
        target, msg, inp = cases[0]
        text = open(inp, "rb").read() if inp and os.path.exists(inp) else b""
        expect = open(inp + ".expect").read().strip() if inp and os.path.exists(inp + ".expect") else ""
        chk.violation(key, "%s: reader handled %d generated inputs inconsistently (target %s): %s" % (key, len(cases), target, msg),
                      "# seed=%d tier=%s\nfuzz-target %s\nfuzz-input-hex %s\n%s# %s\n" % (
                          vlib.seed(), tier, target, text.hex(), ("fuzz-expect %s\n" % expect) if expect else "", msg))
    return dict(fuzz_inputs=sum(per_target.values()), fuzz_inputs_per_target=per_target, fuzz_verdicts=verdicts,
                fuzz_killed_classes={k: len(v) for k, v in killed_by_key.items()},
                fuzz_inconsistent_classes={k: len(v) for k, v in inconsistent_by_key.items()},
                fuzz_signed_overflow_reports=overflow_reports,
                fuzz_structured_one_field_inconsistent_inputs=structured,
                fuzz_key_order_inputs=n_order, fuzz_key_order_verdicts=order_family,
                fuzz_copy_histories=n_copy, fuzz_copy_history_classes=copy_hist,
                fuzz_tof_key_inputs=n_tofkeys, fuzz_tof_key_verdicts=tofkey_family,
                fuzz_instrumented_sources=INSTRUMENTED)


def replay_fuzz(chk, replay):
    target, data, expect = None, None, None
    for l in open(replay):
        if l.startswith("fuzz-target"):
            target = l.split()[1]
        elif l.startswith("fuzz-input-hex"):
            t = l.split()
            data = bytes.fromhex(t[1]) if len(t) > 1 else b""
        elif l.startswith("fuzz-expect "):
            expect = l[len("fuzz-expect "):].strip()
    exe = build_fuzz_harness()
    work = os.path.join(vlib.OUT, "c17", "replay")
    os.makedirs(work, exist_ok=True)
    inp = os.path.join(work, "input.txt")
    open(inp, "wb").write(data)
    rr = subprocess.run([exe, "one", target, work, inp] + ([expect] if expect else []), env=fuzz_env(), timeout=300, stdout=subprocess.PIPE, stderr=subprocess.STDOUT)

    class R:
        returncode = rr.returncode
        stdout = rr.stdout.decode(errors="replace")
    r = R
    print("replay: target=%s input=%d bytes exit=%d %s" % (target, len(data), r.returncode,
                                                            " ".join([l for l in r.stdout.splitlines() if l.startswith("VERDICT")][-1:])))
    if r.returncode == 3:
        msg = [l for l in r.stdout.splitlines() if l.startswith("VERDICT")][-1][8:]
        key = inconsistent_key(target, msg.split(" ", 1)[1])
        chk.violation(key, "replay: " + msg, open(replay).read())
    elif r.returncode != 0:
        key = classify(r.stdout, "exit%d" % r.returncode, target, data)
        chk.violation(key, "replay: %s: %s" % (key, " ".join(report_tail(r.stdout).split())[:260]), open(replay).read())
    chk.coverage.update(dict(evaluations=1, distinct_nontrivial=1, rule="replay of one fuzz input", samples=[target]))


def compare(op, impl, model):
    """exact, except for `pdfsseg` (per-segment lists of a projection-data header): the model transcribes the length checks of
    InterfilePDFSHeader::post_processing and the segment numbering of find_segment_sequence only; the ProjDataInfo constructor
    that runs afterwards may still refuse the geometry with error().  So: model rej/err => same answer from the code; code
    accepts => model accepts with the same segment range; code `err` where the model accepts is allowed."""
    if impl == model:
        return True
    if op.startswith("hdr pdfs "):
        # same reason: the geometry checks of the ProjDataInfo constructor (after set_tof_mash_factor, before the final TOF check)
        # are not modelled; everything else is exact
        return impl == "err" and (model.startswith("ok ") or model == "errtof")
    return op.startswith("pdfsseg ") and impl == "err" and model.startswith("ok ")


def main(tier, replay):
    is_fuzz_replay = False
    if replay:
        for l in open(replay):
            if l.startswith("# seed="):
                os.environ["VERIF_SEED"] = l.split("seed=")[1].split()[0]
                tier = l.split("tier=")[1].split()[0]
            if l.startswith("fuzz-target"):
                is_fuzz_replay = True
    chk = vlib.Check(PROP, tier, level="proof")
    audit = vlib.lean_gate(chk, PROP)
    if is_fuzz_replay:
        replay_fuzz(chk, replay)
        if audit:
            vlib.proof_coverage(chk, audit, "cd lean && lake build StirVerif stirdriver && lake env lean ../build/out/Audit_C17.lean")
        return chk.finish()
    stats = vlib.run_differential(chk, PROP, "c17_keyparser", tier, max_report=8, compare=compare)
    classes, alias_sites = [], []
    cf = os.path.join(vlib.OUT, "c17_%s.impl.classes" % tier)
    if os.path.exists(cf):
        for l in open(cf, errors="replace"):
            (alias_sites if l.startswith("alias-site ") else classes).append(l.rstrip("\n"))
    if os.environ.get("C17_SKIP_FUZZ") == "1":     # development only: part 1 alone (recorded in the evidence)
        fuzz = dict(fuzz_skipped=True)
        chk.assumptions.append("DEVELOPMENT RUN: the sanitizer part (part 2) was skipped (C17_SKIP_FUZZ=1)")
    else:
        fuzz = run_fuzz(chk, tier)
    vlib.standard_coverage(chk, stats,
        "Part 1: real KeyParser (get_keyword, standardise_keyword, add_key/add_vectorised_key/add_alias_key, parse, parameter_info) against the Lean model, "
        "one line per operation: keywords/lines of Interfile headers written by the library and of parameter_info() of every constructible "
        "registered class, seeded grammar-aware mutations (value/index replacement, line deletion/duplication/swap, truncation at line and byte, "
        "CR/LF, continuation, ':=' damage, equivalent and damaged keywords) on a fixed probe table, tables derived from library-written headers and random tables; "
        "keys are registered in non-standard spellings (capitals, '_', '!', repeated/leading/trailing blanks), aliases are registered with arbitrary spellings "
        "of alias AND target (also alias of alias / of a missing key; the library's own TOF aliases on the tables derived from its headers) and the texts spell "
        "keys through any spelling of their aliases; every modelled vectorised key type (int, string, list of ints) x index 0 / negative / 1..size / size+1 / beyond / "
        "wrapping atoi values / decorated; `pdfsseg`: real InterfilePDFSHeader::parse on the library's projection-data header with 'matrix size [4]', the axial-positions "
        "list and the two ring-difference lists replaced (consistent, exactly one list shorter/longer, a list absent, no segment 0) against the model of the "
        "per-segment checks (exact, except that the code may still error() in the ProjDataInfo constructor where the model accepts); "
        "`hdr image` / `hdr multi`: real InterfileImageHeader / MultipleDataSetHeader parse of generated single, dynamic and parametric image headers (integer values, "
        "occasional planted faults) with the size-giving lines (number of dimensions / time frames / energy windows / image data types, matrix size, labels, voxel sizes, "
        "first pixel offsets, per-frame and per-window keys, image scaling factors, data offsets, index nesting level, data type descriptions; sometimes 'type of data') "
        "in the writer's order and re-ordered (a count key behind the lines it sizes, count keys swapped, all counts first / last, one table line moved, shuffled), answer = "
        "rej | err | every modelled member of the header object, against the Lean model of the count-key call-backs and post_processing; "
        "`hdr pdfs`: real InterfilePDFSHeader::parse on the library's own projection-data headers of TOF-CAPABLE scanners (a generated scanner with timing keys in the header, "
        "and the GE Discovery 690 recognised by name; each with non-TOF data = 4-D header and TOF data = 5-D header) with TOF keys inserted / moved / removed at ANY position "
        "('TOF mashing factor' and '%TOF mashing factor' with values 0, 1, divisors, the scanner's bin count, above it, negative; '(Maximum) number of (unmashed) TOF time bins', "
        "bin size and timing resolution in both spellings with matching, contradicting, zero and negative values; 'TOF bin order' lists), alone and combined, and with the "
        "size-giving lines (number of dimensions, matrix size / axis label incl. [5], ring differences) re-ordered; answer = rej | err | errmash | erreven | errtof | ok <num_timing_poss, "
        "TOF bins and mashing factor of the geometry, segments, views, bins, axial positions> against the Lean model of find_storage_order / resize_segments_and_set / the size part "
        "of post_processing / ProjDataInfo::set_tof_mash_factor (exact; the code may still error() in the geometry checks of the ProjDataInfo constructor where the model accepts); "
        "`po`: histories of new / copy constructor / operator= / parse / parameter_info / delete on a concrete ParsingObject (real base class) against the Lean heap model; "
        "distinct = distinct operation lines. Oracle on the implementation: accepted image header => every table of the header object has the announced length "
        "(dimensions, data sets = time frames x data types, frames, windows, data types, one scaling factor per plane); re-ordered header accepted => same members as in the "
        "writer's order (per-plane lists of scaling factors in front of a count key: oracle only); a fresh copy prints the values it was copied with, no operation on one "
        "object changes what another prints, the text of a copy parses back to the same text;  parameter_info->parse->parameter_info for every class of 19 registry roots "
        "(enumerated at run time, each in a child process; classes that need external data are constructed from small projection-data / image / frame-definition / "
        "plasma files written by the harness; also after accepted numeric value replacements), case/white-space-insensitive keyword matching, "
        "alias resolution for random spellings of registered key, named target, alias and line, the aliases registered in the library sources "
        "(add_alias_key calls with literal arguments, scanned at run time: an InterfilePDFSHeader header using any spelling of the alias parses to the same object "
        "as the one using the target keyword, and the value is used; other call sites are listed in coverage.alias_sites), vectorised keys of all eight types "
        "(int, unsigned, unsigned long, float, double, string, list of ints, list of doubles) at index 0 / negative / in range / size+1 / beyond: stored at the index "
        "given and nothing else changed, or error; accepted projection-data header => number of segments = declared count = length of every list given; accepted projection-data header of a TOF-capable scanner (`hdr pdfs`) => "
        "the geometry has exactly the TOF bins the header declares (1 for 4-D, 'matrix size [5]' for 5-D) and the axial positions / views / bins of its 'matrix size' lines; "
        "KeyParser round trip on random printable values. "
        "Part 2 (fuzz_* keys): KeyParser::parse, read_interfile_image, read_interfile_dynamic_image, read_interfile_PDFS (PET, SPECT, Siemens), MultipleDataSetHeader with the anchored sources "
        "compiled with -fsanitize=address,undefined: every seed header truncated at every line (with/without newline), every single line deleted, truncation at sampled bytes, "
        "seeded mutations (hostile values incl. huge/negative sizes, index changes, insertion of known keys, duplication, swap, keyword damage, over-long values), and the "
        "structured family 'exactly one size-bearing field inconsistent' (each per-segment list / 'matrix size [4]' / TOF bin count, order list and mashing factor / "
        "number of dimensions / image matrix sizes (list, empty, missing, larger than the data file) / image scaling factors / per-frame and per-energy-window keys beyond "
        "the declared count / number of time frames of a dynamic image vs its per-frame keys and the data in the file / data offset of a frame beyond the file / "
        "SPECT radii vs number of projections: must be rejected; consistent variants and the library's own headers: must be accepted); "
        "key-order family (fuzz_key_order_*): the library's own image (also with energy windows and a time frame), dynamic image, PARAMETRIC image (read_interfile_parametric_image) "
        "and PET projection-data headers with their size-giving lines re-ordered: rejected, or the header object has every table at the announced length, its size-giving "
        "members equal those of the writer's order, and the reader returns the same voxel data (checksum) as for the writer's order; "
        "TOF-key family (fuzz_tof_key_*): the library's own projection-data headers of TOF-capable scanners (generated scanner and GE Discovery 690, 4-D non-TOF and 5-D TOF, small data "
        "files) with every TOF line of the header removed / moved to every position, mashing-factor lines (both spellings) inserted at EVERY position, scanner timing keys and bin-order "
        "lists at sampled positions (all positions in the thorough tier), pairs of such lines, the structured one-field family and generic mutations of these headers; "
        "UNIVERSAL SIZE ORACLE on every accepted `pdfs` input (any target seed, clean text or not): the returned ProjDataFromStream has exactly the TOF bins that the header object "
        "derived from the declared dimensions (num_timing_poss) and sum(axial positions) x views x tangential positions x TOF bins of the 'matrix size' lines "
        "({pdfs:tof-bins-vs-declared-dimensions}, {pdfs:object-size-vs-header}); clean 4-D text => 1 TOF bin; all segments x TOF bins are read under ASan, and an object that needs more "
        "bytes than the data file has must have been refused at parse time or refuse the read with error() (reading without error = inconsistent); a 4-D header without its "
        "mashing-factor line must be accepted; "
        "copy histories (fuzz_copy_*): 17 concrete data processors / priors / projector pairs / forward projector / bin normalisation via copy constructor and operator=, every "
        "registered Shape3D, BackProjectorByBin and ProjMatrixByBin via clone(): object built from its own text with other numbers and printed -> copied -> original re-parsed with "
        "other numbers / destroyed / kept -> the copy prints the values it was copied with, parsing into the copy leaves the original alone, the copy's text parses back to itself; "
        "verdict per input: rejected / accepted and consistent with the data-file size and (for PET projection data and images, when an independent strict scan of the "
        "header text is unambiguous) with every size and list the header gives / inconsistent / killed (sanitizer report, crash, allocation > 256 MB, time-out).",
        extra=dict(registered_classes=classes, alias_sites=alias_sites,
                   classes_round_trip_same=len([c for c in classes if "| same |" in c]),
                   classes_not_constructible=len([c for c in classes if "not-constructible" in c]),
                   classes_registered_as_None=len([c for c in classes if c.split(" | ")[0].endswith("/None")]), **fuzz))
    chk.coverage["evaluations"] = chk.coverage.get("evaluations", 0) + fuzz.get("fuzz_inputs", 0)
    chk.assumptions += [
        "characters are bytes in the \"C\" locale; NUL bytes and ${ENV} substitution are not modelled (generators avoid them)",
        "floating point / unsigned / long values, arrays, coordinates and nested parsing objects are not in the Lean model: they are covered by the round-trip oracle on the implementation only",
        "atoi/strtol and istream>>int follow glibc/libstdc++ on x86-64 (saturation at LONG_MIN/MAX then wrap to 32 bit; failbit on int overflow)",
        "UBSan signed-integer-overflow reports do not kill the reader (the run continues with the wrapped value as in the plain build) and are only counted "
        "(coverage.fuzz_signed_overflow_reports): such an input is judged by its outcome; all other sanitizer reports are fatal",
        "memory safety, allocation size and termination under malformed input are RUNTIME EVIDENCE from the sanitizer run on the generated inputs (mutation loop, not coverage-guided), not theorems; "
        "only the sources in coverage.fuzz_instrumented_sources (and inlined headers) are instrumented, the rest of STIR is linked from the plain build",
        "classes that cannot be constructed even with the harness's synthetic files (list-mode / gated / dynamic data, ECAT8, GE HDF5, matrix-from-file, parametric "
        "reconstructions) and the registered name 'None' (a null object) are listed in coverage.registered_classes, not failed",
        "aliases: add_alias_key call sites with non-literal arguments or in classes that are not compiled / have no driver (CListModeDataROOT: HAVE_CERN_ROOT off) are "
        "listed in coverage.alias_sites, not driven",
        "`hdr pdfs` model: the scanner named by 'originating system' enters as a parameter (known?, its three timing values: Scanner::get_scanner_from_name is not modelled); the timing "
        "keys carry integer values (only their sign is used); keys outside the model (type of data, number format, PET data type, the other scanner keys ...) keep the values the "
        "library wrote; 'Scanner geometry' stays Cylindrical in the generated texts; the theorem C17_pdfs_accepted_tof_consistent ties the TOF bins of the geometry to the MEMBER "
        "num_timing_poss for every text; that this member equals what the final 'number of dimensions' / 'matrix size [5]' lines say is find_storage_order for texts with each size "
        "key once, and oracle-only (part 2, clean texts) otherwise",
        "per-segment model: sums of ring differences are small (no int overflow, exact as float); the geometry checks of the ProjDataInfo constructors are not modelled",
        "`hdr` ops: float-valued keys carry integer values (the model keeps them as integers), data offsets are small non-negative, 'version of keys' is never STIR3.0, keys the "
        "model does not have (originating system, radionuclide, patient position, dates, bed position, calibration factor, quantification units) do not occur; the projection-data "
        "header with re-ordered keys is modelled as far as the sizes go (`hdr pdfs`), the rest is covered by the part-2 oracle; 'type of data' keeps its place in the value-equality "
        "oracle (keys that exist only after 'type of data := PET' are unknown keywords before it: warning only, compared with the model but not with the writer's order)",
        "`po` model: the KeyParser pointers of one parser are abstracted to ONE owner object (initialise_keymap registers all keys with members of `this`); nested parsing objects "
        "(shared_ptr members, shared between a copy and its original) are covered by the part-2 histories only; Scanner is not a ParsingObject (no copy history)",
        "copy histories: classes whose clone() is not implemented (SPECT UB matrices) or that need a matrix file are listed in coverage.fuzz_copy_history_classes, not failed; the "
        "generic mutation families do not run on the parametric-image reader (only the key-order family and the library's own header)",
        "the header-facts oracle of part 2 applies only where an independent strict scan of the text is unambiguous (no continuation/CR, each size-bearing key once, "
        "plain integer / {list} values); other accepted inputs are judged by data-file size and sanitizers only"]
    if audit:
        vlib.proof_coverage(chk, audit, "cd lean && lake build StirVerif stirdriver && lake env lean ../build/out/Audit_C17.lean")
    return chk.finish()
