"""C17 — text and header input is parsed faithfully or rejected, never mis-handled.
Lean: StirVerif/C17 (model of the KeyParser text core + theorems).
Tie: hand-written model + correspondence (harness/c17_keyparser.cxx vs lean/Driver/C17.lean, line by line).
Oracle: registry round trip / keyword matching / aliases / vectorised keys on the implementation (part 1),
robustness of KeyParser::parse, read_interfile_image, read_interfile_PDFS, MultipleDataSetHeader under
AddressSanitizer + UBSan with the anchored STIR sources compiled *instrumented* into the harness (part 2,
harness/c17_fuzz.cxx): runtime evidence, not a theorem."""
import os
import vlib

PROP = "C17"


def main(tier, replay):
    if replay:
        for l in open(replay):
            if l.startswith("# seed="):
                os.environ["VERIF_SEED"] = l.split("seed=")[1].split()[0]
                tier = l.split("tier=")[1].split()[0]
    chk = vlib.Check(PROP, tier, level="proof")
    audit = vlib.lean_gate(chk, PROP)
    stats = vlib.run_differential(chk, PROP, "c17_keyparser", tier, max_report=8)
    classes = []
    cf = os.path.join(vlib.OUT, "c17_%s.impl.classes" % tier)
    if os.path.exists(cf):
        classes = [l.rstrip("\n") for l in open(cf)]
    vlib.standard_coverage(chk, stats,
        "real KeyParser (get_keyword, standardise_keyword, add_key/add_vectorised_key/add_alias_key, parse, parameter_info) against the Lean model, "
        "one line per operation: keywords/lines of Interfile headers written by the library and of parameter_info() of every constructible "
        "registered class, seeded grammar-aware mutations (value/index replacement, line deletion/duplication/swap, truncation at line and byte, "
        "CR/LF, continuation, ':=' damage, equivalent and damaged keywords) on a fixed probe table, tables derived from library-written headers and random tables. "
        "distinct = distinct operation lines. Oracle on the implementation: parameter_info->parse->parameter_info for every class of 19 registry roots "
        "(enumerated at run time, each in a child process; also after accepted numeric value replacements), case/white-space-insensitive keyword matching, "
        "alias resolution, vectorised keys at the index given, KeyParser round trip on random printable values.",
        extra=dict(registered_classes=classes,
                   classes_round_trip_same=len([c for c in classes if "| same |" in c]),
                   classes_not_constructible=len([c for c in classes if "not-constructible" in c])))
    chk.assumptions += [
        "characters are bytes in the \"C\" locale; NUL bytes and ${ENV} substitution are not modelled (generators avoid them)",
        "floating point / unsigned / long values, arrays, coordinates and nested parsing objects are not in the Lean model: they are covered by the round-trip oracle on the implementation only",
        "atoi/strtol and istream>>int follow glibc/libstdc++ on x86-64 (saturation at LONG_MIN/MAX then wrap to 32 bit; failbit on int overflow)",
        "memory safety, allocation size and termination under arbitrary input are runtime evidence (sanitizer run), not theorems",
        "classes that cannot be constructed without external data are listed in coverage.registered_classes, not failed"]
    if audit:
        vlib.proof_coverage(chk, audit, "cd lean && lake build StirVerif stirdriver && lake env lean ../build/out/Audit_C17.lean")
    return chk.finish()
