"""C13 — bin normalisation: apply and undo are inverse and match the bin efficiency."""
import os
from fractions import Fraction
import vlib

PROP = "C13"
TINY = Fraction(1, 10 ** 37)


def _num(tok):
    """implementation token: C99 hex float (exact) or a small error token"""
    try:
        return Fraction(float.fromhex(tok))
    except (ValueError, OverflowError):
        return None


def compare(op, impl, model):
    """Numeric answers: the model prints `exact@rel` (exact rational value of the real-number model and the derived relative
    forward-error bound of the float computation); the implementation prints the float it computed (hex).  Accept iff
    |impl - exact| <= rel * |exact| (+1e-37 for flush-to-zero).  Everything else is compared literally."""
    kind = op.split(" ", 1)[0]
    if kind not in ("apply", "undo", "eff", "apply1", "apply2", "undo1", "undo2", "acf"):
        return impl == model
    a, b = impl.split(), model.split()
    if len(a) != len(b):
        return False
    for x, y in zip(a, b):
        if "@" not in y:
            if x != y:
                return False
            continue
        val, rel = y.split("@")
        fx = _num(x)
        if fx is None:
            return False
        val, rel = Fraction(val), Fraction(rel)
        if abs(fx - val) > rel * abs(val) + TINY:
            return False
    return True


def main(tier, replay):
    if replay:
        for l in open(replay):
            if l.startswith("# seed="):
                os.environ["VERIF_SEED"] = l.split("seed=")[1].split()[0]
                tier = l.split("tier=")[1].split()[0]
    chk = vlib.Check(PROP, tier, level="proof")
    audit = vlib.lean_gate(chk, PROP)
    stats = vlib.run_differential(chk, PROP, "c13_binnorm", tier, compare=compare)
    vlib.standard_coverage(chk, stats,
        "real TrivialBinNormalisation / BinNormalisationFromProjData (non-TOF factors with non-TOF and TOF data, TOF factors, factors with more "
        "segments) / BinNormalisationFromAttenuationImage (ProjMatrixByBinUsingRayTracing forward projector with several symmetry settings, and "
        "its default projector ForwardProjectorByBinUsingRayTracing when none is given; x voxel size != z voxel size) / "
        "BinNormalisationPETFromComponents (efficiencies, geo, block; exactly-1, near-1, zero efficiencies; odd and even tangential size; "
        "scanners with 1-3 blocks per bucket in either direction, where the symmetry unit of the geometric factors is the bucket) / "
        "ChainedBinNormalisation (2 and 3 members, both nestings, empty, one null member on either side; the whole chain and its partial "
        "application apply_only_first/second, undo_only_first/second on related viewgrams and on whole data, is_first/second_trivial) / "
        "BinNormalisation base-class apply/undo and BinNormalisationWithCalibration through table-driven subclasses (zero and sub-1e-20 "
        "efficiencies), on generated block scanners (non-TOF span 1, TOF 5 and 9/3 positions, span 3 with view mashing): set_up, is_trivial, "
        "get_bin_efficiency for every bin, apply and undo of random data for every bin through RelatedViewgrams (trivial symmetries, 2-8 PET "
        "symmetry settings, the projector's symmetries) and through apply/undo(ProjData&) (default and PET symmetries).  One line per sinogram "
        "row; the Lean model recomputes every value exactly in Rat (exp in binary64) from the factor data / matrix rows sent as hex floats; "
        "for the `comphand` cases the per-bin component tables given to the model are built by hand in the harness (crystal pair of the bin; "
        "geometric factor = value of the symmetry class of the pair, classes by union-find under exchange, unit rotation, unit axial shift and "
        "the two mirrors; block factor = value of the unordered pair of blocks), not by apply_geo_norm/apply_block_norm/apply_efficiencies; "
        "for the default projector the matrix rows come from a separate ProjMatrixByBinUsingRayTracing (attenuation image empty near the edge "
        "of the field of view, where the two projectors differ).  Comparison rule |impl - exact| <= rel*|exact| with rel = 4*k*2^-24 for k "
        "float roundings on the path (table 1, calibration 3, components 5, chains sum+1, a partial application of a chain: that member's) "
        "and rel = 16*((n+3)*M+1)*2^-24 for an n-element attenuation row with M = sum|a*mu*vx/10|.  Decisions compared literally: "
        "is_trivial, is_first/second_trivial (error for a null member), the chain constructor's refusal of two calibrated members, set_up of "
        "FromProjData for 5 kinds of factor geometry, the refusal by error() of the attenuation class on TOF data and of the components class "
        "on TOF / view-mashed / axially compressed data, and the check on use (`use2`): for each of FromProjData, base class, "
        "FromAttenuationImage, PETFromComponents, Trivial and 6 chain configurations, objects never set up / set up for the data's geometry / "
        "for more segments / for fewer segments / for non-TOF used on TOF / used on data with another ExamInfo, through related viewgrams and "
        "through whole data.  Oracle (all bins, on the implementation): undo multiplies by one data-independent finite factor (two data "
        "sets), positive for positive inputs, equal to get_bin_efficiency where reported; apply divides by it; apply(undo(d)) = "
        "undo(apply(d)) = d (1e-5) where the factor >= 1e-20; chain factor = product of member factors (null member = 1); each half of a "
        "chain multiplies/divides by that member's own factor, leaves the data untouched for a null member, and first-then-second equals the "
        "chain; is_first/second_trivial = the member's is_trivial; components factor = hand-computed product (1e-5); is_trivial => data "
        "unchanged; ACF = exp(line integral) with rows from a second matrix object (cache off), summed in the harness; FromProjData::apply multiplies by "
        "the stored factor at TOF position 0 for non-TOF factors; all call routes agree; set_up accepts/rejects the factor geometries it "
        "must; an object never set up or set up with fewer segments than the data is refused, one set up with more segments is accepted and "
        "gives the same values as one set up for exactly the data's geometry.")
    chk.assumptions += ["float rounding is bounded, not modelled; overflow/underflow of float not modelled (generated values stay in range)",
                        "matrix rows of the ray-tracing projector (also used as the expectation for the on-the-fly default projector: agreement "
                        "of the two away from the edge of the field of view is C04's subject), detector pairs of bins, and - for the cases "
                        "with library-expanded tables only - the symmetry expansion of geometric/block component factors are data for the "
                        "model (properties C03/C04, C01, C20)",
                        "ProjDataInfo::operator>= / operator== and ExamInfo::operator== are data for the check-on-use decisions (C01/C02)",
                        "a whole-data call on an attenuation object (or on the half of a chain that contains one) is made only with the "
                        "projector's own symmetries; apply_only_*/undo_only_*(ProjData&) cannot pass symmetries and are not called on such halves",
                        "exp is an abstract function in the theorems (E(a+b)=E(a)E(b), E>0) and binary64 exp in the driver"]
    if audit:
        vlib.proof_coverage(chk, audit, "cd lean && lake build StirVerif.C13.Props Driver.C13 && lake env lean ../build/out/Audit_C13.lean")
    return chk.finish()
