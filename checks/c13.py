"""C13 — bin normalisation: apply and undo are inverse and match the bin efficiency."""
import os
from fractions import Fraction
import vlib

PROP = "C13"
TINY = Fraction(1, 10 ** 37)


def _num(tok):
    """implementation token: C99 hex float (exact) or a small error token"""
    try:
        return Fraction(float.fromhex(tok))
    except (ValueError, OverflowError):
        return None


def compare(op, impl, model):
    """Numeric answers: the model prints `exact@rel` (exact rational value of the real-number model and the derived relative
    forward-error bound of the float computation); the implementation prints the float it computed (hex).  Accept iff
    |impl - exact| <= rel * |exact| (+1e-37 for flush-to-zero).  Everything else is compared literally."""
    kind = op.split(" ", 1)[0]
    if kind not in ("apply", "undo", "eff", "apply1", "apply2", "undo1", "undo2", "acf"):
        return impl == model
    a, b = impl.split(), model.split()
    if len(a) != len(b):
        return False
    for x, y in zip(a, b):
        if "@" not in y:
            if x != y:
                return False
            continue
        val, rel = y.split("@")
        fx = _num(x)
        if fx is None:
            return False
        val, rel = Fraction(val), Fraction(rel)
        if abs(fx - val) > rel * abs(val) + TINY:
            return False
    return True


def main(tier, replay):
    if replay:
        for l in open(replay):
            if l.startswith("# seed="):
                os.environ["VERIF_SEED"] = l.split("seed=")[1].split()[0]
                tier = l.split("tier=")[1].split()[0]
    chk = vlib.Check(PROP, tier, level="proof")
    audit = vlib.lean_gate(chk, PROP)
    stats = vlib.run_differential(chk, PROP, "c13_binnorm", tier, compare=compare)
    vlib.standard_coverage(chk, stats,
        "real TrivialBinNormalisation / BinNormalisationFromProjData (non-TOF factors with non-TOF and TOF data, TOF factors, factors with more "
        "segments) / BinNormalisationFromAttenuationImage (ProjMatrixByBinUsingRayTracing forward projector with several symmetry settings, and "
        "its default projector ForwardProjectorByBinUsingRayTracing when none is given; x voxel size != z voxel size) / "
        "BinNormalisationPETFromComponents (efficiencies, geo, block; exactly-1, near-1, zero efficiencies; odd and even tangential size; "
        "scanners with 1-3 blocks per bucket in either direction, where the symmetry unit of the geometric factors is the bucket) / "
        "ChainedBinNormalisation (2 and 3 members, both nestings, empty, one null member on either side; the whole chain and its partial "
        "application apply_only_first/second, undo_only_first/second on related viewgrams and on whole data, is_first/second_trivial) / "
        "BinNormalisation base-class apply/undo and BinNormalisationWithCalibration through table-driven subclasses (zero and sub-1e-20 "
        "efficiencies), on generated block scanners (non-TOF span 1, TOF 5 and 9/3 positions, span 3 with view mashing): set_up, is_trivial, "
        "get_bin_efficiency for every bin, apply and undo of random data for every bin through RelatedViewgrams (trivial symmetries, 2-8 PET "
        "symmetry settings, the projector's symmetries) and through apply/undo(ProjData&) (default and PET symmetries).  One line per sinogram "
        "row; the Lean model recomputes every value exactly in Rat (exp in binary64) from the factor data / matrix rows sent as hex floats; "
        "for the `comphand` cases the per-bin component tables given to the model are built by hand in the harness (crystal pair of the bin; "
        "geometric factor = value of the symmetry class of the pair, classes by union-find under exchange, unit rotation, unit axial shift and "
        "the two mirrors; block factor = value of the unordered pair of blocks), not by apply_geo_norm/apply_block_norm/apply_efficiencies; "
        "for the default projector the matrix rows come from a separate ProjMatrixByBinUsingRayTracing (attenuation image empty near the edge "
        "of the field of view, where the two projectors differ).  Comparison rule |impl - exact| <= rel*|exact| with rel = 4*k*2^-24 for k "
        "float roundings on the path (table 1, calibration 3, components 5, chains sum+1, a partial application of a chain: that member's) "
        "and rel = 16*((n+3)*M+1)*2^-24 for an n-element attenuation row with M = sum|a*mu*vx/10|.  Decisions compared literally: "
        "is_trivial, is_first/second_trivial (error for a null member), the chain constructor's refusal of two calibrated members, set_up of "
        "FromProjData for 5 kinds of factor geometry, the refusal by error() of the attenuation class on TOF data and of the components class "
        "on TOF / view-mashed / axially compressed data, and the check on use (`use2`): for each of FromProjData, base class, "
        "FromAttenuationImage, PETFromComponents, Trivial and 6 chain configurations, objects never set up / set up for the data's geometry / "
        "for more segments / for fewer segments / for non-TOF used on TOF / used on data with another ExamInfo, through related viewgrams and "
        "through whole data.  Oracle (all bins, on the implementation): undo multiplies by one data-independent finite factor (two data "
        "sets), positive for positive inputs, equal to get_bin_efficiency where reported; apply divides by it; apply(undo(d)) = "
        "undo(apply(d)) = d (1e-5) where the factor >= 1e-20; chain factor = product of member factors (null member = 1); each half of a "
        "chain multiplies/divides by that member's own factor, leaves the data untouched for a null member, and first-then-second equals the "
        "chain; is_first/second_trivial = the member's is_trivial; components factor = hand-computed product (1e-5); is_trivial => data "
        "unchanged; ACF = exp(line integral) with rows from a second matrix object (cache off), summed in the harness; FromProjData::apply multiplies by "
        "the stored factor at TOF position 0 for non-TOF factors; all call routes agree; set_up accepts/rejects the factor geometries it "
        "must; an object never set up or set up with fewer segments than the data is refused, one set up with more segments is accepted and "
        "gives the same values as one set up for exactly the data's geometry.  "
        "HISTORIES ON ONE OBJECT (third extension): for every class whose API allows a change between two set_up calls, one object is set up "
        "4-14 times and after EVERY set_up all oracles above and all correspondence lines run again (the model is given the factors as they "
        "are at that call) and is_trivial, get_bin_efficiency of every bin, undo and apply (first and last route) are compared BITWISE with a "
        "fresh object configured identically and set up once: BinNormalisationPETFromComponents (set_up without allocate is refused; "
        "allocate, random factors, efficiencies / geometric / block factors rewritten in place one array at a time, all set to 1 -> is_trivial "
        "must be true and the data unchanged, random again, another geometry (other number of tangential positions, possibly fewer segments) "
        "with the same and with new factors, one element changed, allocate again with another set of components; the Lean side keeps the "
        "object as the state machine CompObj (allocated / set up / _is_trivial / efficiency data) across the whole history: "
        "`hist <id> new|allocate|setup comp ...`), BinNormalisationWithCalibration through the table subclass (set_calibration_factor "
        "invalidates the set-up state: undo/apply must be refused until set_up, set_radionuclide, table rewritten in place, TOF data, another "
        "geometry, unknown branching ratio = 1; state machine CalibObj: `hist <id> newcalib|setcal|setbr|setup calib|usable`), "
        "BinNormalisationFromProjData (non-TOF factors: non-TOF data, TOF data, fewer segments, factors rewritten in place through the "
        "ProjData the object holds), BinNormalisationFromAttenuationImage with a matrix projector and with its default projector (square and "
        "non-square voxels; other number of tangential positions, fewer segments, first geometry again), and a nested "
        "ChainedBinNormalisation(Chained(components, attenuation), calibrated table) of which ONLY the outer chain is set up again after the "
        "members' factors were changed in place / for another geometry (the chain-product, partial-application and is_first/second_trivial "
        "oracles then compare the re-used chain with fresh members configured identically, each set up and measured on its own).  "
        "NON-SQUARE IN-PLANE VOXELS: in every non-TOF span-1 geometry three more attenuation objects with voxel sizes (x,y) = (a,b) and (b,a), "
        "a/b = 1.5 or 1.1, z different from both, given projector and default projector (rows for the model from the separate matrix object, "
        "vx = the X voxel size); and (`acf` lines, section J) on scanners with 32-64 detectors per ring, 2-3 rings, 9-16 tangential "
        "positions: a map that is mu (0.05-0.2 cm^-1) inside an off-centre box of whole voxels / inside a cylinder, in every plane, in images "
        "of 25-41 voxels across with both orientations of the voxel-size ratio (1.5 in even rounds, 1.1 in odd rounds), through the "
        "constructor from an image object, the constructor from a file name (Interfile written by the harness) and the parsed route "
        "(text parameters), each with a matrix projector given and with none: for EVERY bin log(ACF) must equal mu/10 x (length in mm of "
        "the LOR inside the box, resp. the sum over the voxels of the cylinder of the length inside each voxel's rectangle, each by "
        "clipping the segment between the two end points of ProjDataInfo::get_LOR - no projector, no matrix row, no voxel-size unit on the "
        "expectation side) within 2e-4 relative + 2e-5 (the ray tracing works on float coordinates; observed <= 2e-5), the smooth "
        "cylinder's exp(mu x 2 sqrt(R^2-d^2)) within 20 % for d <= 0.6 R, undo(apply(1)) = 1; for every 7th (thorough: 3rd) bin of the box "
        "cases the Lean model computes the same factor itself (`acfBox` at binary64: clipping, sqrt, exp) and the answer is compared with "
        "rel = 2e-4.  "
        "ONE OBJECT THROUGH CONSTRUCTORS, parse() AND set_up (fourth extension, section K; ParsingObject::parse does not call "
        "set_defaults): for every normalisation class with parsing keys that needs no scanner files - BinNormalisationFromProjData "
        "(factor files written by the harness as Interfile: non-TOF factors A, B, TOF factors C; objects made by the default constructor, "
        "from a file name, from a ProjData object; parse A -> set_up -> use -> parse B -> ... -> parse C with TOF data -> parse A with TOF "
        "data (possibly one TOF bin) -> set_up again for fewer segments -> two parses without a set_up in between (`usable`: the object "
        "stays set up) -> parse B), BinNormalisationFromAttenuationImage (two image files of different size / voxel size / values and one "
        "image object; default constructor, constructor from an image object, from a file name; parse with a matrix projector block, with "
        "another one, without a projector key; set_up again for fewer segments) and ChainedBinNormalisation (default constructor and "
        "constructor from member objects with a null member; texts (FromProjData A, Attenuation A), (Attenuation B, FromProjData B), "
        "(None, FromProjData A), (Attenuation A, None), (FromProjData B, Attenuation A); `usable` after a parse: the new members were never "
        "set up) - after EVERY set_up all oracles above run (the expectations - stored factors, matrix rows x voxel values, member "
        "factors measured on fresh member objects - come from the data the harness wrote into the files, not from the object), every "
        "correspondence line runs, and is_trivial / get_bin_efficiency / undo / apply are compared BITWISE with a fresh object parsed once "
        "with the same text.  The Lean side follows each object as a state machine across the whole history (`hist <id> "
        "newfpd|ctorfpd|parse fpd|setup fpd`, `newatten|ctoratten file|image|parse atten|setup atten <images offered so far>`, "
        "`newchain|parse chain <member|null|->|setup chain`): FpdObj (stored factors replaced unconditionally by parse; set_up sets the "
        "state before it compares), AttenObj (which image the object holds and whether post_processing has rescaled it: the file is "
        "read whenever a file name is known and the image is rescaled once - repaired code, fix C13-1; instance C13_atten_second_parse), "
        "ChainObj (members replaced per key, None = null).  "
        "TOF DATA MASHED TO ANY NUMBER OF TOF BINS (section C/E): scanners with 5 / 9 / 15 TOF bins, mashing factor 1, a proper divisor "
        "(9/3, 15/3, 15/5) and the maximum (ONE TOF bin: is_tof_data() is true) in every round: trivial, table, calibrated, FromProjData "
        "with non-TOF and with TOF factors, chains of them, the same with factors that have more segments than the data; set_up must "
        "succeed (a refusal is an ORACLE-FAIL) and apply must multiply by the stored factor (TOF position 0 for non-TOF factors); "
        "set_up decisions (`setup fpdtof`): the harness sends the TOF mashing factors of factors and data and the five comparisons of the "
        "factor geometry with the data geometry as it is AND with its non-TOF clone - which of the two counts is decided by the model "
        "(fromProjDataSetUpTof: the clone iff the factors are not TOF data and the data are, by is_tof_data, not by the number of TOF "
        "bins) - for non-TOF / TOF factors of the data's mashing, of every other admissible mashing factor (must be refused), other "
        "tangential sizes, TOF factors with non-TOF data (refused); is_TOF_only_norm of every FromProjData object (`tofonly`); the "
        "attenuation class refuses TOF data with one TOF bin as it refuses all TOF data (model: is_tof_data() is the test - repaired code, "
        "fix C13-2; if it ever accepts them the factors must be those of the non-TOF clone).")
    chk.assumptions += ["float rounding is bounded, not modelled; overflow/underflow of float not modelled (generated values stay in range)",
                        "matrix rows of the ray-tracing projector (also used as the expectation for the on-the-fly default projector: agreement "
                        "of the two away from the edge of the field of view is C04's subject), detector pairs of bins, and - for the cases "
                        "with library-expanded tables only - the symmetry expansion of geometric/block component factors are data for the "
                        "model (properties C03/C04, C01, C20)",
                        "ProjDataInfo::operator>= / operator== and ExamInfo::operator== are data for the check-on-use decisions (C01/C02)",
                        "a whole-data call on an attenuation object (or on the half of a chain that contains one) is made only with the "
                        "projector's own symmetries; apply_only_*/undo_only_*(ProjData&) cannot pass symmetries and are not called on such halves",
                        "exp is an abstract function in the theorems (E(a+b)=E(a)E(b), E>0) and binary64 exp in the driver",
                        "histories: the component arrays / factor data of a re-used object are read by the harness at each set_up and given "
                        "to the model as data; what the object answers BETWEEN an in-place change and the next set_up is not compared (for "
                        "the calibrated class the model says it, C13_calibration_setters, but only `usable` is asked); members of a chain "
                        "cannot be replaced through the API (no setters), only changed in place; an attenuation image cannot be changed "
                        "after construction (the object holds a rescaled clone)",
                        "section J: the end points of a bin's LOR (ProjDataInfo::get_LOR, LORAs2Points: C01) are data for the analytic "
                        "expectation; the image has one plane more on each side than the scanner (in the standard image the tube of "
                        "response of an end ring is 1/4 outside the image, and the factor there is smaller by design); maps are uniform "
                        "in z; the `acf` tolerance 2e-4 is an observed-error budget, not a derived bound",
                        "section K: reading a factor / image file back (ProjData::read_from_file, read_from_file<DiscretisedDensity>, the "
                        "Interfile writers) is C02/C10's subject: the model is given the values the harness wrote, and the comparison of the "
                        "geometry read back with the data geometry is data; texts always give every key (with another value) that the "
                        "previous text gave - that a key that does not occur leaves the old value alone (KeyParser) is modelled for the "
                        "members of a chain only; the projector made by the parser is taken to have the settings of the text and "
                        "defaults otherwise; BinNormalisationPETFromComponents and BinNormalisationWithCalibration have no parsing keys, "
                        "the calibrated classes with keys (ECAT7/ECAT8/GE HDF5/SPECT) need scanner files; a default-constructed "
                        "FromProjData / FromAttenuationImage object is never set up before it has been parsed (null pointer dereference "
                        "in the C++)",
                        "TOF data with one TOF bin are not given to the attenuation class with its default projector "
                        "(ForwardProjectorByBinUsingRayTracing ends in error() or SIGSEGV there: C04's subject)"]
    if audit:
        vlib.proof_coverage(chk, audit, "cd lean && lake build StirVerif.C13.Props Driver.C13 && lake env lean ../build/out/Audit_C13.lean")
    return chk.finish()
