"""C13 — bin normalisation: apply and undo are inverse and match the bin efficiency."""
import os
from fractions import Fraction
import vlib

PROP = "C13"
TINY = Fraction(1, 10 ** 37)


def _num(tok):
    """implementation token: C99 hex float (exact) or a small error token"""
    try:
        return Fraction(float.fromhex(tok))
    except (ValueError, OverflowError):
        return None


def compare(op, impl, model):
    """Numeric answers: the model prints `exact@rel` (exact rational value of the real-number model and the derived relative
    forward-error bound of the float computation); the implementation prints the float it computed (hex).  Accept iff
    |impl - exact| <= rel * |exact| (+1e-37 for flush-to-zero).  Everything else is compared literally."""
    kind = op.split(" ", 1)[0]
    if kind not in ("apply", "undo", "eff"):
        return impl == model
    a, b = impl.split(), model.split()
    if len(a) != len(b):
        return False
    for x, y in zip(a, b):
        if "@" not in y:
            if x != y:
                return False
            continue
        val, rel = y.split("@")
        fx = _num(x)
        if fx is None:
            return False
        val, rel = Fraction(val), Fraction(rel)
        if abs(fx - val) > rel * abs(val) + TINY:
            return False
    return True


def main(tier, replay):
    if replay:
        for l in open(replay):
            if l.startswith("# seed="):
                os.environ["VERIF_SEED"] = l.split("seed=")[1].split()[0]
                tier = l.split("tier=")[1].split()[0]
    chk = vlib.Check(PROP, tier, level="proof")
    audit = vlib.lean_gate(chk, PROP)
    stats = vlib.run_differential(chk, PROP, "c13_binnorm", tier, compare=compare)
    vlib.standard_coverage(chk, stats,
        "real TrivialBinNormalisation / BinNormalisationFromProjData (non-TOF factors with non-TOF and TOF data, TOF factors, factors with more "
        "segments) / BinNormalisationFromAttenuationImage (ProjMatrixByBinUsingRayTracing forward projector, several symmetry settings, x voxel "
        "size != z voxel size) / BinNormalisationPETFromComponents (efficiencies, geo, block; exactly-1, near-1, zero efficiencies; odd and even "
        "tangential size) / ChainedBinNormalisation (2 and 3 members, both nestings, empty) / BinNormalisation base-class apply/undo and "
        "BinNormalisationWithCalibration through table-driven subclasses (zero and sub-1e-20 efficiencies), on generated block scanners "
        "(non-TOF span 1, TOF 5 and 9/3 positions, span 3 with view mashing): set_up, is_trivial, get_bin_efficiency for every bin, "
        "apply and undo of random data for every bin through RelatedViewgrams (trivial symmetries, 2-8 PET symmetry settings, the projector's "
        "symmetries) and through apply/undo(ProjData&) (default and PET symmetries).  One line per sinogram row; the Lean model recomputes "
        "every value exactly in Rat (exp in binary64) from the factor data / matrix rows sent as hex floats; comparison rule "
        "|impl - exact| <= rel*|exact| with rel = 4*k*2^-24 for k float roundings on the path (table 1, calibration 3, components 5, chains sum+1) "
        "and rel = 16*((n+3)*M+1)*2^-24 for an n-element attenuation row with M = sum|a*mu*vx/10|.  Oracle (all bins, on the implementation): "
        "undo multiplies by one data-independent finite factor (two data sets), positive for positive inputs, equal to get_bin_efficiency where "
        "reported; apply divides by it; apply(undo(d)) = undo(apply(d)) = d (1e-5) where the factor >= 1e-20; chain factor = product of member "
        "factors; is_trivial => data unchanged; ACF = exp(line integral) with independently computed rows (no symmetries, no cache); "
        "FromProjData::apply multiplies by the stored factor at TOF position 0 for non-TOF factors; all call routes agree; set_up accepts/"
        "rejects the factor geometries it must.")
    chk.assumptions += ["float rounding is bounded, not modelled; overflow/underflow of float not modelled (generated values stay in range)",
                        "matrix rows of the ray-tracing projector, detector pairs of bins and the symmetry expansion of geometric/block "
                        "component factors are data for the model (properties C03/C04, C01, C20)",
                        "exp is an abstract function in the theorems (E(a+b)=E(a)E(b), E>0) and binary64 exp in the driver"]
    if audit:
        vlib.proof_coverage(chk, audit, "cd lean && lake build StirVerif.C13.Props Driver.C13 && lake env lean ../build/out/Audit_C13.lean")
    return chk.finish()
