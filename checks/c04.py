"""C04 — matched projector pairs are linear, adjoint and additive over pieces."""
import os
import vlib

PROP = "C04"
EPS = 2.0 ** -24


def _num(tok):
    """'num/den' or 'int' -> float (correctly rounded)"""
    if "/" in tok:
        a, b = tok.split("/")
        return int(a) / int(b)
    return float(int(tok))


def compare(op, impl, model):
    """Numeric answers: the implementation prints `float`s (hex), the model `value|M|n` with the exact value, the
    magnitude M = sum |terms| and the number n of accumulated terms; accept iff |f - value| <= 4 (n+1) 2^-24 M
    (forward error bound of an n-term float sum of products, any order).  Everything else: equal strings."""
    if impl == model:
        return True
    kind = op.split(" ", 1)[0]
    if kind in ("sqchord", "cylchord"):
        # end points of a ray: the harness computes in double (slab clipping), the model exactly with the code's formula.
        # Forward error of the <= 6 double operations: 8 2^-53 (F + |s|) / min(|cos|,|sin|) -- 1e-9 of that is ample.
        # The verdict some/none may differ only if the chord is within that of the cut-off 1.E-3 voxel_size.x.
        try:
            par = [float.fromhex(t) for t in op.split()[1:]]
            a, b = impl.split(), model.split()
            if len(a) != len(b) or len(a) < 1:
                return False
            div = 1.0 if kind == "cylchord" else max(min(abs(par[2]), abs(par[3])), 1e-3)
            scale = (par[0] + abs(par[1])) * (par[0] + abs(par[1]) if kind == "cylchord" else 1.0 / div)
            tol = 1e-9 * scale
            vals = [(float.fromhex(x), _num(t)) for x, t in zip(a[1:], b[1:])]
            if not all(abs(f - v) <= tol for f, v in vals):
                return False
            if a[0] == b[0]:
                return True
            return kind == "sqchord" and len(vals) == 2 and abs(vals[0][1] - (vals[1][1] - 1e-3 * par[4])) <= 2 * tol
        except (ValueError, ZeroDivisionError, IndexError):
            return False
    if kind not in ("fwd", "fwd2", "fwdg", "bout", "binto", "rfwd", "rbck"):
        return False
    a, b = impl.split(), model.split()
    if len(a) != len(b) or not a or "|" not in b[0]:
        return False
    try:
        for x, t in zip(a, b):
            v, m, n = t.split("|")
            f = float.fromhex(x)
            if not abs(f - _num(v)) <= 4.0 * (_num(n) + 1.0) * EPS * _num(m):
                return False
    except (ValueError, ZeroDivisionError):
        return False
    return True


def main(tier, replay):
    if replay:
        for l in open(replay):
            if l.startswith("# seed="):
                os.environ["VERIF_SEED"] = l.split("seed=")[1].split()[0]
                tier = l.split("tier=")[1].split()[0]
    chk = vlib.Check(PROP, tier, level="proof")
    audit = vlib.lean_gate(chk, PROP)
    stats = vlib.run_differential(chk, PROP, "c04_projectors", tier, compare=compare)
    stats["samples"] = [s[:300] for s in stats.get("samples", [])]
    counts = {}
    of = os.path.join(vlib.OUT, "c04_%s.impl.oracle" % tier)
    notes = []
    if os.path.exists(of):
        for l in open(of):
            if l.startswith("COUNT "):
                _, k, v = l.split()
                counts[k] = int(v)
            elif l.startswith("NOTE "):
                notes.append(l.strip()[:300])
    vlib.standard_coverage(chk, stats,
        "real ProjMatrixByBinUsingRayTracing / ProjMatrixByBinUsingInterpolation, ForwardProjectorByBinUsingProjMatrixByBin, "
        "BackProjectorByBinUsingProjMatrixByBin, ProjectorByBinPairUsingProjMatrixByBin, ProjectorByBinPairUsingSeparateProjectors, "
        "PresmoothingForwardProjectorByBin, PostsmoothingBackProjectorByBin, ForwardProjectorByBinUsingRayTracing, "
        "ProjMatrixElemsForOneBin, RelatedViewgrams on ProjDataInMemory, for generated geometries: cylindrical 8-16 detectors x 2-3 rings, "
        "span 1/3, view mashing, arc-corrected or not, TOF (5 bins or mashed to 1), BlocksOnCylindrical 12/16 detectors (TOF and non-TOF); "
        "images 5-9 voxels across (blocks 15/17) covering 50-100% of the field of view, 2R-1 / 2R-3 / 2R+1 planes (rows then contain planes "
        "outside the image: z guard), z origin 0 / +-1 / +2 planes, square or x/y-anisotropic voxels (cylindrical worlds); in 5 of 8 worlds "
        "(cylindrical, TOF, blocks) an index range whose FIRST PLANE IS NOT 0 - centred (-4..4), straddling (-2..6), all negative, "
        "positive (1.., 3.., 7..) - built with VoxelsOnCartesianGrid(exam_info, IndexRange3D, origin, voxel_size), in a third of them with "
        "0-2 extra columns/rows at either end of the x and y ranges; every operation and oracle below runs on these grids too; 1-3 tangential "
        "LORs, random symmetry flags, cylindrical/square FOV, detector-boundary option; cache on (per-bin branch) and off "
        "(explicit-symmetries branch). "
        "CORRESPONDENCE: the rows of a separate matrix object with the same settings (hex floats), the symmetry tables "
        "(is_basic / related view-segments / find_basic_bin+get_related_bins_factorised) and random small-integer images and data are sent "
        "to the Lean model, which recomputes exactly in Rat: forward projection of the whole data, sampled (subset_num,num_subsets,zero), "
        "chained subsets without zeroing, rejected subset arguments, related viewgrams over the full range / an axial sub-range / an "
        "axial+tangential sub-range (values and frame inside the viewgrams), every state of the back projector (set_up clone, "
        "start_accumulating_in_new_target, back_project of subsets and sub-ranges, get_output, back_project(image,..)), "
        "the same projectors called with a ProjData SMALLER than the set-up geometry (fewer segments, trimmed tangential range - symmetric, "
        "containing 0 or arbitrary -, axial ranges trimmed at either end; whole data, a subset with and without zeroing, back projection "
        "accumulated: ops sub/rel2/fwd2/bsub2, the model runs fwdSubset/bckSubset with the geometry, layout and related-position lists of "
        "the smaller data and the rows of the set-up geometry), pre-/post- data processors of set_input/get_output (harness-defined, exact "
        "on small integers: image*=c, the symmetric stencil [1 2 1] along x, one that fails -> err; get_output twice; "
        "back_project(image,..); removal of the processor), the projectors handed out by ProjectorByBinPairUsingSeparateProjectors, "
        "(once docs/fixes/C04-3 is in /repo) Presmoothing/Postsmoothing projectors as forward_project / back_project with the stencil as "
        "processor, and ProjMatrixElemsForOneBin::forward_project/back_project called directly on random rows (planes outside the image, "
        "bins that come in with a value, data == 0). "
        "HISTORIES (ops mnew/mset/mdef/mget + the projection ops): 3 (thorough 12) histories - cylindrical non-TOF, TOF, span 3, blocks - in "
        "which ONE ray-tracing matrix with separate forward/back projector (default cache: basic bins only), ONE "
        "ProjectorByBinPairUsingProjMatrixByBin (every bin cached), one with the cache disabled and one interpolation matrix are set_up in "
        "turn for grid 1, X, grid 1, Y, grid 1, Z, grid 1, ... with X,Y,Z drawn from: same size/other voxel size, z origin one plane off, "
        "other size, same size/other first plane, fewer segments, axial range trimmed, tangential range trimmed, another scanner (ring "
        "radius x1.25) with the same views and segments; after every set_up 12 rows are requested from the old matrix and answered by the "
        "model's MatrixObj state machine (set_up / ray-tracing shortcut / cache lookup and insert in both cache modes; the fresh rows are "
        "data), a subset and (2 of 3 steps) the whole data are forward and back projected by the OLD objects, and for one object per "
        "step the Lean model answers these projections from the rows and symmetry tables of a FRESH matrix for that geometry (fwd S/F, "
        "bsetup, bsub, bout, bstart). A float answer f is accepted iff |f - exact| <= 4(n+1)2^-24 M, M = sum|terms| and "
        "n = number of terms both computed by the model (same definitions run on absolute values / on 0-1 patterns; after a "
        "post-processor: |processor| applied to M, to n, plus 4). "
        "ORACLE on the implementation alone: projection = matrix product (both directions); <Ax,y>=<x,A'y> within "
        "4(L+C+2)2^-24 sum|x||A||y| (L longest row, C most contributions to a voxel) for the whole data, EVERY (subset_num,num_subsets) up to "
        "the number of views, every related-viewgram group x TOF bin, random sub-ranges, the smaller ProjData, and through a self-adjoint "
        "pre-/post-processor pair (4x the bound with |P||x|); subset / sub-range / smaller-ProjData projection = restriction of "
        "the whole (bitwise); frame (untouched / zeroed, bitwise) also for the smaller ProjData; subsets one after the other = at once "
        "(forward bitwise, back within the bound); sums over subsets / over groups = whole; accumulation and reset of the back projector; "
        "linearity A(2x+x')=2Ax+Ax', A'(2y+y')=2A'y+A'y', also through RelatedViewgrams arithmetic; processors: projection of the "
        "processed image, scaling processor scales, caller's image untouched, processor applied exactly once in set_input and not at all "
        "in back_project, get_output idempotent, failing processor throws; SeparateProjectors pair = ProjMatrixByBin pair (bitwise) and "
        "adjoint; Presmoothing forward = projection of the smoothed image, Postsmoothing back = smoothed back projection, the two adjoint; "
        "row level: merge = sum, scaling, exact adjointness; "
        "histories: set_up of an old object succeeds iff that of a fresh one does; rows, forward and back projection (subset and whole) of "
        "the old objects = those of fresh objects BITWISE; = matrix product with fresh rows; adjointness (whole and subset) after the "
        "history; on-the-fly projector (a fresh one and one set_up through the same history, bitwise equal) = matrix projector of object A; "
        "on-the-fly ray tracing vs matrix (1 LOR, same settings) with restrict_to_cylindrical_FOV true AND false (the latter through the "
        "parser), 4/6/8 and 6-20 views (multiples of 4, 4k+2; an odd number must be refused by set_up), odd/even image sizes, "
        "2R-3/2R-1/2R+1 planes, z origin off by whole planes, first plane not 0 and extra columns (half of the on-the-fly worlds; a fixed "
        "probe decides whether the projector handles such grids: if it shows exactly the signature `planes of negative index ignored` "
        "this is the known candidate on-the-fly-raytracing:image-first-plane-not-0 (repair docs/fixes/C04-4.diff), grids with a "
        "positive first plane are then not given to it and on those with a negative one only the whole-data comparison is made, "
        "against the projection of the image without these planes), anisotropic voxels, voxel z = ring spacing, span 1/3: whole data, subsets, "
        "a smaller ProjData (vs its own whole-data projection and vs the matrix), a x2 pre-processor (bitwise), and for EVERY segment "
        "0..max a set of basic views (0, 1, V/4, V/2, 2 random) x {full range, random axial+tangential sub-range (5-argument overload), "
        "axial sub-range} + the 02c0a3d12 class + pre-filled viewgrams, with tolerance 1e-4 max(viewgram max, 0.05 max(A|x|)); bins whose "
        "LOR end point lies within 2e-3 voxel of a voxel boundary (or that only touch a corner of the square FOV) not compared (count in "
        "harness_counts). "
        "FIELD OF VIEW x SYMMETRIES x RAYS (round 4): on 3 small fixed-type worlds per run (thorough 24: cylindrical 16 detectors / 8 views, "
        "12 detectors / 6 views, and TOF 12 detectors with 5 timing positions; 2 rings, span 1, image 6-9 voxels across covering 70-100% of "
        "the field of view) the FULL cross product {restrict_to_cylindrical_FOV on, off (square)} x {all 32 combinations of "
        "do_symmetry_90degrees_min_phi / 180degrees_min_phi / swap_segment / swap_s / shift_z, so also every view symmetry off: rows of "
        "the views of 45..180 degrees computed directly, cos(phi) < 0} x {num_tangential_LORs 1, 2, 3} x {use_actual_detector_boundaries "
        "off, on} = 384 matrices per world, ALL views and bins: (1) GEOMETRY ORACLE, independent of the on-the-fly projector and of any "
        "other matrix: the harness' own 2D tracer cuts the LOR X = s cos(phi) + a sin(phi), Y = s sin(phi) - a cos(phi) of every ray "
        "(s, phi from ProjDataInfo, or from the detector pair when the detector boundaries are in use) at the cylinder / square of "
        "radius min(max_index, -min_index) * voxel_size and at the voxel column boundaries; every row must be NON-EMPTY when the chord "
        "exceeds 0.1 voxel, its sum must lie between chord / (cos(theta) voxel_size.x) and that plus the rest of the two end voxels "
        "(RayTraceVoxelsOnCartesianGrid traces the voxels containing the end points from face to face by design; in a direct plane the "
        "upper value exactly), and the sums over z per voxel column (y,x) must equal the 2D lengths (end columns: part of the chord .. "
        "full traversal), all within 0.5% + 0.005; TOF: sum over the timing positions, bounds multiplied with the smallest / largest "
        "coverage 1/2 sum_k[erf((high_k - d)/(sqrt2 sigma)) - erf((low_k - d)/(sqrt2 sigma))] over the planes of the row (std::erf); rays "
        "running along a voxel boundary or ending on one: columns not compared, sum with 1.5 voxels of room (count in harness_counts). "
        "The same oracle runs on the probe rows and the no-symmetry rows of EVERY ray-tracing setting of the random worlds above "
        "(blocks with the 5-voxel margin, TOF, span 3, view mashing, arc-corrected, anisotropic voxels, offset grids). "
        "(2) every row = the row of the same matrix without any symmetry within 2% (L1) + 0.02 (an oracle now, not a count). "
        "(3) 1 ray, no detector boundaries, non-TOF: forward projection through the matrix = sum over its rows (4(n+1)2^-24 M) and = "
        "the on-the-fly ForwardProjectorByBinUsingRayTracing with the same field of view, whole data, two images, for EACH of the 32 "
        "symmetry settings x both fields of view (tolerance 1e-4 max(viewgram max, 0.05 max A|x|) as above). "
        "(4) 2 (thorough 4) members of the cross product per world - the first always square field of view with both view "
        "symmetries off - go through the complete differential and oracles of a matrix setting (rows to the model, whole data / subsets "
        "/ groups / sub-ranges / smaller ProjData / processors, both cache modes). "
        "(5) CORRESPONDENCE for the end points: every ray of (1) is sent to the model (ops sqchord / cylchord with fov, s, cos, sin, "
        "voxel size as hex doubles); lean squareChord / cylChordSq transcribe ray_trace_one_lor's min_a / max_a "
        "(ProjMatrixByBinUsingRayTracing.cxx:478-526: sign(), the 1.E-3 branches, the 1.E-3 voxel cut-off) exactly in Rat, the harness "
        "answers with its own slab clipping in double; accepted iff the end points agree within 1e-9 (F+|s|)/min(|cos|,|sin|) and the "
        "some/none verdicts agree (unless the chord is within that of the cut-off). Theorems C04_square_fov_* / "
        "C04_cylindrical_fov_chord_exact: those end points bound exactly the part of the LOR inside the field of view for every sign of "
        "cos(phi), sin(phi). "
        "distinct = distinct op lines.",
        extra=dict(harness_counts=counts, harness_notes=notes[:8]))
    chk.assumptions += [
        "float rounding is bounded, not modelled: comparisons use the forward error bound 4(n+1)2^-24 sum|terms|",
        "matrix rows, symmetry tables and the storage layouts are data for the model (rows are C03's subject); "
        "the on-the-fly Siddon projector is compared on the implementation only (not modelled)",
        "on-the-fly comparison only where it sets up: cylindrical, non-TOF, even number of views, no view mashing (others counted as skipped / refused); "
        "it has one ray and no detector-boundary option, so num_tangential_LORs 2, 3, use_actual_detector_boundaries and TOF matrices are "
        "checked against the geometry oracle and the no-symmetry rows only",
        "rows computed with symmetries vs without symmetries: only counted at 1e-3 in the random worlds (C03's subject), an oracle at 2% "
        "L1 in the cross-product worlds",
        "geometry oracle: the float rounding of ray_trace_one_lor / RayTraceVoxelsOnCartesianGrid is inside the 0.5% + 0.005 tolerance, "
        "not modelled; the z distribution of a row (rays per axial position, overlap weights of direct planes, TOF kernel per plane) is "
        "not checked by it (sums over z only; TOF by coverage bounds); the tracing of the two end voxels from face to face is taken as "
        "designed (so the row sum is only bounded, chord <= sum <= chord + rest of the end voxels, not `= chord within a few %`, which the "
        "small images used here would violate by up to 30%); the s positions of the num_tangential_LORs rays and the detector-pair "
        "formula for phi, s are taken from the code's documentation (not independent); cross-product worlds have default index ranges, "
        "square voxels, 2 planes per ring, span 1, no mashing",
        "sqchord / cylchord: the implementation side of these operations is the harness' geometric computation (validated against "
        "the real rows by the geometry oracle), not a direct call of the static ray_trace_one_lor",
        "OpenMP off; data processors are the harness' own exact-arithmetic ones (what a STIR filter computes is C19's subject); "
        "smaller ProjData keep the views and TOF bins of the set-up geometry and are trimmed symmetrically in +-segment "
        "(ProjDataInfo::operator>= admits nothing else for views/TOF; asymmetric segment ranges are not exercised)",
        "Presmoothing/Postsmoothing projectors do not use the image passed in / return zeros in the unrepaired tree: reported as known "
        "candidates, no differential for them until docs/fixes/C04-3.diff is committed",
        "histories: what the matrix type computes for a geometry and the symmetry operations are data for MatrixObj (the driver treats every "
        "bin as basic and takes the row of a fresh matrix as `compute`); the theorems about MatrixObj assume coherent symmetries (basic bin "
        "of a basic bin = itself, its operation = identity); the setters of the matrix parameters (which reset already_setup) and a change "
        "of enable_cache / store_only_basic_bins_in_cache between set_ups are not part of the histories; x/y origin shifts are refused by the "
        "matrix and not generated",
        "on-the-fly projector on grids whose first plane is not 0: compared fully only once docs/fixes/C04-4.diff is in /repo",
        "extra columns/rows in x/y are not combined with x/y-anisotropic voxels: proj_Siddon also reads the voxel with x and y exchanged "
        "(for its 90-degrees symmetries, used or not) and reads outside an image whose centred x and y extents differ in voxels when "
        "voxel_size.x != voxel_size.y (seen as a crash of the repaired tree on planes 1..1, y -3..4, x -5..5, voxels 29.7 x 37.1 mm); "
        "not generated, not keyed",
    ]
    if audit:
        vlib.proof_coverage(chk, audit, "cd lean && lake build StirVerif stirdriver && lake env lean ../build/out/Audit_C04.lean")
    return chk.finish()
