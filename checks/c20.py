"""C20 — component-based normalisation: data conversions are lossless, ML steps descend."""
import os
import vlib
import gen_gate

PROP = "C20"
U24 = 2.0 ** -24


def _val(tok):
    """exact model value `num/den` (or `num`) -> float (correctly rounded; the bound below is ~1e-7 relative)"""
    if "/" in tok:
        n, d = tok.split("/")
        return int(n) / int(d)
    return float(int(tok))


def compare(op, impl, model):
    """Derived tolerance.  Model numeric answers are `n <k> v1 v2 ...` (exact rationals, k = number of float operations on the
    longest path of the implementation's computation; all terms non-negative so the magnitude of the sum of products is the
    value itself): accept |impl - exact| <= 4*k*2^-24*|exact|.  `kl`: both sides binary64 with the same libm `log`:
    accept |impl - model| <= 1e-9 * sum(a + b).  Everything else: exact string equality."""
    if model.startswith("n "):
        mt = model.split()
        it = impl.split()
        try:
            k = int(mt[1])
            if len(it) != len(mt) - 2:
                return False
            tol = 4.0 * k * U24
            for x, q in zip(it, mt[2:]):
                xv = float.fromhex(x)
                qv = _val(q)
                if xv != xv or not abs(xv - qv) <= tol * abs(qv):
                    return False
            return True
        except (ValueError, OverflowError, ZeroDivisionError):
            return False
    if model.startswith("kl "):
        try:
            _, v, mag = model.split()
            xv = float.fromhex(impl)
            return abs(xv - _val(v)) <= 1e-9 * (_val(mag) + 1.0)
        except (ValueError, OverflowError, ZeroDivisionError):
            return False
    return impl == model


def main(tier, replay):
    if replay:
        for l in open(replay):
            if l.startswith("# seed="):
                os.environ["VERIF_SEED"] = l.split("seed=")[1].split()[0]
                tier = l.split("tier=")[1].split()[0]
    chk = vlib.Check(PROP, tier, level="proof")
    audit = vlib.lean_gate(chk, PROP)
    # tie (T): storage keys, membership tests and allocated index ranges of FanProjData / GeoData3D / DetPairData are re-translated
    # from ML_norm.cxx and proved equal to the model's storeKey / isInData / minB / maxB / loRb / maxRb (Gen/Bridges.lean)
    tie_t = gen_gate.gate(chk, kernels=gen_gate.ML_KERNELS)
    stats = vlib.run_differential(chk, PROP, "c20_mlnorm", tier, compare=compare, ctx_prefixes=("cfg", "dpcfg"))
    info = {}
    of = os.path.join(vlib.OUT, "c20_%s.impl.oracle" % tier)
    if os.path.exists(of):
        for l in open(of):
            if l.startswith("INFO "):
                info = dict(kv.split("=") for kv in l.split()[1:])
    vlib.standard_coverage(chk, stats,
        "real free functions of stir/ML_norm.h on generated cylindrical scanners: no virtual crystals, transaxial virtual crystals (type Siemens_mMR), "
        "transaxial+axial (type E1080); 2-6 (thorough 2-8) transaxial blocks x 1-4 (1-6) physical crystals, 1-3 axial blocks x 1-3 crystals, every max ring "
        "difference and odd/even numbers of tangential positions; projection data filled with distinct values (i*K mod 1000003), factors k/8 (exact in float), "
        "Poisson data; plus data the conversion must refuse (view mashing, span 3, TOF). "
        "(1) FanProjData family: make_fan_data_remove_gaps, set_fan_data_add_gaps, get_fan_info, accessors / is_in_data, apply_efficiencies / apply_block_norm / "
        "apply_geo_norm (apply=true,false), make_fan_sum_data (3 overloads, incl. the one without model), make_block_data, make_geo_data, iterate_efficiencies "
        "(with and WITHOUT model) / iterate_block_norm / iterate_geo_norm, KL. "
        "(2) DetPairData family (ops dp*): make_det_pair_data (both overloads) and set_det_pair_data on EVERY segment and EVERY axial position of the span-1 "
        "data (round trip of both sinograms +s / -s, every entry = bin of its detector pair with the ring pair of that sinogram, every OTHER sinogram untouched), "
        "apply_efficiencies / apply_block_norm / apply_geo_norm on DetPairData (apply=true,false), make_fan_sum_data, make_geo_data, make_block_data, "
        "iterate_efficiencies / iterate_geo_norm / iterate_block_norm on DetPairData, KL(DetPairData). "
        "One line per operation (per window bin: where its value went / which fan entry it is read from; per sinogram pair: the whole DetPairData), compared "
        "with the Lean model's answer: integers, index tuples and copied values exactly (n 0); float results against the exact rational model value with "
        "|impl-exact| <= 4*k*2^-24*|exact|, k = float operations on the longest path (2 for apply, fan size x ring differences for a fan sum, detectors x (fan+3) "
        "for the in-place efficiency sweeps [model at binary64 beyond 9 (DetPairData: 8) detectors], class size (+2..+6) for block / geometric sums and ratios); "
        "KL at binary64 with 1e-9*sum(a+b). distinct = distinct operation lines. "
        "The oracle evaluates the property itself on the implementation: round trip on every window bin / every bin of the sinogram pair, gap value in every gap "
        "bin, every fan / DetPairData entry = bin of its detector pair via get_bin_for_det_pos_pair, set_det_pair_data touches no other sinogram, apply then "
        "un-apply restores (4*2*2^-24), applied factor = product of the two detectors' efficiencies / the factor of the two blocks / equal under a block "
        "translation and the mirror image, fan sums, fixed points of all iterations (FanProjData, DetPairData, model-free) on data generated from the model, "
        "model-free iterate_efficiencies / make_fan_sum_data = the versions with a model of ones, dead detector -> efficiency 0, KL over detector pairs "
        "non-increasing over 4-5 efficiency iterations (1e-5 relative; FanProjData with model, model-free, KL(DetPairData) itself for the DetPairData overload). "
        "(2b) WIDE DYNAMIC RANGE (every configuration, FanProjData and DetPairData versions of iterate_block_norm / iterate_geo_norm, and iterate_efficiencies): "
        "compact-source models model*2^-(step*|tangential offset| + 2*ring difference), step*half_fan = 18, 26 or 40 (class sums spanning 1e5..1e12), in a third "
        "of the cases exactly 0 at the fan edge (model class sum 0); factors k/8*2^-e, e = 0..26, one in eight exactly 0 (measured class sum 0 with positive model "
        "sum); in half of the block cases (when the model's block sums allow it) one factor >= 16384 on a class whose measured sum stays below find_max()/10000 "
        "(the only case in which the guard `(measured >= threshold || measured < 10000*model) ? measured/model : 0` returns 0); all scalings are powers of two, so "
        "data = factor*model exactly.  apply_*, make_block_data / make_geo_data and the iteration are compared entry by entry with the Lean model (which "
        "transcribes the guard and threshold = find_max()/10000 exactly; Rat); oracles: measured class sum 0 -> factor 0, otherwise the factor itself (< 10000) is "
        "reproduced [geo: the ML estimate is reproduced from data generated with it], factor >= 10000 -> itself or 0; efficiencies k/8*2^-e (e = 0..13) are a "
        "fixed point on the wide model.  input_distribution.wide_range_classes_below_max_over_10000 counts the classes below the threshold that were compared. "
        "(3) multiply_crystal_factors: on every generated scanner (also with virtual crystals: factors indexed with gaps) against apply_efficiencies after gap "
        "removal, and on span 1/3 x view mashing 1/2 x non-TOF/TOF (5 bins) x the three scanner types: every bin = global_factor/num_tof * sum over the "
        "detector pairs that get_bin_for_det_pos_pair maps to it of the product of the two factors. "
        "(4) bin efficiency of BinNormalisationPETFromComponents = product of the two crystal efficiencies (0 in gaps). "
        "(5) ML_estimate_component_based_normalisation end to end on tiny scanners (exact and Poisson data, with and without gaps; files under build/out), once "
        "per combination of do_geo x do_block x do_symmetry_per_block x do_KL on scanners with 2 blocks per bucket (2 x 2 buckets; thorough also 3 blocks per "
        "bucket): every eff/geo/block file equals the documented sequence of iterate_* steps recomputed from the building blocks (GeoData3D per block or per "
        "bucket as documented), the written efficiencies do not increase the KL distance (while the model in use is symmetric), exact data are fitted. "
        "Classes of input on which the property cannot hold are reported with stable keys (KNOWN-CANDIDATE): library KL(FanProjData) counts in-ring LORs twice; "
        "do_KL=true aborts with boost::bad_format_string; fan with two crystals of one block indexes BlockData3D out of range (asked through the implementation's "
        "is_in_data, not executed); odd number of transaxial crystals per block (GeoData3D built with tcpb/2: block-translation oracle / fixed point); 1 transaxial "
        "crystal per block: make_geo_data divides by zero (run in a child process). "
        "Two seed-independent minimal cases are evaluated on every run: the geometric fixed point on 5 rings (regression case of the repaired "
        "make_geo_data condition, strict) and the known finding kl-descent:library-KL-counts-in-ring-LORs-twice.",
        extra=dict(input_distribution=info))
    chk.coverage["tie_T_translator"] = tie_t
    chk.assumptions += ["the detector-pair <-> bin map is a parameter of the Lean model (property C01); the harness takes it from the real get_det_pos_pair_for_bin / get_det_num_pair_for_view_tangential_pos_num",
                        "float arithmetic is modelled exactly in Rat (binary64 for the in-place efficiency sweeps on more than 9 / 8 detectors and for log) and compared with a derived forward bound",
                        "find_max() is modelled for non-negative data; 32-bit overflow not modelled",
                        "block factors (FanProjData) are only executed when BlockData3D::is_in_data holds for every entry of the loop nest (otherwise apply_block_norm reads BlockData3D out of range: KNOWN-CANDIDATE block-norm:...)",
                        "the guard of iterate_geo_norm / iterate_block_norm: theorems C20_class_ratio_fixed_point_iff (a class factor g is reproduced iff measured >= threshold or g < 10000 or g = 0), C20_class_ratio_empty_class, C20_class_ratio_and_variant_fails (the && variant zeroes every class below the threshold), C20_block_fixed_point_nonneg_model (FanProjData block iteration, non-negative model with empty classes, any dynamic range); the geometric fixed point with EMPTY classes (model or factor exactly 0) is oracle + correspondence only (C20_geo_fixed_point assumes positive model and data); measured > 0 with model class sum 0 (inf in float, data not generated from the model) and all measured class sums 0 (0/0 = NaN in float, 0 in the field model) are not generated",
                        "DetPairData: the fixed points of iterate_geo_norm / iterate_block_norm and the identity KL(DetPairData) = 2 x (sum once per pair) for symmetric data are correspondence + oracle only (no Lean theorem; round trip, apply/un-apply, product of two detectors, efficiency fixed point and descent are theorems); multiply_crystal_factors is oracle-only; ML_estimate_component_based_normalisation is compared with a recomputation from the building blocks, not modelled in Lean",
                        "scanners with virtual crystals have 1 virtual crystal per block (hard-wired to the scanner type in Scanner.cxx); the Lean theorems hold for any number"]
    if audit:
        vlib.proof_coverage(chk, audit, "cd lean && lake build StirVerif.C20.Props Driver.C20 && lake env lean ../build/out/Audit_C20.lean")
    return chk.finish()
