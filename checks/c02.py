"""C02 — projection data are one coherent array across access paths, layouts and files."""
import os
import vlib
import gen_gate

PROP = "C02"


def main(tier, replay):
    if replay:
        for l in open(replay):
            if l.startswith("# seed="):
                os.environ["VERIF_SEED"] = l.split("seed=")[1].split()[0]
                tier = l.split("tier=")[1].split()[0]
    chk = vlib.Check(PROP, tier, level="proof")
    audit = vlib.lean_gate(chk, PROP)
    # tie (T): ProjDataInMemory::get_index and ProjDataFromStream::get_offset are re-translated from the source and proved equal to
    # the model's getIndex / offsetOf for every layout and bin (lean/StirVerif/Gen/Bridges.lean)
    tie_t = gen_gate.gate(chk, kernels=gen_gate.PD_KERNELS)
    stats = vlib.run_differential(chk, PROP, "c02_projdata", tier)
    info = {}
    of = os.path.join(vlib.OUT, "c02_%s.impl.oracle" % tier)
    if os.path.exists(of):
        for l in open(of):
            if l.startswith("INFO cases="):
                info = dict(kv.split("=") for kv in l.split()[1:])
    vlib.standard_coverage(chk, stats,
        "real ProjDataFromStream over std::stringstream / std::fstream, ProjDataInterfile (+ ProjData::read_from_file with the writer still open) and "
        "ProjDataInMemory on generated geometries (8-16 detectors, 2-5 rings, span 1/3, view mashing, TOF 1/3/5 bins, arc-corrected or not, trimmed "
        "axial/tangential/segment ranges, 1-3 time frames) x 2 storage orders x random segment-sequence permutations x float/short/ushort/int x both "
        "byte orders x stream offsets 0/12/37/256 x scale factor 1, 1/2 or 3 for the integer on-disk types (values are multiples k*scale, half-integers "
        "for half of the float stores); 160 cases quick / 3000 thorough; random interleaved histories (30 ops quick, 80 thorough) of set/get bin, "
        "viewgram, sinogram, segment by view / by sinogram, related viewgrams (real DataSymmetriesForBins_PET_CartesianGrid), fill, "
        "fill_from/copy_to/fill(ProjData)/begin_all iteration, ProjData::write_to_file; bulk arithmetic sapyb/xapyb/axpby (scalar and element-wise), "
        "operator+=,-=,*=,/= with ProjData and float and the ProjDataInMemory buffer specialisations / binary operators (operands are ProjDataInMemory "
        "or streams with their OWN random layout); ProjData::get_subset; ProjDataInMemory(const ProjData&), its copy constructor and "
        "ProjDataInMemory::read_from_file; fill(const ProjData&) from a differently laid-out stream and from a source with a WIDER segment range; "
        "get_viewgram/get_sinogram/get_empty_viewgram with make_num_tangential_poss_odd=true; requests outside every index range to the bin "
        "functions and to the container setters (set_viewgram with a bad view, set_sinogram with a bad axial position, set_segment with a segment "
        "the data do not have, set_segment with a container that has an axial position too many, set_viewgram of a viewgram that is one tangential "
        "position too wide); every container setter (set_viewgram, set_sinogram, set_segment by view / by sinogram, set_related_viewgrams) on every "
        "implementation (ProjDataFromStream in both storage orders, ProjDataInterfile, ProjDataInMemory) given a container made from a clone of the "
        "ProjDataInfo whose axial / tangential range is of the RIGHT size but shifted by +-1 or +-2..3, or smaller by one at either end, or that has "
        "one view fewer (setc lines: the Lean model's setterAccepts — the transcribed checks of each setter — answers accept/refuse and, if "
        "accepted, the slots written; a refusal must change no byte). "
        "Per write: the element slots whose BYTES changed (byte copy of the store diffed before/after; get_offset is never called) + checksum of the "
        "new ON-DISK numbers decoded by the harness + visibility to a second std::ifstream before the harness flushes; per read: the values returned. "
        "Each line is compared for equality with the Lean model's answer (exact: integers and dyadic fractions as rationals; the model keeps the "
        "on-disk numbers and applies round(value/scale) / number*scale itself). Oracle: reference std::map<bin,float> holding the API-level values, "
        "full sweep through a random other path after every write (bulk operations: the element-wise result computed from the reference map), "
        "out-of-range requests must throw / return Succeeded::no and change nothing, header round trips with the writer still open: ProjDataInterfile "
        "-> ProjData::read_from_file and write_basic_interfile_PDFS_header on a plain file stream at a NON-ZERO data offset -> ProjData::read_from_file "
        "(geometry incl. arc correction, every time frame, exam info, segment sequence, storage order, number format, byte order, data offset, "
        "scale factor, values); exam information at its boundary values through both header writers (42 quick / 168 thorough "
        "exam infos x ProjDataInterfile and write_basic_interfile_PDFS_header -> ProjData::read_from_file, writer still open): energy window [0,650], "
        "unset, half set (low or high only), high = low, [0,1]; calibration factor 1 / unset / 0 / 1e-6 / 2.5; originating system empty / the scanner's "
        "name; radionuclide unset / F-18 / C-11; 1-3 time frames starting at 0 / 0.5 / 7 with durations down to 0.25 s; all 4 x 6 (orientation, "
        "rotation) patient positions including unknown — every field compared on its own after the round trip.",
        extra=dict(input_histogram=info))
    chk.coverage["tie_T_translator"] = tie_t
    chk.assumptions += ["values are small multiples of the scale factor (|k| <= 250 from the generators, <= 20000 after bulk arithmetic; non-negative for "
                        "unsigned short), so every on-disk type is exact; data that does not fit the on-disk type at the stream's scale factor "
                        "(find_scale_factor enlarging the scale, set_* then fail) is not exercised; float on-disk data has scale factor 1",
                        "+0 -> -0 in a float store (0 * -1 in the bulk arithmetic) is not counted as a change",
                        "32/64-bit overflow of offsets not modelled", "min_view_num is 0 (no STIR setter changes it)",
                        "timing_poss_sequence is the natural order (class documentation: changing it is not supported)",
                        "byte encoding of values (numeric type, byte order) is decoded by the harness, not modelled in Lean",
                        "OS page cache / fstream buffering is runtime: the model only says which set_* ends with flush()",
                        "operands of the bulk arithmetic are read through their own get_segment_by_sinogram (tested as destination objects elsewhere in the "
                        "same run); the model takes their values in that order",
                        "Interfile header text is not modelled (header round trips are oracle-only); SPECT headers, several energy windows and the "
                        "Siemens/ECAT/GE readers are not exercised; get_subset is compared positionally (ProjDataInfoSubsetByView renumbers shifted "
                        "tangential ranges)",
                        "container setters: a container with a shifted VIEW range is not generated (min_view_num is 0 for every ProjDataInfo and "
                        "Segment::resize asserts it), only one with fewer views; an unset radionuclide may be read back as the PET default of "
                        "RadionuclideDB (documented behaviour of get_radionuclide for an empty name); an empty originating system is read back as the "
                        "scanner's name (the header writer always writes the scanner's name)",
                        "cfg flags read off the implementation by probes (view/tang range checks, flush and scale factor in set_bin_value, axial-size check "
                        "and tangential-range check in set_segment) select the model's branch; an unrepaired branch is reported through the oracle as KNOWN-CANDIDATE"]
    if audit:
        vlib.proof_coverage(chk, audit, "cd lean && lake build StirVerif stirdriver && lake env lean ../build/out/Audit_C02.lean")
    return chk.finish()
