"""C02 — projection data are one coherent array across access paths, layouts and files."""
import os
import vlib

PROP = "C02"


def main(tier, replay):
    if replay:
        for l in open(replay):
            if l.startswith("# seed="):
                os.environ["VERIF_SEED"] = l.split("seed=")[1].split()[0]
                tier = l.split("tier=")[1].split()[0]
    chk = vlib.Check(PROP, tier, level="proof")
    audit = vlib.lean_gate(chk, PROP)
    stats = vlib.run_differential(chk, PROP, "c02_projdata", tier)
    info = {}
    of = os.path.join(vlib.OUT, "c02_%s.impl.oracle" % tier)
    if os.path.exists(of):
        for l in open(of):
            if l.startswith("INFO cases="):
                info = dict(kv.split("=") for kv in l.split()[1:])
    vlib.standard_coverage(chk, stats,
        "real ProjDataFromStream over std::stringstream / std::fstream, ProjDataInterfile (+ ProjData::read_from_file with the writer still open) and "
        "ProjDataInMemory on generated geometries (8-16 detectors, 2-5 rings, span 1/3, view mashing, TOF 1/3/5 bins, trimmed axial/tangential/segment "
        "ranges) x 2 storage orders x random segment-sequence permutations x float/short/ushort/int x both byte orders x stream offsets 0/12/37/256; "
        "160 cases quick / 3000 thorough; random interleaved histories (30 ops quick, 80 thorough) of set/get bin, viewgram, sinogram, segment by view / by sinogram, related viewgrams "
        "(real DataSymmetriesForBins_PET_CartesianGrid), fill, fill_from/copy_to/fill(ProjData)/begin_all iteration, ProjData::write_to_file, and requests outside every index range. "
        "Per write: the element slots whose BYTES changed (byte copy of the store diffed before/after; get_offset is never called) + checksum of the "
        "new contents decoded by the harness + visibility to a second std::ifstream before the harness flushes; per read: the values returned. "
        "Each line is compared for equality with the Lean model's answer (exact, integers only). Oracle: reference std::map<bin,float>, full sweep "
        "through a random other path after every write, out-of-range requests must throw and change nothing, header round trip (geometry, exam info, "
        "segment sequence, storage order, number format, values) with the writer still open.",
        extra=dict(input_histogram=info))
    chk.assumptions += ["values are small integers (|v| <= 250, non-negative for unsigned short) and scale factor 1, so every on-disk type is exact",
                        "32/64-bit overflow of offsets not modelled", "min_view_num is 0 (no STIR setter changes it)",
                        "timing_poss_sequence is the natural order (class documentation: changing it is not supported)",
                        "byte encoding of values (numeric type, byte order) is decoded by the harness, not modelled in Lean",
                        "OS page cache / fstream buffering is runtime: the model only says which set_* ends with flush()"]
    if audit:
        vlib.proof_coverage(chk, audit, "cd lean && lake build StirVerif stirdriver && lake env lean ../build/out/Audit_C02.lean")
    return chk.finish()
