#!/usr/bin/env python3
"""C02 (not run by ./check; never touches /repo): build the harness against REPAIRED copies of the sources (view/tang range checks, flush in set_bin_value,
study date + calibration factor in the PDFS header) to confirm the check passes after such repairs without edits"""
import os, subprocess, sys
sys.path.insert(0, '/verif/tools')
import vlib
sys.path.insert(0, os.path.dirname(os.path.abspath(__file__)))
from mutants import BASE, INC, bdir
W = '/tmp/C02/repaired'; os.makedirs(W, exist_ok=True)
which = sys.argv[1] if len(sys.argv) > 1 else 'all'
edits = {
 'buildblock/ProjDataFromStream.cxx': [
   ('  const int index = static_cast<int>(std::find(segment_sequence.begin(), segment_sequence.end(), this_bin.segment_num())',
    '  if (!(this_bin.view_num() >= get_min_view_num() && this_bin.view_num() <= get_max_view_num()))\n    error("view out of range");\n'
    '  if (!(this_bin.tangential_pos_num() >= get_min_tangential_pos_num() && this_bin.tangential_pos_num() <= get_max_tangential_pos_num()))\n    error("tang out of range");\n'
    '  const int index = static_cast<int>(std::find(segment_sequence.begin(), segment_sequence.end(), this_bin.segment_num())'),
   ('    error("ProjDataFromStream: error writing data: scale factor returned by write_data should be 1\\n");\n}',
    '    error("ProjDataFromStream: error writing data: scale factor returned by write_data should be 1\\n");\n  sino_stream->flush();\n}'),
 ],
 'buildblock/ProjDataInMemory.cxx': [
   ('  const int index = static_cast<int>(std::find(segment_sequence.begin(), segment_sequence.end(), this_bin.segment_num())',
    '  if (!(this_bin.view_num() >= get_min_view_num() && this_bin.view_num() <= get_max_view_num()))\n    error("view out of range");\n'
    '  if (!(this_bin.tangential_pos_num() >= get_min_tangential_pos_num() && this_bin.tangential_pos_num() <= get_max_tangential_pos_num()))\n    error("tang out of range");\n'
    '  const int index = static_cast<int>(std::find(segment_sequence.begin(), segment_sequence.end(), this_bin.segment_num())'),
 ],
 'IO/interfile.cxx': [
   ('  output_header << "!type of data := " << (is_spect ? "Tomographic" : "PET") << \'\\n\';\n\n  // output patient position',
    '  if (pdfs.get_exam_info().start_time_in_secs_since_1970 > 0)\n    {\n      const DateTimeStrings dt = secs_since_Unix_epoch_to_Interfile_datetime(pdfs.get_exam_info().start_time_in_secs_since_1970);\n      output_header << "study date := " << dt.date << \'\\n\';\n      output_header << "study time := " << dt.time << \'\\n\';\n    }\n'
    '  if (pdfs.get_exam_info().get_calibration_factor() > 0.F)\n    output_header << "calibration factor := " << pdfs.get_exam_info().get_calibration_factor() << endl;\n'
    '  output_header << "!type of data := " << (is_spect ? "Tomographic" : "PET") << \'\\n\';\n\n  // output patient position'),
 ],
}
if which == 'rangeonly':
    edits = {k: v[:1] for k, v in edits.items() if 'interfile' not in k}
objs = []
for rel, subs in edits.items():
    src = open('/repo/src/' + rel).read()
    for old, new in subs:
        assert src.count(old) == 1, (rel, old[:40], src.count(old))
        src = src.replace(old, new)
    f = os.path.join(W, os.path.basename(rel)); open(f, 'w').write(src)
    o = f + '.o'
    r = subprocess.run(BASE + INC + ['-I', os.path.dirname('/repo/src/' + rel), '-c', f, '-o', o], capture_output=True, text=True)
    assert r.returncode == 0, r.stderr[-2000:]
    objs.append(o)
exe = W + '/h'
r = subprocess.run(BASE + INC + ['/verif/harness/c02_projdata.cxx'] + objs + ['-o', exe] + vlib.stir_link_args(bdir), capture_output=True, text=True)
assert r.returncode == 0, r.stderr[-2000:]
for seed in ['1', '2', '3']:
    ops, impl, model = W + '/x.ops', W + '/x.impl', W + '/x.model'
    r = subprocess.run([exe, seed, 'quick', ops, impl], capture_output=True, text=True, env=dict(os.environ, STIR_CONFIG_DIR='/repo/src/config'))
    with open(ops) as fin, open(model, 'w') as fout:
        subprocess.run(['lake', 'env', 'lean', '--run', 'Driver/RunC02.lean'], stdin=fin, stdout=fout, cwd='/verif/lean')
    il = open(impl).read().splitlines(); ml = open(model).read().splitlines()
    mism = [(a, b) for a, b in zip(il, ml) if a != b]
    orc = open(impl + '.oracle').read().splitlines()
    print('seed', seed, 'exit', r.returncode, 'ops', len(il), 'mismatches', len(mism), [l[:90] for l in orc if not l.startswith('INFO')])
    cfgs = [l for l in open(ops) if l.startswith('cfg')]
    print('   flags seen in cfg (chkv chkt fb):', sorted({' '.join(c.split()[14:17]) for c in cfgs}))
