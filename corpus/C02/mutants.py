#!/usr/bin/env python3
"""C02 sensitivity rig (not run by ./check; never touches /repo).

For each entry of MUTS a *copy* of one STIR source file (or header) is edited under /tmp/C02/mut, compiled to an object
file and linked into harness/c02_projdata.cxx in front of the STIR libraries built from /repo (so the mutated
definitions win), the harness and the Lean driver are run on seed 1 / quick tier, and the result is reported as
CAUGHT (harness abort, model mismatch or oracle failure) or MISSED.  Entries named REFACTOR-* are behaviour-preserving
rewrites and are expected to be MISSED (= no false alarm); pd-fill-projdata-swaps-loops-wrong-tof is an equivalent mutant.
Usage: python3 corpus/C02/mutants.py [name ...]      (needs the Lean driver built: VERIF_DEV=1 ./check C02 once)
Last full run (2026-09-28): 41/41 non-equivalent mutants CAUGHT, 3/3 refactorings not flagged."""
import os, subprocess, sys, shutil, hashlib
sys.path.insert(0, '/verif/tools')
import vlib
bdir = os.path.join(vlib.BUILD, 'stir-plain')
W = '/tmp/C02/mut'
BASE = ["g++", "-std=gnu++17", "-O1", "-g", "-w", "-DNDEBUG", "-DUCL_STIR_VERIF"]
INC = ["-I", bdir + "/src/include", "-I", "/repo/src/include", "-I", "/usr/include/hdf5/serial", "-I", "/verif/harness"]

MUTS = [
 ("pdfs-drop-numviews-in-segoffset", "buildblock/ProjDataFromStream.cxx", "num_axial_pos_offset * get_num_tangential_poss() * get_num_views()", "num_axial_pos_offset * get_num_tangential_poss()"),
 ("pdfs-prefix-sum-offbyone", "buildblock/ProjDataFromStream.cxx", "for (int i = 0; i < index; i++)\n    num_axial_pos_offset", "for (int i = 0; i <= index; i++)\n    num_axial_pos_offset"),
 ("pdfs-savt-drop-minax", "buildblock/ProjDataFromStream.cxx", "const streamoff ax_pos_offset = (this_bin.axial_pos_num() - get_min_axial_pos_num(this_bin.segment_num())) * get_num_views()", "const streamoff ax_pos_offset = (this_bin.axial_pos_num()) * get_num_views()"),
 ("pdfs-tang-sign", "buildblock/ProjDataFromStream.cxx", "= (this_bin.tangential_pos_num() - get_min_tangential_pos_num()) * on_disk_data_type.size_in_bytes();\n\n      return segment_offset + ax_pos_offset + view_offset + tang_offset;\n    }\n  else if", "= (this_bin.tangential_pos_num() + get_min_tangential_pos_num()) * on_disk_data_type.size_in_bytes();\n\n      return segment_offset + ax_pos_offset + view_offset + tang_offset;\n    }\n  else if"),
 ("pdfs-svat-view-stride-seg0", "buildblock/ProjDataFromStream.cxx", "(this_bin.view_num() - get_min_view_num()) * get_num_axial_poss(this_bin.segment_num())", "(this_bin.view_num() - get_min_view_num()) * get_num_axial_poss(0)"),
 ("pdfs-tof-index-plus1", "buildblock/ProjDataFromStream.cxx", "segment_offset += static_cast<streamoff>(timing_index) * offset_3d_data;\n        }\n      // Skip views", "segment_offset += static_cast<streamoff>(timing_index + 1) * offset_3d_data;\n        }\n      // Skip views"),
 ("pdfs-tof-stride-dropped-savt", "buildblock/ProjDataFromStream.cxx", "segment_offset += static_cast<streamoff>(timing_index) * offset_3d_data;\n        }\n      // skip axial positions", "}\n      // skip axial positions"),
 ("pdfs-offset3d-no-elemsize", "buildblock/ProjDataFromStream.cxx", "offset_3d_data = static_cast<streamoff>(sum * on_disk_data_type.size_in_bytes());", "offset_3d_data = static_cast<streamoff>(sum);"),
 ("pdfs-setviewgram-skip-last-row", "buildblock/ProjDataFromStream.cxx", "bin.axial_pos_num() <= get_max_axial_pos_num(segment_num);\n               bin.axial_pos_num()++)\n            {\n              detail::checked_seekp", "bin.axial_pos_num() < get_max_axial_pos_num(segment_num);\n               bin.axial_pos_num()++)\n            {\n              detail::checked_seekp"),
 ("pdfs-setsinogram-no-flush", "buildblock/ProjDataFromStream.cxx", "          succeeded = Succeeded::no;\n        }\n      // flush the stream, see the class documentation\n      sino_stream->flush();\n    }\n  catch (...)\n    {\n      succeeded = Succeeded::no;\n    }\n  // end of critical section\n  return succeeded;\n}\n\nSegmentBySinogram<float>", "          succeeded = Succeeded::no;\n        }\n    }\n  catch (...)\n    {\n      succeeded = Succeeded::no;\n    }\n  // end of critical section\n  return succeeded;\n}\n\nSegmentBySinogram<float>"),
 ("pdfs-no-axial-check", "buildblock/ProjDataFromStream.cxx", "    error(\"ProjDataFromStream::get_offset: axial_pos_num out of range : %d\", this_bin.axial_pos_num());", "    {}"),
 ("pdfs-no-tof-check", "buildblock/ProjDataFromStream.cxx", "    error(\"ProjDataFromStream::get_offset: timing_num out of range : %d\", this_bin.timing_pos_num());", "    {}"),
 ("pdfs-getsinogram-svat-view-shift", "buildblock/ProjDataFromStream.cxx", "read_data(*sino_stream, sinogram[bin.view_num()], on_disk_data_type", "read_data(*sino_stream, sinogram[get_max_view_num() + get_min_view_num() - bin.view_num()], on_disk_data_type"),
 ("pdfs-getbin-wrong-scale", "buildblock/ProjDataFromStream.cxx", "  value *= scale_factor;\n\n  return value[0];", "  value *= scale_factor * 2;\n\n  return value[0];"),
 ("pdfs-setsegment-byview-wrong-branch", "buildblock/ProjDataFromStream.cxx", "  if (get_storage_order() == Segment_View_AxialPos_TangPos || get_storage_order() == Timing_Segment_View_AxialPos_TangPos)\n    {\n      // KT 03/07/2001 handle scale_factor appropriately", "  if (true)\n    {\n      // KT 03/07/2001 handle scale_factor appropriately"),
 ("pdfs-getviewgram-savt-firstrow-only", "buildblock/ProjDataFromStream.cxx", "              if (scale != 1)\n                break;\n            }\n        }\n      else if (get_storage_order() == Segment_View_AxialPos_TangPos\n               || get_storage_order() == Timing_Segment_View_AxialPos_TangPos)\n        {\n          // read in one go", "              break;\n            }\n        }\n      else if (get_storage_order() == Segment_View_AxialPos_TangPos\n               || get_storage_order() == Timing_Segment_View_AxialPos_TangPos)\n        {\n          // read in one go"),
 ("pdim-view-stride", "buildblock/ProjDataInMemory.cxx", "const streamoff view_offset = (this_bin.view_num() - get_min_view_num()) * get_num_tangential_poss();", "const streamoff view_offset = (this_bin.view_num() - get_min_view_num()) * get_num_views();"),
 ("pdim-setviewgram-offbyone", "buildblock/ProjDataInMemory.cxx", "for (bin.axial_pos_num() = get_min_axial_pos_num(segment_num); bin.axial_pos_num() <= get_max_axial_pos_num(segment_num);\n       bin.axial_pos_num()++)\n    {\n      detail::copy_data_to_buffer", "for (bin.axial_pos_num() = get_min_axial_pos_num(segment_num) + 1; bin.axial_pos_num() <= get_max_axial_pos_num(segment_num);\n       bin.axial_pos_num()++)\n    {\n      detail::copy_data_to_buffer"),
 ("pdim-offset3d-short", "buildblock/ProjDataInMemory.cxx", "  offset_3d_data = static_cast<streamoff>(sum);", "  offset_3d_data = static_cast<streamoff>(sum - get_num_tangential_poss());"),
 ("pdim-tang-dropped-min", "buildblock/ProjDataInMemory.cxx", "const streamoff tang_offset = (this_bin.tangential_pos_num() - get_min_tangential_pos_num());", "const streamoff tang_offset = (this_bin.tangential_pos_num());"),
 ("pdim-fill-skips-last", "buildblock/ProjDataInMemory.cxx", "std::fill(begin_all(), end_all(), value);", "std::fill(begin_all(), end_all() - 1, value);"),
 ("pd-stdseq-sign-swapped", "buildblock/ProjData.cxx", "      if (segment_num <= max_segment_num)\n        segment_sequence[idx++] = segment_num;\n      if (-segment_num >= min_segment_num)\n        segment_sequence[idx++] = -segment_num;", "      if (-segment_num >= min_segment_num)\n        segment_sequence[idx++] = -segment_num;\n      if (segment_num <= max_segment_num)\n        segment_sequence[idx++] = segment_num;"),
 ("pd-fill-skips-last-segment", "buildblock/ProjData.cxx", "      for (int segment_num = this->get_min_segment_num(); segment_num <= this->get_max_segment_num(); ++segment_num)\n        {\n          SegmentByView<float> segment(this->get_empty_segment_by_view", "      for (int segment_num = this->get_min_segment_num(); segment_num < this->get_max_segment_num(); ++segment_num)\n        {\n          SegmentByView<float> segment(this->get_empty_segment_by_view"),
 ("pd-setrelated-skips-first", "buildblock/ProjData.cxx", "  RelatedViewgrams<float>::const_iterator r_viewgrams_iter = viewgrams.begin();\n  while", "  RelatedViewgrams<float>::const_iterator r_viewgrams_iter = viewgrams.begin() + 1;\n  while"),
 ("pd-getrelated-ignores-tof", "buildblock/ProjData.cxx", "      pairs[i].timing_pos_num() = timing_pos;\n      viewgrams.push_back(this->get_viewgram(pairs[i]));", "      viewgrams.push_back(this->get_viewgram(pairs[i]));"),
 ("segbyview-conv-skips-last-view", "buildblock/SegmentByView.cxx", "  for (int v = get_min_view_num(); v <= get_max_view_num(); v++)\n    set_viewgram(s_s.get_viewgram(v));", "  for (int v = get_min_view_num(); v < get_max_view_num(); v++)\n    set_viewgram(s_s.get_viewgram(v));"),
 ("segbysino-getviewgram-wrong-view", "buildblock/SegmentBySinogram.cxx", "    pre_view[r] = Array<3, elemT>::operator[](r)[view_num];", "    pre_view[r] = Array<3, elemT>::operator[](r)[get_max_view_num() - view_num + get_min_view_num()];"),
 ("interfile-hdr-savt-labels-swapped", "IO/interfile.cxx", "        case ProjDataFromStream::Segment_AxialPos_View_TangPos: {\n          order_of_segment = 4;\n          order_of_view = 2;\n          order_of_z = 3;", "        case ProjDataFromStream::Segment_AxialPos_View_TangPos: {\n          order_of_segment = 4;\n          order_of_view = 3;\n          order_of_z = 2;"),
 ("interfile-hdr-byteorder-swapped", "IO/interfile.cxx", "                << (pdfs.get_byte_order_in_stream() == ByteOrder::little_endian ? \"LITTLEENDIAN\" : \"BIGENDIAN\") << endl;\n\n  write_interfile_radionuclide_info(output_header, pdfs.get_exam_info());", "                << (pdfs.get_byte_order_in_stream() == ByteOrder::little_endian ? \"BIGENDIAN\" : \"LITTLEENDIAN\") << endl;\n\n  write_interfile_radionuclide_info(output_header, pdfs.get_exam_info());"),
 ("interfile-hdr-maxringdiff-uses-min", "IO/interfile.cxx", "          output_header << \",\" << proj_data_info_sptr->get_max_ring_difference(*seg);\n        output_header << \"}\\n\";\n      }\n\n      const Scanner& scanner = *proj_data_info_sptr->get_scanner_ptr();\n      if (fabs(proj_data_info_sptr->get_ring_radius()", "          output_header << \",\" << proj_data_info_sptr->get_max_ring_difference(-*seg);\n        output_header << \"}\\n\";\n      }\n\n      const Scanner& scanner = *proj_data_info_sptr->get_scanner_ptr();\n      if (fabs(proj_data_info_sptr->get_ring_radius()"),
 ("interfileheader-segseq-offbyone", "IO/InterfileHeader.cxx", "      location_and_segment_num[i].second = i - segment_zero_num;", "      location_and_segment_num[i].second = (i == 0 && num_segments > 1) ? 1 - segment_zero_num : (i == 1 ? -segment_zero_num : i - segment_zero_num);"),
 ("interfile-read-offset-dropped", "IO/interfile.cxx", "                                         data_in,\n                                         hdr.data_offset_each_dataset[0],\n                                         hdr.segment_sequence,\n                                         hdr.storage_order,\n                                         hdr.type_of_numbers,\n                                         hdr.file_byte_order,\n                                         static_cast<float>(hdr.image_scaling_factors[0][0]));\n\n  if (hdr.timing_poss_sequence.size() > 1)\n    pdfs_ptr->set_timing_poss_sequence_in_stream(hdr.timing_poss_sequence);\n  return pdfs_ptr;\n}\n\nProjDataFromStream*\nread_interfile_PDFS(const string& filename", "                                         data_in,\n                                         hdr.data_offset_each_dataset[0],\n                                         hdr.segment_sequence,\n                                         ProjDataFromStream::Segment_View_AxialPos_TangPos,\n                                         hdr.type_of_numbers,\n                                         hdr.file_byte_order,\n                                         static_cast<float>(hdr.image_scaling_factors[0][0]));\n\n  if (hdr.timing_poss_sequence.size() > 1)\n    pdfs_ptr->set_timing_poss_sequence_in_stream(hdr.timing_poss_sequence);\n  return pdfs_ptr;\n}\n\nProjDataFromStream*\nread_interfile_PDFS(const string& filename"),

 ("hdr-write-no-byteswap", "HDR:stir/IO/write_data_1d.inl|buildblock/ProjDataFromStream.cxx", "  if (!byte_order.is_native_order())\n    {\n      Array<num_dimensions, elemT>& data_ref = const_cast<Array<num_dimensions, elemT>&>(data);\n      for (auto iter = data_ref.begin_all(); iter != data_ref.end_all(); ++iter)\n        ByteOrder::swap_order(*iter);\n    }\n\n  // note: find num_to_write (using size()) outside of s.write() function call\n  // otherwise Array::check_state() in size() might abort if\n  // get_const_data_ptr() is called before size() (which is compiler dependent)\n  const std::streamsize num_to_write = static_cast<std::streamsize>(data.size_all()) * sizeof(elemT);\n  bool writing_ok = true;\n  try\n    {\n      s.write(", "  // note: find num_to_write (using size()) outside of s.write() function call\n  // otherwise Array::check_state() in size() might abort if\n  // get_const_data_ptr() is called before size() (which is compiler dependent)\n  const std::streamsize num_to_write = static_cast<std::streamsize>(data.size_all()) * sizeof(elemT);\n  bool writing_ok = true;\n  try\n    {\n      s.write("),
 ("hdr-read-no-byteswap", "HDR:stir/IO/read_data_1d.inl|buildblock/ProjDataFromStream.cxx", "  if (!byte_order.is_native_order())\n    {\n      for (auto iter = data.begin_all(); iter != data.end_all(); ++iter)\n        ByteOrder::swap_order(*iter);\n    }\n\n  return Succeeded::yes;\n}\n\n/***************** version for FILE", "  return Succeeded::yes;\n}\n\n/***************** version for FILE"),
 ("hdr-read-short-as-ushort", "HDR:stir/IO/read_data.inl|buildblock/ProjDataFromStream.cxx", "      CASE(NumericType::SHORT);\n      CASE(NumericType::USHORT);\n      CASE(NumericType::INT);\n      CASE(NumericType::UINT);\n      CASE(NumericType::LONG);\n      CASE(NumericType::ULONG);\n      CASE(NumericType::FLOAT);\n      CASE(NumericType::DOUBLE);\n#undef CASE\n    default:\n      warning(\"read_data : type not yet supported", "  case NumericType::SHORT: return read_data(s, data, NumericInfo<unsigned short>(), scale, byte_order);\n      CASE(NumericType::USHORT);\n      CASE(NumericType::INT);\n      CASE(NumericType::UINT);\n      CASE(NumericType::LONG);\n      CASE(NumericType::ULONG);\n      CASE(NumericType::FLOAT);\n      CASE(NumericType::DOUBLE);\n#undef CASE\n    default:\n      warning(\"read_data : type not yet supported"),
 ("pdfs-getviewgram-scale-not-applied-ok", "buildblock/ProjDataFromStream.cxx", "  viewgram *= scale_factor;\n", "  viewgram *= (scale_factor + 1);\n"),
 ("pdfs-setbin-writes-wrong-value", "buildblock/ProjDataFromStream.cxx", "  value[0] = this_bin.get_bin_value();\n  float scale = float(1);\n  // Now the storage order", "  value[0] = this_bin.get_bin_value() + 1;\n  float scale = float(1);\n  // Now the storage order"),
 ("pdim-getsinogram-wrong-bin", "buildblock/ProjDataInMemory.cxx", "  Bin bin(segment_num, this->get_min_view_num(), ax_pos_num, this->get_min_tangential_pos_num(), timing_pos);\n\n  detail::copy_data_from_buffer(this->buffer, sinogram, this->get_index(bin));", "  Bin bin(segment_num, this->get_min_view_num(), ax_pos_num, this->get_min_tangential_pos_num(), 0);\n\n  detail::copy_data_from_buffer(this->buffer, sinogram, this->get_index(bin));"),
 ("pdim-setsegment-drops-tof", "buildblock/ProjDataInMemory.cxx", "                this->get_min_tangential_pos_num(),\n                segmentbysinogram_v.get_timing_pos_num());\n\n  detail::copy_data_to_buffer", "                this->get_min_tangential_pos_num(),\n                0);\n\n  detail::copy_data_to_buffer"),
 ("pd-fill-projdata-swaps-loops-wrong-tof", "buildblock/ProjData.cxx", "          if (this->set_segment(proj_data.get_segment_by_view(segment_num, timing_pos_num)) == Succeeded::no)", "          if (this->set_segment(proj_data.get_segment_by_view(segment_num, -timing_pos_num)) == Succeeded::no)"),
 ("REFACTOR-setviewgram-always-row-by-row", "buildblock/ProjDataFromStream.cxx", "      if (get_storage_order() == Segment_AxialPos_View_TangPos || get_storage_order() == Timing_Segment_AxialPos_View_TangPos)\n        {\n          for (bin.axial_pos_num() = get_min_axial_pos_num(segment_num);\n               bin.axial_pos_num() <= get_max_axial_pos_num(segment_num);\n               bin.axial_pos_num()++)\n            {\n              detail::checked_seekp(\"set_viewgram\"", "      if (true)\n        {\n          for (bin.axial_pos_num() = get_min_axial_pos_num(segment_num);\n               bin.axial_pos_num() <= get_max_axial_pos_num(segment_num);\n               bin.axial_pos_num()++)\n            {\n              detail::checked_seekp(\"set_viewgram\""),
 ("REFACTOR-setsinogram-throws-instead-of-no", "buildblock/ProjDataFromStream.cxx", "  catch (...)\n    {\n      succeeded = Succeeded::no;\n    }\n  // end of critical section\n  return succeeded;\n}\n\nSegmentBySinogram<float>", "  catch (...)\n    {\n      succeeded = Succeeded::no;\n    }\n  // end of critical section\n  if (succeeded == Succeeded::no) error(\"set_sinogram failed\");\n  return succeeded;\n}\n\nSegmentBySinogram<float>"),
 ("REFACTOR-getsegmentbyview-via-viewgrams", "buildblock/ProjDataFromStream.cxx", "  else\n    // TODO rewrite in terms of get_sinogram as this doubles memory temporarily\n    return SegmentByView<float>(get_segment_by_sinogram(segment_num, timing_pos));", "  else\n    return ProjData::get_segment_by_view(segment_num, timing_pos);"),
]

def run(name, rel, old, new, seed="1", tier="quick"):
    os.makedirs(W, exist_ok=True)
    d = os.path.join(W, name.replace(' ', '_').replace('/', '_')); os.makedirs(d, exist_ok=True)
    obj = os.path.join(d, 'mut.o')
    if rel.startswith('HDR:'):
        hdr, cxx = rel[4:].split('|')
        src = open(os.path.join('/repo/src/include', hdr)).read()
        if src.count(old) != 1:
            return "%-42s PATTERN-COUNT=%d" % (name, src.count(old))
        os.makedirs(os.path.join(d, 'inc', os.path.dirname(hdr)), exist_ok=True)
        open(os.path.join(d, 'inc', hdr), 'w').write(src.replace(old, new))
        r = subprocess.run(BASE + ["-I", os.path.join(d, 'inc')] + INC + ["-c", os.path.join('/repo/src', cxx), "-o", obj], capture_output=True, text=True)
    else:
        src = open(os.path.join('/repo/src', rel)).read()
        if src.count(old) != 1:
            return "%-42s PATTERN-COUNT=%d" % (name, src.count(old))
        msrc = os.path.join(d, os.path.basename(rel))
        open(msrc, 'w').write(src.replace(old, new))
        r = subprocess.run(BASE + INC + ["-I", os.path.dirname(os.path.join('/repo/src', rel)), "-c", msrc, "-o", obj], capture_output=True, text=True)
    if r.returncode: return "%-42s COMPILE-FAIL %s" % (name, r.stderr[-300:])
    exe = os.path.join(d, 'h')
    r = subprocess.run(BASE + INC + ["/verif/harness/c02_projdata.cxx", obj, "-o", exe] + vlib.stir_link_args(bdir), capture_output=True, text=True)
    if r.returncode: return "%-42s LINK-FAIL %s" % (name, r.stderr[-600:])
    env = dict(os.environ, STIR_CONFIG_DIR='/repo/src/config')
    ops, impl, model = d + '/x.ops', d + '/x.impl', d + '/x.model'
    r = subprocess.run([exe, seed, tier, ops, impl], capture_output=True, text=True, env=env)
    rc = r.returncode
    with open(ops) as fin, open(model, 'w') as fout:
        subprocess.run(["lake", "env", "lean", "--run", "Driver/RunC02.lean"], stdin=fin, stdout=fout, cwd='/verif/lean')
    il = open(impl).read().splitlines(); ml = open(model).read().splitlines()
    mism = sum(1 for a, b in zip(il, ml) if a != b) + abs(len(il) - len(ml))
    orc = open(impl + '.oracle').read().splitlines() if os.path.exists(impl + '.oracle') else []
    fails = [l for l in orc if l.startswith('ORACLE-FAIL')]
    known = [l.split()[1] for l in orc if l.startswith('KNOWN-CANDIDATE')]
    expected_known = {'range:view-tang-unchecked', 'flush:set_bin_value-no-flush', 'header:start-time-not-written', 'header:calibration-factor-not-written'}
    extra_known = [k for k in known if k not in expected_known]
    caught = rc != 0 or mism > 0 or fails or extra_known
    first = ''
    if fails: first = fails[0][:150]
    return "%-42s %s exit=%d model-mismatches=%d oracle-fails=%d %s" % (name, "CAUGHT" if caught else "MISSED", rc, mism, len(fails), first)

if __name__ == '__main__':
    sel = sys.argv[1:]
    from concurrent.futures import ThreadPoolExecutor
    todo = [m for m in MUTS if not sel or m[0] in sel]
    with ThreadPoolExecutor(4) as ex:
        for res in ex.map(lambda m: run(*m), todo):
            print(res, flush=True)
