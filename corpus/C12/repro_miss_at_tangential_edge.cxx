#include "stir_fixtures.h"
#include "stir/Bin.h"
#include "stir/LORCoordinates.h"
#include <cstdio>
using namespace stir;
int main(){
  vh::quiet(); std::freopen("/dev/null","w",stderr);
  for (int N=8; N<=64; N+=2) for (int nt=2; nt<N-1; ++nt) for (int mash=1; mash<=2; ++mash) {
    if ((N/2)%mash) continue;
    shared_ptr<Scanner> sc(new Scanner(Scanner::User_defined_scanner, std::string("repro"), N, 1, N-1, N/2-1, 100.F, 5.F, 4.F, 2.F, 0.F, 1,1,1,1,1,1,1,0.1F,511.F,(short)-1,-1.F,-1.F,"Cylindrical"));
    auto p = vh::make_pdi(sc,1,0,N/2/mash,nt,false,0);
    for (int tp : {p->get_min_tangential_pos_num(), p->get_max_tangential_pos_num()})
      for (int v=0; v<p->get_num_views(); ++v) {
        Bin b(0,v,0,tp,0,1.F); LORInAxialAndNoArcCorrSinogramCoordinates<float> lor; p->get_LOR(lor,b);
        Bin nb = p->get_bin(lor,0.);
        if (nb.get_bin_value()<=0) { std::printf("N=%d ntang=%d (%d..%d) views=%d: bin (0,%d,0,%d) -> miss\n",N,nt,p->get_min_tangential_pos_num(),p->get_max_tangential_pos_num(),p->get_num_views(),v,tp); goto next; }
      }
    next:;
  }
}
