// minimal reproductions of the C12 candidate findings on the real STIR code
#include "stir_fixtures.h"
#include "stir/ArcCorrection.h"
#include "stir/Bin.h"
#include "stir/LORCoordinates.h"
#include "stir/ProjDataInfoCylindricalArcCorr.h"
#include "stir/ProjDataInfoCylindricalNoArcCorr.h"
#include "stir/ProjDataInfoGenericNoArcCorr.h"
#include "stir/Sinogram.h"
#include "stir/DetectionPositionPair.h"
#include <cstdio>
#include <vector>
using namespace stir;

static shared_ptr<Scanner>
cyl(int N, int R, int maxna, int tofbins = -1, const char* geom = "Cylindrical")
{
  return shared_ptr<Scanner>(new Scanner(Scanner::User_defined_scanner, std::string("repro"), N, R, maxna, N / 2 - 1, 100.F, 5.F, 4.F,
                                         2.F, 0.F, 1, 1, 1, 1, 1, 1, 1, 0.1F, 511.F, static_cast<short>(tofbins),
                                         tofbins > 0 ? 100.F : -1.F, tofbins > 0 ? 400.F : -1.F, geom));
}
static void
pb(const char* what, const Bin& b)
{
  std::printf("%s (seg %d, view %d, ax %d, tang %d, tof %d) value %g\n", what, b.segment_num(), b.view_num(), b.axial_pos_num(),
              b.tangential_pos_num(), b.timing_pos_num(), b.get_bin_value());
}

int
main()
{
  vh::quiet();
  std::freopen("/dev/null", "w", stderr);
  {
    std::printf("== 1. miss at the tangential edge: 16 detectors, 1 ring, span 1, 8 views, 8 tangential positions -4..3\n");
    auto sc = cyl(16, 1, 15);
    auto p = vh::make_pdi(sc, 1, 0, 8, 8, false, 0);
    for (int v = 0; v < 8; ++v)
      {
        Bin b(0, v, 0, 3, 0, 1.F);
        LORInAxialAndNoArcCorrSinogramCoordinates<float> lor;
        p->get_LOR(lor, b);
        Bin nb = p->get_bin(lor, 0.);
        std::printf(" view %d: ", v);
        pb("get_bin(get_LOR(seg 0, ax 0, tang 3)) =", nb);
      }
  }
  {
    std::printf("== 2. coincident nearest detectors: 16 detectors, 1 ring, 15 tangential positions -7..7\n");
    auto sc = cyl(16, 1, 15);
    auto p = vh::make_pdi(sc, 1, 0, 8, 15, false, 0);
    for (int tp : { -7, 7 })
      for (int v = 0; v < 8; ++v)
        {
          Bin b(0, v, 0, tp, 0, 1.F);
          LORInAxialAndNoArcCorrSinogramCoordinates<float> lor;
          p->get_LOR(lor, b);
          Bin nb = p->get_bin(lor, 0.);
          std::printf(" view %d tang %d: ", v, tp);
          pb("->", nb);
        }
  }
  {
    std::printf("== 3. span 3, 5 rings, segment +1 (ring differences 2..4)\n");
    auto sc = cyl(16, 5, 15);
    auto p = vh::make_pdi(sc, 3, 4, 8, 9, false, 0);
    auto pn = dynamic_cast<const ProjDataInfoCylindricalNoArcCorr*>(p.get());
    for (int a = 0; a < p->get_num_axial_poss(1); ++a)
      {
        std::vector<DetectionPositionPair<>> dps;
        pn->get_all_det_pos_pairs_for_bin(dps, Bin(1, 0, a, 0), true);
        std::printf(" ax %d: ring pairs", a);
        double sum = 0;
        for (auto& d : dps)
          {
            std::printf(" (%d,%d)", (int)d.pos1().axial_coord(), (int)d.pos2().axial_coord());
            sum += (int)d.pos2().axial_coord() - (int)d.pos1().axial_coord();
          }
        std::printf("  mean ring difference %g, get_average_ring_difference %g, get_tantheta %g (= %g * spacing / chord)\n",
                    sum / dps.size(), pn->get_average_ring_difference(1), p->get_tantheta(Bin(1, 0, a, 0)),
                    p->get_tantheta(Bin(1, 0, a, 0)) * 2 * pn->get_ring_radius() / pn->get_ring_spacing());
      }
  }
  {
    std::printf("== 4. span 2, 6 rings, max_delta 5, segment +1\n");
    auto sc = cyl(16, 6, 15);
    auto p = vh::make_pdi(sc, 2, 5, 8, 9, false, 0);
    auto pn = dynamic_cast<const ProjDataInfoCylindricalNoArcCorr*>(p.get());
    std::printf(" segment 1: ring differences %d..%d\n", pn->get_min_ring_difference(1), pn->get_max_ring_difference(1));
    for (int a = 0; a < 5; ++a)
      {
        std::vector<DetectionPositionPair<>> dps;
        pn->get_all_det_pos_pairs_for_bin(dps, Bin(1, 0, a, 0), true);
        std::printf(" ax %d: ring pairs", a);
        for (auto& d : dps)
          std::printf(" (%d,%d)", (int)d.pos1().axial_coord(), (int)d.pos2().axial_coord());
        std::printf("  get_average_ring_difference %g\n", pn->get_average_ring_difference(1));
      }
  }
  {
    std::printf("== 5. span 4, max_delta 1, 5 rings\n");
    try
      {
        auto sc = cyl(16, 5, 15);
        auto p = vh::make_pdi(sc, 4, 1, 8, 9, false, 0);
        auto pn = dynamic_cast<const ProjDataInfoCylindricalNoArcCorr*>(p.get());
        std::printf(" segments %d..%d; segment 0: ring differences %d..%d, get_tantheta(0,0,0,0) = %g\n", p->get_min_segment_num(),
                    p->get_max_segment_num(), pn->get_min_ring_difference(0), pn->get_max_ring_difference(0),
                    p->get_tantheta(Bin(0, 0, 0, 0)));
      }
    catch (...)
      {
        std::printf(" construct_proj_data_info throws\n");
      }
  }
  {
    std::printf("== 6. arc-corrected TOF data\n");
    auto sc = cyl(16, 3, 15, 5);
    auto p = vh::make_pdi(sc, 1, 2, 8, 9, true, 1);
    std::printf(" TOF positions %d..%d\n", p->get_min_tof_pos_num(), p->get_max_tof_pos_num());
    for (int v : { 0, 7 })
      for (int t : { -2, 1 })
        {
          Bin b(1, v, 0, 2, t, 1.F);
          LORInAxialAndNoArcCorrSinogramCoordinates<float> lor;
          p->get_LOR(lor, b);
          try
            {
              Bin nb = p->get_bin(lor, p->get_tof_delta_time(b));
              std::printf(" bin (1,%d,0,2,%d): ", v, t);
              pb("->", nb);
            }
          catch (...)
            {
              std::printf(" bin (1,%d,0,2,%d): get_bin(get_LOR(bin), get_tof_delta_time(bin)) calls error()\n", v, t);
            }
        }
  }
  {
    std::printf("== 7. generic/blocks get_tantheta\n");
    shared_ptr<Scanner> sc(Scanner::get_scanner_from_name("SAFIRDualRingPrototype"));
    auto p = vh::make_pdi(sc, 1, sc->get_num_rings() - 1, sc->get_num_detectors_per_ring() / 2,
                          sc->get_max_num_non_arccorrected_bins(), false, 0);
    auto pg = dynamic_cast<const ProjDataInfoGenericNoArcCorr*>(p.get());
    for (int tp : { 0, 30, 60 })
      {
        Bin b(5, 3, 2, tp, 0, 1.F);
        int d1, d2, r1, r2;
        pg->get_det_pair_for_bin(d1, r1, d2, r2, b);
        auto x1 = sc->get_coordinate_for_det_pos(DetectionPosition<>(d1, r1, 0));
        auto x2 = sc->get_coordinate_for_det_pos(DetectionPosition<>(d2, r2, 0));
        const double L = std::hypot(double(x1.x()) - x2.x(), double(x1.y()) - x2.y());
        std::printf(" bin (5,3,2,%d): get_tantheta %g ; (z2-z1)/transaxial distance of its two crystals %g ; get_s %g\n", tp,
                    p->get_tantheta(b), (double(x2.z()) - x1.z()) / L, p->get_s(b));
      }
    std::printf("== 8. generic/blocks get_bin(get_LOR(bin))\n");
    long n = 0, miss = 0;
    for (int v = 0; v < p->get_num_views(); v += 7)
      for (int tp = p->get_min_tangential_pos_num(); tp <= p->get_max_tangential_pos_num(); tp += 5)
        {
          Bin b(0, v, 3, tp, 0, 1.F);
          LORInAxialAndNoArcCorrSinogramCoordinates<float> lor;
          p->get_LOR(lor, b);
          LORAs2Points<float> pts;
          lor.get_intersections_with_cylinder(pts, lor.radius());
          Bin nb = p->get_bin(pts, 0.);
          ++n;
          if (nb.get_bin_value() <= 0)
            ++miss;
        }
    std::printf(" %ld of %ld bins of segment 0 (span 1) are reported as a miss\n", miss, n);
  }
  {
    std::printf("== 9. ArcCorrection: 32 detectors, 21 non-arc-corrected positions of uniform data 1, 5 arc-corrected bins of 2 mm\n");
    auto sc = cyl(32, 1, 31);
    auto p = vh::make_pdi(sc, 1, 0, 16, 21, false, 0);
    ArcCorrection ac;
    ac.set_up(p, 5, 2.F);
    Sinogram<float> in = p->get_empty_sinogram(0, 0);
    in.fill(1.F);
    Sinogram<float> out = ac.do_arc_correction(in);
    std::printf(" arc-corrected row:");
    for (int j = out.get_min_tangential_pos_num(); j <= out.get_max_tangential_pos_num(); ++j)
      std::printf(" %g", out[0][j]);
    std::printf("\n");
  }
  return 0;
}
