// C14 — implementation side: list-mode histogramming agrees with the event list.
//
// A synthetic stir::ListModeData (records held in memory: time marks and coincidence events, the events being
// real CListEventCylindricalScannerWithDiscreteDetectors objects decoded by the library's own get_bin(), plus
// "raw-bin" events whose get_bin() hands a prepared Bin to LmToProjData so that the range tests of
// process_data are exercised on their own) is fed to the REAL stir::LmToProjData (set_input_data,
// set_template_proj_data_info_sptr, set_time_frame_definitions / frame definition file, set_store_prompts/delayeds,
// set_num_segments_in_memory, num_TOF_bins_in_memory and "maximum absolute segment number to process" through the
// class's own keymap, set_num_events_to_store, set_up, process_data).  The projection data written per frame
// (Interfile under build/out, or ProjDataInMemory) are read back and printed.
//
// Usage: c14_lm_histogram <seed> <quick|thorough> <opsfile> <implfile>
//   ops  : cfg tpl … / stream … / run …   (see lean/Driver/C14.lean)
//   impl : one answer line per op
//   impl.oracle : the property's own statement evaluated on the implementation:
//        (a) every frame's histogram == independent count over the event list (event time = preceding time mark,
//            bin = ProjDataInfoCylindricalNoArcCorr::get_bin_for_det_pos_pair, range = template ranges, +1 / -1 / 0),
//        (b) the result is the same for every num_segments_in_memory x num_TOF_bins_in_memory,
//        (c) the frames of a partition add up to the histogram of the whole interval,
//        (d) num_events_to_store keeps exactly the events up to the one that completes the requested total,
//        (e) CListEvent::get_bin == get_bin_for_det_pos_pair glue.
#include "stir_fixtures.h"
#include "common.h"
#include "stir/listmode/LmToProjData.h"
#include "stir/listmode/ListModeData.h"
#include "stir/listmode/CListRecord.h"
#include "stir/listmode/ListTime.h"
#include "stir/listmode/CListEventCylindricalScannerWithDiscreteDetectors.h"
#include "stir/ProjDataInfoCylindricalNoArcCorr.h"
#include "stir/ProjDataInMemory.h"
#include "stir/ProjData.h"
#include "stir/SegmentByView.h"
#include "stir/TimeFrameDefinitions.h"
#include "stir/DetectionPositionPair.h"
#include "stir/ExamInfo.h"
#include "stir/Succeeded.h"
#include "stir/Bin.h"
#include <algorithm>
#include <cmath>
#include <map>
#include <set>
#include <tuple>
#include <sys/stat.h>
#include <unistd.h>

using namespace stir;

// ---------------------------------------------------------------------------------------------
// synthetic list-mode data
// ---------------------------------------------------------------------------------------------
struct Rec
{
  bool is_time = false;
  unsigned long ms = 0; // time mark
  bool prompt = true;
  bool raw = false;
  int d1 = 0, r1 = 0, d2 = 1, r2 = 0, tp = 0; // detector pair + unmashed TOF index
  Bin rawbin;                                 // raw-bin event (bin value <= 0: rejected by the "decoder")
};

struct SynEvent : public CListEventCylindricalScannerWithDiscreteDetectors
{
  typedef CListEventCylindricalScannerWithDiscreteDetectors base;
  explicit SynEvent(const shared_ptr<const ProjDataInfo>& pdi)
      : base(pdi)
  {}
  bool prompt = true;
  bool raw = false;
  Bin rawbin;
  DetectionPositionPair<> dp;
  bool is_prompt() const override { return prompt; }
  void get_detection_position(DetectionPositionPair<>& d) const override { d = dp; }
  void set_detection_position(const DetectionPositionPair<>& d) override { dp = d; }
  void get_bin(Bin& bin, const ProjDataInfo& pdi) const override
  {
    if (!raw)
      {
        base::get_bin(bin, pdi);
        return;
      }
    // raw-bin event: a decoder that knows the bin; like the library's decoders it only returns
    // segments of the data it is asked about (everything else is left for LmToProjData to test)
    bin = rawbin;
    if (bin.segment_num() < pdi.get_min_segment_num() || bin.segment_num() > pdi.get_max_segment_num())
      bin.set_bin_value(0);
  }
};

struct SynTime : public ListTime
{
  unsigned long ms = 0;
  unsigned long get_time_in_millisecs() const override { return ms; }
  Succeeded set_time_in_millisecs(const unsigned long t) override
  {
    ms = t;
    return Succeeded::yes;
  }
};

struct SynRecord : public CListRecord
{
  explicit SynRecord(const shared_ptr<const ProjDataInfo>& pdi)
      : e(pdi)
  {}
  bool istime = false;
  SynTime t;
  SynEvent e;
  bool is_time() const override { return istime; }
  bool is_event() const override { return !istime; }
  ListEvent& event() override { return e; }
  const ListEvent& event() const override { return e; }
  ListTime& time() override { return t; }
  const ListTime& time() const override { return t; }
  void load(const Rec& r)
  {
    istime = r.is_time;
    if (r.is_time)
      t.ms = r.ms;
    else
      {
        e.prompt = r.prompt;
        e.raw = r.raw;
        e.rawbin = r.rawbin;
        e.dp = DetectionPositionPair<>(DetectionPosition<>(r.d1, r.r1, 0), DetectionPosition<>(r.d2, r.r2, 0), r.tp);
      }
  }
};

struct SynLM : public ListModeData
{
  std::vector<Rec> recs;
  bool delayeds = true;
  mutable std::size_t pos = 0;
  mutable long reads = 0;
  std::vector<std::size_t> saved;
  SynLM(const shared_ptr<const ProjDataInfo>& pdi, const std::vector<Rec>& r, bool has_del)
      : recs(r),
        delayeds(has_del)
  {
    shared_ptr<ExamInfo> ei(new ExamInfo);
    ei->imaging_modality = ImagingModality::PT;
    this->exam_info_sptr = ei;
    this->set_proj_data_info_sptr(pdi);
  }
  std::string get_name() const override { return "verif-synthetic-listmode"; }
  Succeeded reset() override
  {
    pos = 0;
    return Succeeded::yes;
  }
  SavedPosition save_get_position() override
  {
    saved.push_back(pos);
    return static_cast<SavedPosition>(saved.size() - 1);
  }
  Succeeded set_get_position(const SavedPosition& p) override
  {
    if (p >= saved.size())
      return Succeeded::no;
    pos = saved[p];
    return Succeeded::yes;
  }
  bool has_delayeds() const override { return delayeds; }

protected:
  shared_ptr<ListRecord> get_empty_record_helper_sptr() const override
  {
    return shared_ptr<ListRecord>(new SynRecord(this->get_proj_data_info_sptr()));
  }
  Succeeded get_next(ListRecord& r) const override
  {
    if (pos >= recs.size())
      return Succeeded::no;
    static_cast<SynRecord&>(r).load(recs[pos++]);
    ++reads;
    return Succeeded::yes;
  }
};

// LmToProjData with the file-reading part of post_processing() switched off, so that the class's own
// keymap can be used (through the public parse(std::istream&)) for the keys that have no setter.
// start_new_time_frame() is the class's documented hook ("will be called when a new time frame starts"): used to
// give every frame its own in-memory output (set_output_projdata_sptr alone keeps the last frame only).
struct Lm2PD : public LmToProjData
{
  bool post_processing() override { return false; }
  bool capture = false;
  shared_ptr<const ExamInfo> capture_exam_info;
  std::vector<shared_ptr<ProjData>> captured;
  void start_new_time_frame(const unsigned int) override
  {
    if (!capture)
      return;
    shared_ptr<ProjData> p(new ProjDataInMemory(capture_exam_info, this->get_template_proj_data_info_sptr()->create_shared_clone()));
    captured.push_back(p);
    this->set_output_projdata_sptr(p);
  }
};

// ---------------------------------------------------------------------------------------------
typedef std::tuple<int, int, int, int, int> Key; // tof, seg, view, ax, tang  (print order)
typedef std::map<Key, long> Hist;

static std::string
fmt_hist(const Hist& h)
{
  std::ostringstream s;
  bool first = true;
  for (auto& kv : h)
    if (kv.second != 0)
      {
        if (!first)
          s << ' ';
        first = false;
        s << std::get<1>(kv.first) << ',' << std::get<2>(kv.first) << ',' << std::get<3>(kv.first) << ',' << std::get<4>(kv.first)
          << ',' << std::get<0>(kv.first) << '=' << kv.second;
      }
  if (first)
    s << '-';
  return s.str();
}

// read every bin of a projection data set; non-integral values are reported as an error token
static bool
read_hist(const ProjData& pd, Hist& h)
{
  bool integral = true;
  for (int tof = pd.get_min_tof_pos_num(); tof <= pd.get_max_tof_pos_num(); ++tof)
    for (int seg = pd.get_min_segment_num(); seg <= pd.get_max_segment_num(); ++seg)
      {
        const SegmentByView<float> s = pd.get_segment_by_view(seg, tof);
        for (int v = s.get_min_view_num(); v <= s.get_max_view_num(); ++v)
          for (int a = s.get_min_axial_pos_num(); a <= s.get_max_axial_pos_num(); ++a)
            for (int t = s.get_min_tangential_pos_num(); t <= s.get_max_tangential_pos_num(); ++t)
              {
                const float x = s[v][a][t];
                if (x != 0.F)
                  {
                    if (x != std::floor(x))
                      integral = false;
                    h[Key(tof, seg, v, a, t)] += std::lround(x);
                  }
              }
      }
  return integral;
}

struct RunCfg
{
  bool storeP = true, storeD = true;
  int segs = -1, tofs = -1;      // as requested (-1: default)
  long num_events = 0;           // 0: use time frames
  int max_seg_proc = -1;         // -1: default
  bool frames_from_file = false; // frame definitions through "frame_definition file"
  int in_memory = 0;             // 0: Interfile output per frame (read back); 1: set_output_projdata_sptr (last frame only);
                                 // 2: one ProjDataInMemory per frame through the start_new_time_frame() hook
  std::vector<std::pair<long, long>> frames; // ms
};

struct RunResult
{
  bool err = false;
  long last_ms = 0;
  int segs_in_memory = 0;
  std::vector<Hist> frames;
  bool integral = true;
  long reads = 0;
};

static std::string g_tmpdir;
static long g_run_id = 0;

static RunResult
run_impl(const shared_ptr<ProjDataInfo>& lm_pdi,
         const shared_ptr<ProjDataInfo>& tpl,
         const std::vector<Rec>& recs,
         bool has_delayeds,
         const RunCfg& c,
         shared_ptr<ProjDataInfo>* tpl_after_setup = nullptr)
{
  RunResult res;
  const std::string prefix = g_tmpdir + "/r" + std::to_string(++g_run_id);
  std::vector<std::string> files;
  try
    {
      shared_ptr<SynLM> lm(new SynLM(lm_pdi, recs, has_delayeds));
      Lm2PD conv;
      // keys without setter: through the object's own keymap
      {
        std::ostringstream par;
        par << "lm_to_projdata Parameters:=\n";
        if (c.tofs != -1)
          par << "num_TOF_bins_in_memory := " << c.tofs << "\n";
        if (c.max_seg_proc != -1)
          par << "maximum absolute segment number to process := " << c.max_seg_proc << "\n";
        if (c.frames_from_file)
          {
            // .fdef: "num duration" lines, gaps as "0 duration"
            const std::string fdef = prefix + ".fdef";
            files.push_back(fdef);
            FILE* f = std::fopen(fdef.c_str(), "w");
            long prev = 0;
            for (auto& fr : c.frames)
              {
                if (fr.first != prev)
                  std::fprintf(f, "0 %.3f\n", (fr.first - prev) / 1000.);
                std::fprintf(f, "1 %.3f\n", (fr.second - fr.first) / 1000.);
                prev = fr.second;
              }
            std::fclose(f);
            par << "frame_definition file := " << fdef << "\n";
          }
        par << "END:=\n";
        std::istringstream in(par.str());
        if (!conv.parse(in))
          throw std::runtime_error("parse");
      }
      conv.set_input_data(lm);
      conv.set_template_proj_data_info_sptr(tpl);
      conv.set_output_filename_prefix(prefix);
      conv.set_store_prompts(c.storeP);
      conv.set_store_delayeds(c.storeD);
      if (c.segs != -1)
        conv.set_num_segments_in_memory(c.segs);
      if (c.num_events != 0)
        conv.set_num_events_to_store(c.num_events);
      if (!c.frames_from_file && !c.frames.empty())
        {
          std::vector<std::pair<double, double>> ft;
          for (auto& fr : c.frames)
            ft.push_back(std::make_pair(fr.first / 1000., fr.second / 1000.));
          conv.set_time_frame_definitions(TimeFrameDefinitions(ft));
        }
      if (conv.set_up() != Succeeded::yes)
        throw std::runtime_error("set_up");
      res.segs_in_memory = conv.get_num_segments_in_memory();
      if (tpl_after_setup)
        *tpl_after_setup = conv.get_template_proj_data_info_sptr()->create_shared_clone();
      const std::size_t nframes = std::max<std::size_t>(1, c.frames.size());
      shared_ptr<ProjData> mem;
      if (c.in_memory == 2)
        {
          conv.capture = true;
          conv.capture_exam_info = lm->get_exam_info_sptr();
        }
      if (c.in_memory == 1)
        {
          mem.reset(new ProjDataInMemory(lm->get_exam_info_sptr(), conv.get_template_proj_data_info_sptr()->create_shared_clone()));
          conv.set_output_projdata_sptr(mem);
        }
      for (std::size_t k = 1; k <= nframes; ++k)
        {
          files.push_back(prefix + "_f" + std::to_string(k) + "g1d0b0.hs");
          files.push_back(prefix + "_f" + std::to_string(k) + "g1d0b0.s");
        }
      conv.process_data();
      res.last_ms = std::lround(conv.get_last_processed_lm_rel_time() * 1000.);
      res.reads = lm->reads;
      if (c.in_memory == 2)
        {
          for (auto& p : conv.captured)
            {
              Hist h;
              if (!read_hist(*p, h))
                res.integral = false;
              res.frames.push_back(h);
            }
        }
      else if (c.in_memory == 1)
        {
          // "will only store data from the last defined time frame"
          res.frames.resize(nframes);
          res.integral = read_hist(*mem, res.frames[nframes - 1]);
        }
      else
        {
          for (std::size_t k = 1; k <= nframes; ++k)
            {
              shared_ptr<ProjData> pd = ProjData::read_from_file(prefix + "_f" + std::to_string(k) + "g1d0b0.hs");
              Hist h;
              if (!read_hist(*pd, h))
                res.integral = false;
              res.frames.push_back(h);
            }
        }
    }
  catch (...)
    {
      res.err = true;
    }
  for (auto& f : files)
    ::unlink(f.c_str());
  return res;
}

static std::string
fmt_result(const RunResult& r, int in_memory)
{
  if (r.err)
    return "err";
  std::ostringstream s;
  s << "t=" << r.last_ms << " sim=" << r.segs_in_memory;
  if (!r.integral)
    s << " non-integral";
  for (std::size_t k = 0; k < r.frames.size(); ++k)
    {
      if (in_memory == 1 && k + 1 < r.frames.size())
        continue;
      s << " | " << fmt_hist(r.frames[k]);
    }
  return s.str();
}

// ---------------------------------------------------------------------------------------------
// the property's own statement: independent count
// ---------------------------------------------------------------------------------------------
struct Decoded
{
  bool valid = false; // the data geometry assigns a bin of the (processed) template
  Key key;
};

static Decoded
decode_independent(const ProjDataInfoCylindricalNoArcCorr& t, const Rec& r)
{
  Decoded d;
  Bin bin;
  if (r.raw)
    {
      bin = r.rawbin;
      if (!(bin.get_bin_value() > 0))
        return d;
      if (bin.segment_num() < t.get_min_segment_num() || bin.segment_num() > t.get_max_segment_num())
        return d;
    }
  else
    {
      const DetectionPositionPair<> dp(DetectionPosition<>(r.d1, r.r1, 0), DetectionPosition<>(r.d2, r.r2, 0), r.tp);
      if (t.get_bin_for_det_pos_pair(bin, dp) != Succeeded::yes)
        return d;
    }
  // "inside the data": template ranges
  if (bin.segment_num() < t.get_min_segment_num() || bin.segment_num() > t.get_max_segment_num())
    return d;
  if (bin.view_num() < t.get_min_view_num() || bin.view_num() > t.get_max_view_num())
    return d;
  if (bin.axial_pos_num() < t.get_min_axial_pos_num(bin.segment_num()) || bin.axial_pos_num() > t.get_max_axial_pos_num(bin.segment_num()))
    return d;
  if (bin.tangential_pos_num() < t.get_min_tangential_pos_num() || bin.tangential_pos_num() > t.get_max_tangential_pos_num())
    return d;
  if (bin.timing_pos_num() < t.get_min_tof_pos_num() || bin.timing_pos_num() > t.get_max_tof_pos_num())
    return d;
  d.valid = true;
  d.key = Key(bin.timing_pos_num(), bin.segment_num(), bin.view_num(), bin.axial_pos_num(), bin.tangential_pos_num());
  return d;
}

static int
increment_of(const Rec& r, bool storeP, bool storeD)
{
  if (r.prompt)
    return storeP ? 1 : 0;
  if (storeP)
    return storeD ? -1 : 0;
  return 1; // delayeds only: added
}

// histogram of the events whose preceding time mark lies in [s,e) (ms); all events if !use_window
static Hist
expected_window(const ProjDataInfoCylindricalNoArcCorr& t, const std::vector<Rec>& recs, bool use_window, long s, long e, bool storeP, bool storeD)
{
  Hist h;
  long cur = 0;
  for (auto& r : recs)
    {
      if (r.is_time)
        {
          cur = static_cast<long>(r.ms);
          continue;
        }
      if (use_window && !(s <= cur && cur < e))
        continue;
      const Decoded d = decode_independent(t, r);
      if (!d.valid)
        continue;
      const int inc = increment_of(r, storeP, storeD);
      if (inc != 0)
        h[d.key] += inc;
    }
  return h;
}

// num_events_to_store = n (> 0), no frames: events are stored until the stored total (prompts - delayeds, or
// the number of stored events when only one kind is stored) reaches n
static Hist
expected_num_events(const ProjDataInfoCylindricalNoArcCorr& t, const std::vector<Rec>& recs, long n, bool storeP, bool storeD)
{
  Hist h;
  long total = 0;
  for (auto& r : recs)
    {
      if (total == n)
        break;
      if (r.is_time)
        continue;
      const Decoded d = decode_independent(t, r);
      if (!d.valid)
        continue;
      const int inc = increment_of(r, storeP, storeD);
      if (inc == 0)
        continue;
      h[d.key] += inc;
      total += inc;
    }
  return h;
}

static bool
same_hist(const Hist& a, const Hist& b)
{
  std::set<Key> keys;
  for (auto& kv : a)
    keys.insert(kv.first);
  for (auto& kv : b)
    keys.insert(kv.first);
  for (auto& k : keys)
    {
      auto ia = a.find(k);
      auto ib = b.find(k);
      const long va = ia == a.end() ? 0 : ia->second;
      const long vb = ib == b.end() ? 0 : ib->second;
      if (va != vb)
        return false;
    }
  return true;
}

static Hist
add_hist(const Hist& a, const Hist& b)
{
  Hist r = a;
  for (auto& kv : b)
    r[kv.first] += kv.second;
  return r;
}

// a frame lies strictly inside a gap between two consecutive time marks (the assumed time 0 at the start counts
// as a mark): the class of input of finding `lm2pd:frame-inside-time-mark-gap`
static bool
frame_in_gap(const std::vector<Rec>& recs, const std::vector<std::pair<long, long>>& frames)
{
  long prev = 0;
  for (auto& r : recs)
    if (r.is_time)
      {
        const long t = static_cast<long>(r.ms);
        for (auto& f : frames)
          if (prev < f.first && f.second <= t)
            return true;
        prev = t;
      }
  return false;
}

// a frame boundary coincides with a time mark (then the boundary must be the same double as the mark's time:
// no frame definition file, whose durations are accumulated in floating point)
static bool
boundary_on_mark(const std::vector<Rec>& recs, const std::vector<std::pair<long, long>>& frames)
{
  for (auto& r : recs)
    if (r.is_time)
      for (auto& f : frames)
        if (static_cast<long>(r.ms) == f.first || static_cast<long>(r.ms) == f.second)
          return true;
  return false;
}

static bool
marks_monotone(const std::vector<Rec>& recs)
{
  long prev = 0;
  for (auto& r : recs)
    if (r.is_time)
      {
        if (static_cast<long>(r.ms) < prev)
          return false;
        prev = static_cast<long>(r.ms);
      }
  return true;
}

// ---------------------------------------------------------------------------------------------
static FILE *g_ops, *g_out, *g_orc;
static long g_checks = 0, g_fails = 0;
static std::map<std::string, long> g_stat;

static void
oracle_fail(const std::string& text)
{
  ++g_fails;
  if (g_fails <= 40)
    std::fprintf(g_orc, "ORACLE-FAIL %s\n", text.c_str());
}

static void
known_candidate(const std::string& key, const std::string& text)
{
  static std::set<std::string> done;
  if (done.insert(key).second)
    std::fprintf(g_orc, "KNOWN-CANDIDATE %s %s\n", key.c_str(), text.c_str());
}

static std::string
frames_str(const RunCfg& c)
{
  std::ostringstream s;
  s << c.frames.size();
  for (auto& f : c.frames)
    s << ' ' << f.first << ' ' << f.second;
  return s.str();
}

static std::string
run_line(const RunCfg& c)
{
  std::ostringstream s;
  s << "run " << (c.storeP ? 1 : 0) << ' ' << (c.storeD ? 1 : 0) << ' ' << c.segs << ' ' << c.tofs << ' ' << c.num_events << ' '
    << c.max_seg_proc << ' ' << (c.frames_from_file ? 1 : 0) << ' ' << c.in_memory << ' ' << frames_str(c);
  return s.str();
}

static std::string
stream_line(const ProjDataInfo& tpl, const shared_ptr<ProjDataInfo>& lm_pdi, const std::vector<Rec>& recs)
{
  // bins as the REAL decoder returns them for the template (LmToProjData::get_bin_from_event == event.get_bin)
  SynRecord rec(lm_pdi);
  std::ostringstream s;
  s << "stream";
  for (auto& r : recs)
    {
      rec.load(r);
      if (rec.is_time())
        {
          // the model's unit is the ListTime unit (ms); get_time_in_secs() is what LmToProjData compares
          s << " T" << rec.time().get_time_in_millisecs();
          continue;
        }
      Bin bin;
      bin.set_bin_value(1.f);
      rec.event().get_bin(bin, tpl);
      s << " E" << (rec.event().is_prompt() ? 'p' : 'd') << ':';
      if (bin.get_bin_value() > 0)
        s << bin.segment_num() << ':' << bin.view_num() << ':' << bin.axial_pos_num() << ':' << bin.tangential_pos_num() << ':'
          << bin.timing_pos_num();
      else
        s << 'x';
    }
  return s.str();
}

// one geometry + stream + frame set: all the runs and the oracle
struct Case
{
  shared_ptr<Scanner> scanner;
  shared_ptr<ProjDataInfo> lm_pdi;
  shared_ptr<ProjDataInfo> tpl;
  std::vector<Rec> recs;
  bool has_delayeds = true;
};

static void
emit(const std::string& op, const std::string& ans)
{
  std::fprintf(g_ops, "%s\n", op.c_str());
  std::fprintf(g_out, "%s\n", ans.c_str());
}

static void
emit_cfg(const ProjDataInfo& t)
{
  std::ostringstream s;
  s << "cfg tpl " << t.get_min_segment_num() << ' ' << t.get_max_segment_num() << ' ' << t.get_min_tof_pos_num() << ' '
    << t.get_max_tof_pos_num() << ' ' << t.get_min_tangential_pos_num() << ' ' << t.get_max_tangential_pos_num();
  for (int seg = t.get_min_segment_num(); seg <= t.get_max_segment_num(); ++seg)
    s << ' ' << t.get_min_axial_pos_num(seg) << ' ' << t.get_max_axial_pos_num(seg);
  emit(s.str(), "ok");
}

// runs `c`, prints op + answer, returns the result; if `oracle` evaluates clause (a)/(d) on it
static RunResult
do_run(const Case& cs, const RunCfg& c, bool oracle, const std::string& what)
{
  shared_ptr<ProjDataInfo> tpl_after;
  RunResult r = run_impl(cs.lm_pdi, cs.tpl, cs.recs, cs.has_delayeds, c, &tpl_after);
  emit(run_line(c), fmt_result(r, c.in_memory));
  g_stat["runs"]++;
  {
    // one output per requested frame (a single one without frame definitions)
    const std::size_t want = std::max<std::size_t>(1, c.frames.size());
    if (!r.err && r.frames.size() != want)
      {
        ++g_checks;
        oracle_fail(what + ": " + std::to_string(r.frames.size()) + " frames written, " + std::to_string(want) + " requested: " + run_line(c));
        r.frames.resize(want);
      }
  }
  if (r.err)
    {
      g_stat["runs_err"]++;
      if (oracle)
        {
          ++g_checks;
          oracle_fail(what + ": valid configuration rejected: " + run_line(c));
        }
      return r;
    }
  if (!oracle)
    return r;
  const ProjDataInfoCylindricalNoArcCorr& t = dynamic_cast<const ProjDataInfoCylindricalNoArcCorr&>(*tpl_after);
  {
    // "maximum absolute segment number to process": the output has exactly the segments -m..m, m = min(requested, template)
    const int m = c.max_seg_proc == -1 ? cs.tpl->get_max_segment_num() : std::min(c.max_seg_proc, cs.tpl->get_max_segment_num());
    ++g_checks;
    if (t.get_max_segment_num() != m || t.get_min_segment_num() != -m)
      oracle_fail(what + ": segment range after set_up is " + std::to_string(t.get_min_segment_num()) + ".." + std::to_string(t.get_max_segment_num())
                  + ", expected +-" + std::to_string(m) + ": " + run_line(c));
    // … and the histograms cover exactly that range
    for (auto& h : r.frames)
      for (auto& kv : h)
        if (kv.second != 0 && std::abs(std::get<1>(kv.first)) > m)
          oracle_fail(what + ": count in a segment that is not to be processed: " + run_line(c));
  }
  const std::size_t nframes = std::max<std::size_t>(1, c.frames.size());
  for (std::size_t k = 0; k < nframes; ++k)
    {
      if (c.in_memory == 1 && k + 1 < nframes)
        continue;
      Hist exp;
      // a frame definition FILE switches to time frames whatever num_events_to_store says
      if (c.num_events != 0 && !c.frames_from_file)
        exp = expected_num_events(t, cs.recs, c.num_events, c.storeP, c.storeD);
      else if (c.frames.empty())
        exp = expected_window(t, cs.recs, false, 0, 0, c.storeP, c.storeD);
      else
        exp = expected_window(t, cs.recs, true, c.frames[k].first, c.frames[k].second, c.storeP, c.storeD);
      ++g_checks;
      if (!same_hist(exp, r.frames[k]) || !r.integral)
        {
          std::ostringstream s;
          s << what << ": frame " << (k + 1) << " histogram differs from the count over the event list: " << run_line(c)
            << " got {" << fmt_hist(r.frames[k]) << "} expected {" << fmt_hist(exp) << "}";
          if ((c.num_events == 0 || c.frames_from_file) && frame_in_gap(cs.recs, c.frames))
            {
              g_stat["gap_mismatch"]++;
              known_candidate("lm2pd:frame-inside-time-mark-gap",
                              "LmToProjData::process_data: when two consecutive time marks jump over a whole time frame "
                              "(frame [s,e) with mark_i < s and e <= mark_i+1), the events that follow mark_i+1 (time >= e) "
                              "are histogrammed into that frame until the next time mark, because the frame end is only "
                              "tested when a time record is read; e.g. frames [0,1),[1,2),[2,3) s and the stream "
                              "T0.5 ev T2.5 ev T2.7 ev T3.5 put the event after T2.5 into frame [1,2)");
            }
          else
            oracle_fail(s.str());
        }
    }
  return r;
}

// num_events_to_store with frames from set_time_frame_definitions: the result must not depend on the batch sizes either
static void
check_hybrid_batches(const RunResult& a, const RunResult& b, const RunCfg& c)
{
  if (a.err || b.err)
    return;
  ++g_checks;
  bool same = a.frames.size() == b.frames.size();
  for (std::size_t k = 0; same && k < a.frames.size(); ++k)
    same = same_hist(a.frames[k], b.frames[k]);
  if (!same)
    {
      g_stat["hybrid_batch_mismatch"]++;
      known_candidate("lm2pd:num-events-with-frames-depends-on-batches",
                      "LmToProjData::process_data with num_events_to_store != 0 AND several frames set through "
                      "set_time_frame_definitions: every pass after the first of a frame resets current_time to the frame's "
                      "start_time, so when a frame ends by the event count before a new time mark is read, the skip loop of "
                      "the NEXT frame (while current_time < start_time) drops events only when more than one pass was made: "
                      "the histogram depends on num_segments_in_memory / num_TOF_bins_in_memory; e.g. frames [0.1,0.2),[0.3,0.4) s, "
                      "num_events_to_store=1, stream T0.4 e1 e2 e3 T0.5 e4: frame 2 holds e2 with all segments in memory, e4 with one");
    }
}

int
main(int argc, char** argv)
{
  if (argc < 5)
    return 2;
  vh::quiet();
  vh::Rng rng(std::strtoull(argv[1], nullptr, 10) * 1315423911ULL + 14);
  const bool thorough = std::string(argv[2]) == "thorough";
  g_ops = std::fopen(argv[3], "w");
  g_out = std::fopen(argv[4], "w");
  g_orc = std::fopen((std::string(argv[4]) + ".oracle").c_str(), "w");
  {
    std::string d(argv[3]);
    const std::size_t p = d.find_last_of('/');
    d = p == std::string::npos ? std::string(".") : d.substr(0, p);
    g_tmpdir = d + "/C14_tmp_" + argv[2] + "_" + argv[1] + "_" + std::to_string(static_cast<long>(::getpid()));
    ::mkdir(g_tmpdir.c_str(), 0777);
  }
  // LmToProjData reports progress on cerr/cout
  std::freopen("/dev/null", "w", stderr);
  std::freopen("/dev/null", "w", stdout);

  // ------------------------------------------------------------------ fixed reproduction of the finding
  {
    Case cs;
    cs.scanner = vh::make_scanner(8, 2, -1);
    cs.lm_pdi = vh::make_pdi(cs.scanner, 1, 1, 4, 3, false, 0);
    cs.tpl = vh::make_pdi(cs.scanner, 1, 1, 4, 3, false, 0);
    auto ev = [](int d1, int d2) {
      Rec r;
      r.d1 = d1;
      r.d2 = d2;
      return r;
    };
    auto tm = [](unsigned long ms) {
      Rec r;
      r.is_time = true;
      r.ms = ms;
      return r;
    };
    cs.recs = { tm(500), ev(0, 4), tm(2500), ev(1, 5), tm(2700), ev(2, 6), tm(3500) };
    cs.has_delayeds = false;
    emit_cfg(*cs.tpl);
    emit(stream_line(*cs.tpl, cs.lm_pdi, cs.recs), "ok " + std::to_string(cs.recs.size()));
    RunCfg c;
    c.storeD = false;
    c.frames = { { 0, 1000 }, { 1000, 2000 }, { 2000, 3000 } };
    do_run(cs, c, true, "fixed-gap-case");
    // the same stream with a mark inside every frame: must be exact
    cs.recs = { tm(500), ev(0, 4), tm(1500), tm(2500), ev(1, 5), tm(2700), ev(2, 6), tm(3500) };
    emit(stream_line(*cs.tpl, cs.lm_pdi, cs.recs), "ok " + std::to_string(cs.recs.size()));
    do_run(cs, c, true, "fixed-nogap-case");
  }

  // ------------------------------------------------------------------ fixed reproduction of the second finding:
  // num_events_to_store together with frames given through set_time_frame_definitions
  {
    Case cs;
    cs.scanner = vh::make_scanner(8, 2, -1);
    cs.lm_pdi = vh::make_pdi(cs.scanner, 1, 1, 4, 3, false, 0);
    cs.tpl = vh::make_pdi(cs.scanner, 1, 1, 4, 3, false, 0);
    auto ev = [](int d1, int d2) {
      Rec r;
      r.d1 = d1;
      r.d2 = d2;
      return r;
    };
    auto tm = [](unsigned long ms) {
      Rec r;
      r.is_time = true;
      r.ms = ms;
      return r;
    };
    cs.recs = { tm(400), ev(0, 4), ev(1, 5), ev(2, 6), tm(500), ev(3, 7) };
    cs.has_delayeds = false;
    emit_cfg(*cs.tpl);
    emit(stream_line(*cs.tpl, cs.lm_pdi, cs.recs), "ok " + std::to_string(cs.recs.size()));
    RunCfg c;
    c.storeD = false;
    c.num_events = 1;
    c.frames = { { 100, 200 }, { 300, 400 } };
    c.in_memory = 2;
    RunResult a = do_run(cs, c, false, "fixed-hybrid-all-in-memory");
    c.segs = 1;
    RunResult b = do_run(cs, c, false, "fixed-hybrid-one-segment-in-memory");
    check_hybrid_batches(a, b, c);
  }

  // ------------------------------------------------------------------ generated cases
  const int ncases = thorough ? 2000 : 240;
  for (int ci = 0; ci < ncases; ++ci)
    {
      Case cs;
      // ---- geometry
      static const int Ns[] = { 8, 12, 16, 20, 24 };
      const int N = Ns[rng.range(0, 4)];
      const int R = rng.range(1, 4);
      int max_tof = -1, tof_mash = 0;
      if (rng.range(0, 2) != 0)
        {
          static const int tofs[][2] = { { 5, 1 }, { 5, 5 }, { 9, 1 }, { 9, 3 }, { 9, 9 }, { 15, 1 }, { 15, 3 }, { 15, 5 }, { 15, 2 }, { 7, 1 } };
          const int k = rng.range(0, 9);
          max_tof = tofs[k][0];
          tof_mash = rng.range(0, 5) == 0 ? 0 : tofs[k][1]; // sometimes a non-TOF template for TOF list mode data
        }
      cs.scanner = vh::make_scanner(N, R, max_tof);
      int span = rng.range(0, 2) == 0 ? 1 : (rng.coin() ? 3 : 2);
      if (R == 1)
        span = 1;
      const int max_delta = rng.range(0, R - 1);
      std::vector<int> mashes;
      for (int m = 1; m <= N / 2; ++m)
        if ((N / 2) % m == 0)
          mashes.push_back(m);
      const int mash = rng.coin() ? 1 : mashes[rng.range(0, static_cast<int>(mashes.size()) - 1)];
      const int views = N / 2 / mash;
      const int full_tang = std::max(1, N / 2 - 1);
      const int num_tang = rng.range(0, 2) == 0 ? full_tang : rng.range(1, full_tang);
      try
        {
          cs.lm_pdi = vh::make_pdi(cs.scanner, 1, R - 1, N / 2, full_tang, false, max_tof > 0 ? 1 : 0);
          cs.tpl = vh::make_pdi(cs.scanner, span, max_delta, views, num_tang, false, tof_mash);
        }
      catch (...)
        {
          g_stat["geometry_rejected"]++;
          continue;
        }
      if (!dynamic_cast<const ProjDataInfoCylindricalNoArcCorr*>(cs.tpl.get()))
        continue;
      const ProjDataInfoCylindricalNoArcCorr& tpl = dynamic_cast<const ProjDataInfoCylindricalNoArcCorr&>(*cs.tpl);
      const int nseg = tpl.get_num_segments();
      const int ntof = tpl.get_num_tof_poss();
      g_stat["cases"]++;
      // Interfile round trip of the output is not possible for every generated geometry (even span: "does not seem to
      // contain segment 0"; TOF mashed to one bin: header not readable): those use one ProjDataInMemory per frame
      const bool file_safe = span != 2 && !(tof_mash > 0 && ntof == 1);
      auto out_mode = [&]() -> int { return file_safe && rng.range(0, 9) < 6 ? 0 : 2; };
      g_stat[std::string("span") + std::to_string(span)]++;
      g_stat[ntof > 1 ? "tof_templates" : "nontof_templates"]++;
      if (mash > 1)
        g_stat["view_mashed"]++;
      if (num_tang < full_tang)
        g_stat["tang_trimmed"]++;

      // ---- stream
      // kind 0: regular (monotone, dense marks)  1: gaps (marks may jump over frames)  2: malformed (marks go back)
      const int kind = (ci % 10 == 7) ? 1 : (ci % 10 == 9 ? 2 : 0);
      const int nrec = rng.range(10, thorough ? 260 : 160);
      const int tp_half = max_tof > 0 ? max_tof / 2 : 0;
      std::vector<long> mark_times;
      long now = rng.range(0, 3) == 0 ? 0 : rng.range(0, 400);
      bool any_delayed = false;
      const int p_time = rng.range(8, 35); // percent of time marks
      for (int i = 0; i < nrec; ++i)
        {
          Rec r;
          // some streams start with events before the first time mark
          if (rng.range(0, 99) < p_time && !(i == 0 && rng.coin()))
            {
              r.is_time = true;
              r.ms = static_cast<unsigned long>(now);
              mark_times.push_back(now);
              cs.recs.push_back(r);
              long step = rng.range(0, 9) == 0 ? 0 : rng.range(1, 120);
              if (kind == 1 && rng.range(0, 3) == 0)
                step = rng.range(300, 2500);
              now += step;
              if (kind == 2 && rng.range(0, 3) == 0)
                now = std::max<long>(0, now - rng.range(1, 400));
              continue;
            }
          r.prompt = rng.range(0, 3) != 0;
          any_delayed = any_delayed || !r.prompt;
          if (rng.range(0, 9) < 7)
            {
              r.d1 = rng.range(0, N - 1);
              do
                r.d2 = rng.range(0, N - 1);
              while (r.d2 == r.d1);
              r.r1 = rng.range(0, R - 1);
              r.r2 = rng.range(0, R - 1);
              r.tp = rng.range(-tp_half, tp_half);
            }
          else
            {
              // raw bin: segment and view inside the template, the other coordinates up to 2 outside
              r.raw = true;
              const int seg = rng.range(tpl.get_min_segment_num(), tpl.get_max_segment_num());
              const int out = rng.range(0, 9); // 0..3: one coordinate outside, 4: rejected by the decoder, else inside
              int ax = rng.range(tpl.get_min_axial_pos_num(seg), tpl.get_max_axial_pos_num(seg));
              int tang = rng.range(tpl.get_min_tangential_pos_num(), tpl.get_max_tangential_pos_num());
              int tof = rng.range(tpl.get_min_tof_pos_num(), tpl.get_max_tof_pos_num());
              const int by = rng.range(1, 2);
              if (out == 0)
                ax = rng.coin() ? tpl.get_min_axial_pos_num(seg) - by : tpl.get_max_axial_pos_num(seg) + by;
              if (out == 1)
                tang = rng.coin() ? tpl.get_min_tangential_pos_num() - by : tpl.get_max_tangential_pos_num() + by;
              if (out == 2)
                tof = rng.coin() ? tpl.get_min_tof_pos_num() - by : tpl.get_max_tof_pos_num() + by;
              if (out == 3)
                {
                  ax = tpl.get_max_axial_pos_num(seg) + 1;
                  tang = tpl.get_min_tangential_pos_num() - 1;
                }
              r.rawbin = Bin(seg, rng.range(tpl.get_min_view_num(), tpl.get_max_view_num()), ax, tang, tof, out == 4 ? (rng.coin() ? 0.F : -1.F) : 1.F);
            }
          cs.recs.push_back(r);
        }
      cs.has_delayeds = any_delayed || rng.range(0, 5) == 0;
      const long t_end = now;
      g_stat[kind == 0 ? "streams_regular" : (kind == 1 ? "streams_with_gaps" : "streams_nonmonotone")]++;

      // ---- glue oracle (e): event.get_bin == get_bin_for_det_pos_pair + ranges of the decoder
      {
        SynRecord rec(cs.lm_pdi);
        for (auto& r : cs.recs)
          if (!r.is_time && !r.raw)
            {
              rec.load(r);
              Bin b1;
              b1.set_bin_value(1.f);
              rec.event().get_bin(b1, tpl);
              Bin b2;
              const DetectionPositionPair<> dp(DetectionPosition<>(r.d1, r.r1, 0), DetectionPosition<>(r.d2, r.r2, 0), r.tp);
              const bool ok2 = tpl.get_bin_for_det_pos_pair(b2, dp) == Succeeded::yes;
              ++g_checks;
              const bool ok1 = b1.get_bin_value() > 0;
              if (ok1 != ok2
                  || (ok1
                      && (b1.segment_num() != b2.segment_num() || b1.view_num() != b2.view_num() || b1.axial_pos_num() != b2.axial_pos_num()
                          || b1.tangential_pos_num() != b2.tangential_pos_num() || b1.timing_pos_num() != b2.timing_pos_num())))
                oracle_fail("event.get_bin differs from get_bin_for_det_pos_pair for det pair " + std::to_string(r.d1) + "," + std::to_string(r.r1)
                            + " " + std::to_string(r.d2) + "," + std::to_string(r.r2) + " tof " + std::to_string(r.tp));
            }
      }

      emit_cfg(tpl);
      emit(stream_line(tpl, cs.lm_pdi, cs.recs), "ok " + std::to_string(cs.recs.size()));

      // ---- frame sets
      auto pick_boundary = [&]() -> long {
        // mostly exactly on a time mark ("events on frame boundaries"), else anywhere
        if (!mark_times.empty() && rng.range(0, 3) != 0)
          return mark_times[rng.range(0, static_cast<int>(mark_times.size()) - 1)];
        return rng.range(0, static_cast<int>(t_end + 200));
      };
      const int nframesets = thorough ? 3 : 2;
      for (int fs = 0; fs < nframesets; ++fs)
        {
          RunCfg base;
          base.in_memory = out_mode();
          const int sm = rng.range(0, 5);
          base.storeP = sm != 4;
          base.storeD = sm != 3 && sm != 5 ? true : false;
          if (sm == 4)
            base.storeD = true;
          // sm 0,1,2: (1,1)  3,5: (1,0)  4: (0,1)
          // frames; a third of the frame sets are given through a frame definition FILE: their boundaries avoid the
          // time marks (the file's durations are accumulated in floating point)
          const bool want_file = rng.range(0, 2) == 0;
          std::set<long> bs;
          const int nb = rng.range(2, 5);
          for (int k = 0; k < nb + 3 && static_cast<int>(bs.size()) < nb; ++k)
            {
              long b = pick_boundary();
              if (b <= 10)
                b = rng.coin() ? 0 : 11 + rng.range(0, 50);
              while (want_file && b != 0 && std::find(mark_times.begin(), mark_times.end(), b) != mark_times.end())
                ++b;
              bs.insert(b);
            }
          if (rng.range(0, 2) == 0)
            bs.insert(0);
          if (rng.range(0, 3) == 0)
            bs.insert(t_end + rng.range(100, 1000)); // frame reaching beyond the end of the data
          if (want_file && !mark_times.empty() && mark_times[0] == 0)
            bs.erase(0);
          std::vector<long> b(bs.begin(), bs.end());
          if (b.size() < 2)
            b.push_back(b.back() + 50);
          const bool partition = rng.range(0, 2) != 0;
          for (std::size_t k = 0; k + 1 < b.size(); ++k)
            {
              if (!partition && rng.range(0, 2) == 0 && k + 2 < b.size())
                continue; // leave a gap between frames
              if (b[k + 1] <= 10)
                continue;
              base.frames.push_back(std::make_pair(b[k], b[k + 1]));
            }
          if (base.frames.empty())
            base.frames.push_back(std::make_pair(b[0], std::max<long>(b[1], 11)));
          const bool is_partition = [&] {
            for (std::size_t k = 0; k + 1 < base.frames.size(); ++k)
              if (base.frames[k].second != base.frames[k + 1].first)
                return false;
            return true;
          }();
          const bool monotone = marks_monotone(cs.recs);
          const bool oracle_ok = monotone; // for marks that go back in time "the time of an event" is not defined: correspondence only
          if (frame_in_gap(cs.recs, base.frames))
            g_stat["framesets_with_frame_in_gap"]++;
          g_stat[is_partition ? "framesets_partition" : "framesets_with_gaps"]++;
          g_stat["frames"] += static_cast<long>(base.frames.size());

          // reference run: everything in memory at once (default -1/-1)
          base.frames_from_file = want_file && !boundary_on_mark(cs.recs, base.frames);
          if (base.frames_from_file)
            {
              g_stat["frames_from_file_runs"]++;
              if (rng.coin())
                base.num_events = rng.range(1, 20); // ignored: the file switches to time frames
            }
          RunResult ref = do_run(cs, base, oracle_ok, "default-batches");
          base.frames_from_file = false;
          base.num_events = 0;

          // (b) every num_segments_in_memory, with some num_TOF_bins_in_memory
          std::vector<std::pair<int, int>> batches;
          for (int s = 1; s <= nseg + 1; ++s) // nseg+1: clamped by set_up
            {
              int tb = -1;
              if (ntof > 1)
                {
                  const int z = rng.range(0, 2);
                  tb = z == 0 ? 1 : (z == 1 ? rng.range(1, ntof) : -1);
                }
              batches.push_back(std::make_pair(s, tb));
            }
          for (int tb = 1; tb <= ntof + 1 && ntof > 1; ++tb)
            if (thorough || tb <= 3 || tb >= ntof)
              batches.push_back(std::make_pair(rng.range(0, 3) == 0 ? -1 : rng.range(1, nseg), tb));
          for (auto& sb : batches)
            {
              RunCfg c = base;
              c.segs = sb.first;
              c.tofs = sb.second;
              c.in_memory = out_mode();
              RunResult r = do_run(cs, c, oracle_ok, "batches");
              // batch independence holds for every stream (also malformed ones)
              ++g_checks;
              if (!ref.err && !r.err)
                {
                  bool same = r.frames.size() == ref.frames.size();
                  for (std::size_t k = 0; same && k < r.frames.size(); ++k)
                    same = same_hist(r.frames[k], ref.frames[k]);
                  if (!same)
                    oracle_fail("result depends on num_segments_in_memory/num_TOF_bins_in_memory: " + run_line(c) + " vs default");
                }
              g_stat["batch_runs"]++;
            }

          // (c) frames of a partition add up to the histogram of the whole interval
          if (is_partition && base.frames.size() > 1 && !ref.err)
            {
              RunCfg c = base;
              c.frames.clear();
              c.frames.push_back(std::make_pair(base.frames.front().first, base.frames.back().second));
              c.segs = rng.range(0, 1) ? -1 : rng.range(1, nseg);
              RunResult whole = do_run(cs, c, oracle_ok && !frame_in_gap(cs.recs, base.frames), "whole-interval");
              if (!whole.err && monotone)
                {
                  Hist sum;
                  for (auto& h : ref.frames)
                    sum = add_hist(sum, h);
                  ++g_checks;
                  if (!same_hist(sum, whole.frames[0]))
                    {
                      if (frame_in_gap(cs.recs, base.frames))
                        known_candidate("lm2pd:frame-inside-time-mark-gap",
                                        "LmToProjData::process_data: frames of a partition do not add up to the whole interval when two "
                                        "consecutive time marks jump over a whole frame");
                      else
                        oracle_fail("frames of a partition do not add up to the histogram of the whole interval: " + run_line(base));
                    }
                  g_stat["frames_add_checks"]++;
                }
            }

          // in-memory output (last frame only), max segment to process
          if (rng.range(0, 2) == 0)
            {
              RunCfg c = base;
              c.in_memory = 1;
              c.segs = rng.range(1, nseg);
              do_run(cs, c, oracle_ok, "in-memory-output");
            }
          if (tpl.get_max_segment_num() > 0 && rng.range(0, 1) == 0)
            {
              RunCfg c = base;
              c.max_seg_proc = rng.range(0, tpl.get_max_segment_num());
              c.segs = rng.range(0, 1) ? -1 : rng.range(1, 2 * c.max_seg_proc + 1);
              do_run(cs, c, oracle_ok, "max-segment-to-process");
              g_stat["max_seg_runs"]++;
            }
        }

      // ---- no frame definitions: the whole stream
      {
        RunCfg c;
        c.in_memory = out_mode();
        c.storeP = true;
        c.storeD = rng.coin();
        c.segs = rng.range(0, 1) ? -1 : rng.range(1, nseg);
        do_run(cs, c, true, "no-frames");
      }

      // ---- (d) num_events_to_store
      {
        long nev = 0;
        for (auto& r : cs.recs)
          nev += r.is_time ? 0 : 1;
        for (int k = 0; k < 3; ++k)
          {
            RunCfg c;
          c.in_memory = out_mode();
            c.in_memory = out_mode();
        c.in_memory = out_mode();
            const int sm = rng.range(0, 2);
            c.storeP = sm != 2;
            c.storeD = sm != 1;
            c.num_events = k == 0 ? 1 : rng.range(1, static_cast<int>(nev / (sm == 0 ? 3 : 1)) + 3);
            RunResult ref = do_run(cs, c, true, "num-events");
            RunCfg c2 = c;
            c2.segs = rng.range(1, nseg);
            c2.tofs = ntof > 1 ? rng.range(1, ntof) : -1;
            RunResult r2 = do_run(cs, c2, true, "num-events-batches");
            ++g_checks;
            if (!ref.err && !r2.err && !same_hist(ref.frames[0], r2.frames[0]))
              oracle_fail("num_events_to_store result depends on the batch sizes: " + run_line(c2));
            g_stat["num_events_runs"] += 2;
          }
        // frames given through the setter together with num_events_to_store: hybrid mode of the code
        // (start times honoured, end times not): correspondence with the model only
        if (rng.range(0, 2) == 0)
          {
            RunCfg c;
          c.in_memory = out_mode();
            c.in_memory = out_mode();
        c.in_memory = out_mode();
            c.num_events = rng.range(1, static_cast<int>(nev / 2) + 2);
            const long a = pick_boundary(), b = a + rng.range(20, 600), d = b + rng.range(0, 300);
            c.frames = { { a, std::max<long>(b, 11) }, { std::max<long>(b, 11), std::max<long>(d, 12) } };
            c.segs = rng.range(0, 1) ? -1 : rng.range(1, nseg);
            RunResult ha = do_run(cs, c, false, "num-events-with-frames");
            RunCfg c2 = c;
            c2.segs = c.segs == -1 ? rng.range(1, nseg) : -1;
            c2.tofs = ntof > 1 ? 1 : -1;
            RunResult hb = do_run(cs, c2, false, "num-events-with-frames-batches");
            check_hybrid_batches(ha, hb, c2);
            g_stat["hybrid_runs"] += 2;
          }
      }

      // ---- malformed configurations: error branches
      if (ci % 6 == 0)
        {
          RunCfg c;
          c.in_memory = out_mode();
        c.in_memory = out_mode();
          c.storeP = false;
          c.storeD = false; // "At least one of store_prompts or store_delayeds should be true"
          c.frames = { { 0, 1000 } };
          do_run(cs, c, false, "store-nothing");
          g_stat["malformed_runs"]++;
        }
    }

  std::fprintf(g_orc, "STATS");
  for (auto& kv : g_stat)
    std::fprintf(g_orc, " %s=%ld", kv.first.c_str(), kv.second);
  std::fprintf(g_orc, "\n");
  std::fprintf(g_orc, "ORACLE-DONE checks=%ld fails=%ld\n", g_checks, g_fails);
  std::fclose(g_ops);
  std::fclose(g_out);
  std::fclose(g_orc);
  ::rmdir(g_tmpdir.c_str());
  return 0;
}
