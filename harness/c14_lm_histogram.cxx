// C14 — implementation side: list-mode histogramming agrees with the event list.
//
// A synthetic stir::ListModeData (records held in memory: time marks and coincidence events, the events being
// real CListEventCylindricalScannerWithDiscreteDetectors objects decoded by the library's own get_bin(), plus
// "raw-bin" events whose get_bin() hands a prepared Bin to LmToProjData so that the range tests of
// process_data are exercised on their own) is fed to the REAL stir::LmToProjData (set_input_data,
// set_template_proj_data_info_sptr, set_time_frame_definitions / frame definition file, set_store_prompts/delayeds,
// set_num_segments_in_memory, num_TOF_bins_in_memory and "maximum absolute segment number to process" through the
// class's own keymap, set_num_events_to_store, set_up, process_data).  The projection data written per frame
// (Interfile under build/out, or ProjDataInMemory) are read back and printed.
//
// Usage: c14_lm_histogram <seed> <quick|thorough> <opsfile> <implfile> [hist|lmobj]
//   ops  : cfg tpl … / stream … / run …   (see lean/Driver/C14.lean)
//   impl : one answer line per op
//   impl.oracle : the property's own statement evaluated on the implementation:
//        (a) every frame's histogram == independent count over the event list (event time = preceding time mark,
//            bin = ProjDataInfoCylindricalNoArcCorr::get_bin_for_det_pos_pair, range = template ranges, +1 / -1 / 0),
//        (b) the result is the same for every num_segments_in_memory x num_TOF_bins_in_memory,
//        (c) the frames of a partition add up to the histogram of the whole interval,
//        (d) num_events_to_store keeps exactly the events up to the one that completes the requested total,
//        (e) CListEvent::get_bin == get_bin_for_det_pos_pair glue.
//
// FAMILY 2 (namespace lmo, after the histogram cases; own Rng stream): the same kind of synthetic ListModeData is given to the REAL
// PoissonLogLikelihoodWithLinearModelForMeanAndListModeDataWithProjMatrixByBin (set_input_data, set_proj_matrix, set_additive_proj_data_sptr,
// set_normalisation_sptr, set_max_segment_num_to_process, set_num_subsets, frame_defs, "time frame number" / "num_events_to_use" through the
// keymap, set_cache_path / set_cache_max_size / set_recompute_cache, set_up) and every subset's gradient, gradient plus sensitivity,
// sensitivity, Hessian product and value are computed.
//   ops  : cfg tpl / stream (processed geometry) / lmcfg / lmimg / lmbin (rows, additive values, basic views from the real matrix) /
//          lmgps <subset> (answer: gradient plus sensitivity of the real class, hex floats)
//   oracle: (f) the property's last clause on the implementation: the events histogrammed by the real LmToProjData and given to the real
//          PoissonLogLikelihoodWithLinearModelForMeanAndProjData with the same matrix type, additive term and normalisation give the same
//          gradient (per subset and in total; see the comments at the comparisons for what is comparable for TOF data),
//          (g) textbook expressions in double precision on explicit rows, (h) cache-size independence, (i) setter histories against fresh
//          objects (bitwise), (j) value differences.  Known classes of defects are recognised and reported with a stable key.
//          (k) re-use of cache files: a second object with recompute_cache = false on the same cache path, given another stream, reproduces the
//          results of the object that wrote the files bitwise; with use_subset_sensitivities = false: subset sensitivity = total / number of subsets.
// FAMILY 3 (namespace nrm): pre- and post-normalisation in LmToProjData (ops cfg norm / cfg cc / cfg eff / stream with efficiencies / runw).
// FAMILY 4 (namespace evk): LOR-only events, BlocksOnCylindrical scanners, real SAFIR and ECAT8 32-bit list-mode files written from the
//          event list and read through the library's readers (ops cfg tpl / stream / run).  See the comments at the namespaces.
// Optional 5th argument (development): "hist" = family 1 only, "lmobj" = family 2, "norm" = family 3, "events" = family 4.
// C14_ALL_FAILS=1 prints every ORACLE-FAIL line; C14_DEBUG=1 keeps stderr/stdout of the library.
#include "stir_fixtures.h"
#include "common.h"
#include "stir/listmode/LmToProjData.h"
#include "stir/listmode/ListModeData.h"
#include "stir/listmode/CListRecord.h"
#include "stir/listmode/ListTime.h"
#include "stir/listmode/CListEventCylindricalScannerWithDiscreteDetectors.h"
#include "stir/ProjDataInfoCylindricalNoArcCorr.h"
#include "stir/ProjDataInfoGenericNoArcCorr.h"
#include "stir/ProjDataInfoBlocksOnCylindricalNoArcCorr.h"
#include "stir/ProjDataInterfile.h"
#include "stir/IO/read_from_file.h"
#include "stir/listmode/CListModeDataSAFIR.h"
#include "stir/listmode/CListRecordSAFIR.h"
#include "stir/LORCoordinates.h"
#include <cstring>
#include <fstream>
#include "stir/ProjDataInMemory.h"
#include "stir/ProjData.h"
#include "stir/SegmentByView.h"
#include "stir/TimeFrameDefinitions.h"
#include "stir/DetectionPositionPair.h"
#include "stir/ExamInfo.h"
#include "stir/Succeeded.h"
#include "stir/Bin.h"
#include "stir/recon_buildblock/PoissonLogLikelihoodWithLinearModelForMeanAndListModeDataWithProjMatrixByBin.h"
#include "stir/recon_buildblock/PoissonLogLikelihoodWithLinearModelForMeanAndProjData.h"
#include "stir/recon_buildblock/ProjMatrixByBinUsingRayTracing.h"
#include "stir/recon_buildblock/ProjMatrixElemsForOneBin.h"
#include "stir/recon_buildblock/ProjectorByBinPairUsingProjMatrixByBin.h"
#include "stir/recon_buildblock/DataSymmetriesForBins.h"
#include "stir/recon_buildblock/BinNormalisation.h"
#include "stir/recon_buildblock/TrivialBinNormalisation.h"
#include "stir/recon_buildblock/BinNormalisationFromProjData.h"
#include "stir/recon_buildblock/ChainedBinNormalisation.h"
#include "stir/RegisteredParsingObject.h"
#include "stir/DiscretisedDensity.h"
#include "stir/Viewgram.h"
#include <algorithm>
#include <array>
#include <cmath>
#include <dirent.h>
#include <map>
#include <set>
#include <tuple>
#include <sys/stat.h>
#include <unistd.h>

using namespace stir;

// ---------------------------------------------------------------------------------------------
// synthetic list-mode data
// ---------------------------------------------------------------------------------------------
struct Rec
{
  bool is_time = false;
  unsigned long ms = 0; // time mark
  bool prompt = true;
  bool raw = false;
  int d1 = 0, r1 = 0, d2 = 1, r2 = 0, tp = 0; // detector pair + unmashed TOF index
  Bin rawbin;                                 // raw-bin event (bin value <= 0: rejected by the "decoder")
};

struct SynEvent : public CListEventCylindricalScannerWithDiscreteDetectors
{
  typedef CListEventCylindricalScannerWithDiscreteDetectors base;
  explicit SynEvent(const shared_ptr<const ProjDataInfo>& pdi)
      : base(pdi)
  {}
  bool prompt = true;
  bool raw = false;
  Bin rawbin;
  DetectionPositionPair<> dp;
  bool is_prompt() const override { return prompt; }
  void get_detection_position(DetectionPositionPair<>& d) const override { d = dp; }
  void set_detection_position(const DetectionPositionPair<>& d) override { dp = d; }
  void get_bin(Bin& bin, const ProjDataInfo& pdi) const override
  {
    if (!raw)
      {
        base::get_bin(bin, pdi);
        return;
      }
    // raw-bin event: a decoder that knows the bin; like the library's decoders it only returns
    // segments of the data it is asked about (everything else is left for LmToProjData to test)
    bin = rawbin;
    if (bin.segment_num() < pdi.get_min_segment_num() || bin.segment_num() > pdi.get_max_segment_num())
      bin.set_bin_value(0);
  }
};

struct SynTime : public ListTime
{
  unsigned long ms = 0;
  unsigned long get_time_in_millisecs() const override { return ms; }
  Succeeded set_time_in_millisecs(const unsigned long t) override
  {
    ms = t;
    return Succeeded::yes;
  }
};

struct SynRecordBase : public CListRecord
{
  virtual void load(const Rec& r) = 0;
};

struct SynRecord : public SynRecordBase
{
  explicit SynRecord(const shared_ptr<const ProjDataInfo>& pdi)
      : e(pdi)
  {}
  bool istime = false;
  SynTime t;
  SynEvent e;
  bool is_time() const override { return istime; }
  bool is_event() const override { return !istime; }
  ListEvent& event() override { return e; }
  const ListEvent& event() const override { return e; }
  ListTime& time() override { return t; }
  const ListTime& time() const override { return t; }
  void load(const Rec& r) override
  {
    istime = r.is_time;
    if (r.is_time)
      t.ms = r.ms;
    else
      {
        e.prompt = r.prompt;
        e.raw = r.raw;
        e.rawbin = r.rawbin;
        e.dp = DetectionPositionPair<>(DetectionPosition<>(r.d1, r.r1, 0), DetectionPosition<>(r.d2, r.r2, 0), r.tp);
      }
  }
};

// Other kinds of events (family 4):
//   1: an event of a cylindrical scanner that only knows its LOR — the library's CListEventScannerWithDiscreteDetectors<
//      ProjDataInfoCylindricalNoArcCorr>::get_LOR() — and leaves get_bin() to ListEvent::get_bin (ListEvent.cxx: the LOR path,
//      proj_data_info.get_bin(get_LOR()));
//   2: an event of a BlocksOnCylindrical scanner with detector indices: get_bin() as CListEventScannerWithDiscreteDetectors<
//      ProjDataInfoGenericNoArcCorr>::get_bin() does it (ProjDataInfoGenericNoArcCorr::get_bin_for_det_pos_pair; value 0/1).  The
//      library's template itself cannot be instantiated with ProjDataInfoGenericNoArcCorr: its get_LOR() calls
//      find_cartesian_coordinates_given_scanner_coordinates with 7 arguments, the Generic class only has the 6-argument one;
//   3: an event of a BlocksOnCylindrical scanner that only knows its LOR (crystal coordinates of the scanner's detector map, as
//      CListEventSAFIR::get_LOR()), get_bin() left to ListEvent::get_bin.
struct AnyEvent : public CListEvent
{
  int kind = 1;
  shared_ptr<const ProjDataInfo> pdi;
  shared_ptr<SynEvent> cyl;
  DetectionPositionPair<> dp;
  bool prompt = true;
  AnyEvent(int k, const shared_ptr<const ProjDataInfo>& p)
      : kind(k),
        pdi(p)
  {
    if (kind == 1)
      cyl.reset(new SynEvent(p));
  }
  bool is_prompt() const override { return prompt; }
  bool is_valid_template(const ProjDataInfo&) const override { return true; }
  LORAs2Points<float> get_LOR() const override
  {
    if (kind == 1)
      return cyl->get_LOR();
    LORAs2Points<float> lor;
    lor.p1() = pdi->get_scanner_ptr()->get_coordinate_for_det_pos(dp.pos1());
    lor.p2() = pdi->get_scanner_ptr()->get_coordinate_for_det_pos(dp.pos2());
    return lor;
  }
  void get_bin(Bin& bin, const ProjDataInfo& p) const override
  {
    if (kind != 2)
      {
        ListEvent::get_bin(bin, p);
        return;
      }
    if (dynamic_cast<const ProjDataInfoGenericNoArcCorr&>(p).get_bin_for_det_pos_pair(bin, dp) == Succeeded::no)
      bin.set_bin_value(0);
    else
      bin.set_bin_value(1);
  }
};

struct AnyRecord : public SynRecordBase
{
  AnyRecord(int kind, const shared_ptr<const ProjDataInfo>& pdi)
      : e(kind, pdi)
  {}
  bool istime = false;
  SynTime t;
  AnyEvent e;
  bool is_time() const override { return istime; }
  bool is_event() const override { return !istime; }
  ListEvent& event() override { return e; }
  const ListEvent& event() const override { return e; }
  ListTime& time() override { return t; }
  const ListTime& time() const override { return t; }
  void load(const Rec& r) override
  {
    istime = r.is_time;
    if (r.is_time)
      t.ms = r.ms;
    else
      {
        e.prompt = r.prompt;
        e.dp = DetectionPositionPair<>(DetectionPosition<>(r.d1, r.r1, 0), DetectionPosition<>(r.d2, r.r2, 0), r.tp);
        if (e.cyl)
          e.cyl->dp = e.dp;
      }
  }
};

static shared_ptr<SynRecordBase>
make_syn_record(int kind, const shared_ptr<const ProjDataInfo>& pdi)
{
  if (kind == 0)
    return shared_ptr<SynRecordBase>(new SynRecord(pdi));
  return shared_ptr<SynRecordBase>(new AnyRecord(kind, pdi));
}

struct SynLM : public ListModeData
{
  std::vector<Rec> recs;
  bool delayeds = true;
  int kind = 0; // kind of the events (0: SynEvent, else AnyEvent)
  mutable std::size_t pos = 0;
  mutable long reads = 0;
  std::vector<std::size_t> saved;
  SynLM(const shared_ptr<const ProjDataInfo>& pdi, const std::vector<Rec>& r, bool has_del, int event_kind = 0)
      : recs(r),
        delayeds(has_del),
        kind(event_kind)
  {
    shared_ptr<ExamInfo> ei(new ExamInfo);
    ei->imaging_modality = ImagingModality::PT;
    this->exam_info_sptr = ei;
    this->set_proj_data_info_sptr(pdi);
  }
  std::string get_name() const override { return "verif-synthetic-listmode"; }
  Succeeded reset() override
  {
    pos = 0;
    return Succeeded::yes;
  }
  SavedPosition save_get_position() override
  {
    saved.push_back(pos);
    return static_cast<SavedPosition>(saved.size() - 1);
  }
  Succeeded set_get_position(const SavedPosition& p) override
  {
    if (p >= saved.size())
      return Succeeded::no;
    pos = saved[p];
    return Succeeded::yes;
  }
  bool has_delayeds() const override { return delayeds; }

protected:
  shared_ptr<ListRecord> get_empty_record_helper_sptr() const override
  {
    return make_syn_record(kind, this->get_proj_data_info_sptr());
  }
  Succeeded get_next(ListRecord& r) const override
  {
    if (pos >= recs.size())
      return Succeeded::no;
    static_cast<SynRecordBase&>(r).load(recs[pos++]);
    ++reads;
    return Succeeded::yes;
  }
};

// A bin normalisation with get_bin_efficiency() (the member LmToProjData calls; BinNormalisationFromProjData and
// BinNormalisationFromAttenuationImage do not implement it): the efficiency of a bin is a table value determined by `salt`
// (hash_eff below), every `low`-th bin (low > 0) has an unusable efficiency (0, 1e-12 or negative).  Registered, so that it is
// given to LmToProjData through the class's own keys "Bin Normalisation type for pre-/post-normalisation".
static float
hash_eff(int salt, int low, int seg, int view, int ax, int tang, int tof)
{
  uint64_t h = 0x9E3779B97F4A7C15ULL * static_cast<uint64_t>(salt + 1);
  const int c[5] = { seg, view, ax, tang, tof };
  for (int k = 0; k < 5; ++k)
    {
      h ^= static_cast<uint64_t>(static_cast<int64_t>(c[k]) + 1000);
      h *= 0xBF58476D1CE4E5B9ULL;
      h ^= h >> 29;
    }
  if (low > 0 && (h >> 8) % static_cast<uint64_t>(low) == 0)
    {
      const int k = static_cast<int>((h >> 40) % 3);
      return k == 0 ? 0.F : (k == 1 ? 1e-12F : -0.5F);
    }
  return 0.3F + static_cast<float>((h >> 16) % 1000) / 370.F;
}

struct HashNorm : public RegisteredParsingObject<HashNorm, BinNormalisation>
{
  static const char* const registered_name;
  int salt = 0, low = 0;
  HashNorm() { set_defaults(); }
  void set_defaults() override
  {
    BinNormalisation::set_defaults();
    salt = 0;
    low = 0;
  }
  void initialise_keymap() override
  {
    this->parser.add_start_key("verif hash Bin Normalisation Parameters");
    this->parser.add_key("salt", &salt);
    this->parser.add_key("low", &low);
    this->parser.add_stop_key("End verif hash Bin Normalisation Parameters");
  }
  float get_bin_efficiency(const Bin& b) const override
  {
    return hash_eff(salt, low, b.segment_num(), b.view_num(), b.axial_pos_num(), b.tangential_pos_num(), b.timing_pos_num());
  }
};
const char* const HashNorm::registered_name = "verif hash";
static HashNorm::RegisterIt hash_norm_registration;

// LmToProjData with the file-reading part of post_processing() switched off, so that the class's own
// keymap can be used (through the public parse(std::istream&)) for the keys that have no setter.
// start_new_time_frame() is the class's documented hook ("will be called when a new time frame starts"): used to
// give every frame its own in-memory output (set_output_projdata_sptr alone keeps the last frame only).
struct Lm2PD : public LmToProjData
{
  bool post_processing() override { return false; }
  shared_ptr<ListModeData> input() const { return this->lm_data_ptr; }
  bool capture = false;
  shared_ptr<const ExamInfo> capture_exam_info;
  std::vector<shared_ptr<ProjData>> captured;
  void start_new_time_frame(const unsigned int) override
  {
    if (!capture)
      return;
    shared_ptr<ProjData> p(new ProjDataInMemory(capture_exam_info, this->get_template_proj_data_info_sptr()->create_shared_clone()));
    captured.push_back(p);
    this->set_output_projdata_sptr(p);
  }
};

// ---------------------------------------------------------------------------------------------
typedef std::tuple<int, int, int, int, int> Key; // tof, seg, view, ax, tang  (print order)
typedef std::map<Key, long> Hist;
typedef std::map<Key, float> HistF; // the stored floats (normalised histograms)

static std::string
fmt_hist(const Hist& h)
{
  std::ostringstream s;
  bool first = true;
  for (auto& kv : h)
    if (kv.second != 0)
      {
        if (!first)
          s << ' ';
        first = false;
        s << std::get<1>(kv.first) << ',' << std::get<2>(kv.first) << ',' << std::get<3>(kv.first) << ',' << std::get<4>(kv.first)
          << ',' << std::get<0>(kv.first) << '=' << kv.second;
      }
  if (first)
    s << '-';
  return s.str();
}

// read every bin of a projection data set; non-integral values are reported as an error token
static bool
read_hist(const ProjData& pd, Hist& h, HistF* hf = nullptr)
{
  bool integral = true;
  for (int tof = pd.get_min_tof_pos_num(); tof <= pd.get_max_tof_pos_num(); ++tof)
    for (int seg = pd.get_min_segment_num(); seg <= pd.get_max_segment_num(); ++seg)
      {
        const SegmentByView<float> s = pd.get_segment_by_view(seg, tof);
        for (int v = s.get_min_view_num(); v <= s.get_max_view_num(); ++v)
          for (int a = s.get_min_axial_pos_num(); a <= s.get_max_axial_pos_num(); ++a)
            for (int t = s.get_min_tangential_pos_num(); t <= s.get_max_tangential_pos_num(); ++t)
              {
                const float x = s[v][a][t];
                if (x != 0.F)
                  {
                    if (x != std::floor(x))
                      integral = false;
                    h[Key(tof, seg, v, a, t)] += std::lround(x);
                    if (hf)
                      (*hf)[Key(tof, seg, v, a, t)] = x;
                  }
              }
      }
  return integral;
}

struct RunCfg
{
  bool storeP = true, storeD = true;
  int segs = -1, tofs = -1;      // as requested (-1: default)
  long num_events = 0;           // 0: use time frames
  int max_seg_proc = -1;         // -1: default
  bool frames_from_file = false; // frame definitions through "frame_definition file"
  int in_memory = 0;             // 0: Interfile output per frame (read back); 1: set_output_projdata_sptr (last frame only);
                                 // 2: one ProjDataInMemory per frame through the start_new_time_frame() hook
  std::vector<std::pair<long, long>> frames; // ms
  // normalisation (keys "Bin Normalisation type for pre-/post-normalisation", "do pre normalisation"):
  int norm = 0;                              // 0: none (defaults)  1: post-normalisation  2: pre-normalisation
  int salt1 = 0, salt2 = -1, low = 0;        // HashNorm(salt1, low), chained with HashNorm(salt2, 0) if salt2 >= 0
  // how the stream is delivered (not part of the run line: the model sees the decoded stream)
  int lm_kind = 0;     // kind of synthetic events (see AnyEvent)
  std::string lm_file; // non-empty: a real list-mode file, given to LmToProjData::set_input_data(filename)
  std::string lm_safir; // non-empty: a SAFIR list-mode data file, opened with CListModeDataSAFIR(filename, proj_data_info)
};

struct RunResult
{
  bool err = false;
  long last_ms = 0;
  int segs_in_memory = 0;
  std::vector<Hist> frames;
  std::vector<HistF> framesF;
  bool integral = true;
  long reads = 0;
  long rewinds = 0;
};

static std::string g_tmpdir;
static long g_run_id = 0;

static RunResult
run_impl(const shared_ptr<ProjDataInfo>& lm_pdi,
         const shared_ptr<ProjDataInfo>& tpl,
         const std::vector<Rec>& recs,
         bool has_delayeds,
         const RunCfg& c,
         shared_ptr<ProjDataInfo>* tpl_after_setup = nullptr,
         shared_ptr<ProjData>* out_projdata = nullptr)
{
  RunResult res;
  const std::string prefix = g_tmpdir + "/r" + std::to_string(++g_run_id);
  std::vector<std::string> files;
  try
    {
      shared_ptr<SynLM> lm;
      if (c.lm_file.empty() && c.lm_safir.empty())
        lm.reset(new SynLM(lm_pdi, recs, has_delayeds, c.lm_kind));
      Lm2PD conv;
      // keys without setter: through the object's own keymap
      {
        std::ostringstream par;
        par << "lm_to_projdata Parameters:=\n";
        if (c.tofs != -1)
          par << "num_TOF_bins_in_memory := " << c.tofs << "\n";
        if (c.max_seg_proc != -1)
          par << "maximum absolute segment number to process := " << c.max_seg_proc << "\n";
        if (c.frames_from_file)
          {
            // .fdef: "num duration" lines, gaps as "0 duration"
            const std::string fdef = prefix + ".fdef";
            files.push_back(fdef);
            FILE* f = std::fopen(fdef.c_str(), "w");
            long prev = 0;
            for (auto& fr : c.frames)
              {
                if (fr.first != prev)
                  std::fprintf(f, "0 %.3f\n", (fr.first - prev) / 1000.);
                std::fprintf(f, "1 %.3f\n", (fr.second - fr.first) / 1000.);
                prev = fr.second;
              }
            std::fclose(f);
            par << "frame_definition file := " << fdef << "\n";
          }
        if (c.norm != 0)
          {
            const char* which = c.norm == 2 ? "pre" : "post";
            auto hash_block = [&](int salt, int low) {
              par << "verif hash Bin Normalisation Parameters:=\n salt := " << salt << "\n low := " << low
                  << "\nEnd verif hash Bin Normalisation Parameters:=\n";
            };
            if (c.salt2 < 0)
              {
                par << "Bin Normalisation type for " << which << "-normalisation := verif hash\n";
                hash_block(c.salt1, c.low);
              }
            else
              {
                par << "Bin Normalisation type for " << which << "-normalisation := Chained\n";
                par << "Chained Bin Normalisation Parameters:=\n Bin Normalisation to apply first := verif hash\n";
                hash_block(c.salt1, c.low);
                par << " Bin Normalisation to apply second := verif hash\n";
                hash_block(c.salt2, 0);
                par << "End Chained Bin Normalisation Parameters:=\n";
              }
            if (c.norm == 2)
              par << "do pre normalisation := 1\n";
          }
        par << "END:=\n";
        std::istringstream in(par.str());
        if (!conv.parse(in))
          throw std::runtime_error("parse");
      }
      if (lm)
        conv.set_input_data(lm);
      else if (!c.lm_safir.empty())
        conv.set_input_data(shared_ptr<ExamData>(new CListModeDataSAFIR<CListRecordSAFIR<CListEventDataSAFIR>>(c.lm_safir, lm_pdi)));
      else
        conv.set_input_data(c.lm_file); // read_from_file<ListModeData>
      conv.set_template_proj_data_info_sptr(tpl);
      conv.set_output_filename_prefix(prefix);
      conv.set_store_prompts(c.storeP);
      conv.set_store_delayeds(c.storeD);
      if (c.segs != -1)
        conv.set_num_segments_in_memory(c.segs);
      if (c.num_events != 0)
        conv.set_num_events_to_store(c.num_events);
      if (!c.frames_from_file && !c.frames.empty())
        {
          std::vector<std::pair<double, double>> ft;
          for (auto& fr : c.frames)
            ft.push_back(std::make_pair(fr.first / 1000., fr.second / 1000.));
          conv.set_time_frame_definitions(TimeFrameDefinitions(ft));
        }
      if (conv.set_up() != Succeeded::yes)
        throw std::runtime_error("set_up");
      res.segs_in_memory = conv.get_num_segments_in_memory();
      if (tpl_after_setup)
        *tpl_after_setup = conv.get_template_proj_data_info_sptr()->create_shared_clone();
      const std::size_t nframes = std::max<std::size_t>(1, c.frames.size());
      shared_ptr<ProjData> mem;
      if (c.in_memory == 2)
        {
          conv.capture = true;
          conv.capture_exam_info = conv.input()->get_exam_info_sptr();
        }
      if (c.in_memory == 1)
        {
          mem.reset(new ProjDataInMemory(conv.input()->get_exam_info_sptr(), conv.get_template_proj_data_info_sptr()->create_shared_clone()));
          conv.set_output_projdata_sptr(mem);
        }
      for (std::size_t k = 1; k <= nframes; ++k)
        {
          files.push_back(prefix + "_f" + std::to_string(k) + "g1d0b0.hs");
          files.push_back(prefix + "_f" + std::to_string(k) + "g1d0b0.s");
        }
      conv.process_data();
      res.last_ms = std::lround(conv.get_last_processed_lm_rel_time() * 1000.);
      res.reads = lm ? lm->reads : 0;
      if (c.in_memory == 2)
        {
          for (auto& p : conv.captured)
            {
              Hist h;
              HistF hf;
              if (!read_hist(*p, h, &hf))
                res.integral = false;
              res.frames.push_back(h);
              res.framesF.push_back(hf);
            }
        }
      else if (c.in_memory == 1)
        {
          // "will only store data from the last defined time frame"
          res.frames.resize(nframes);
          res.framesF.resize(nframes);
          res.integral = read_hist(*mem, res.frames[nframes - 1], &res.framesF[nframes - 1]);
          if (out_projdata)
            *out_projdata = mem;
        }
      else
        {
          for (std::size_t k = 1; k <= nframes; ++k)
            {
              shared_ptr<ProjData> pd = ProjData::read_from_file(prefix + "_f" + std::to_string(k) + "g1d0b0.hs");
              Hist h;
              HistF hf;
              if (!read_hist(*pd, h, &hf))
                res.integral = false;
              res.frames.push_back(h);
              res.framesF.push_back(hf);
            }
        }
    }
  catch (...)
    {
      res.err = true;
    }
  for (auto& f : files)
    ::unlink(f.c_str());
  return res;
}

static std::string
fmt_result(const RunResult& r, int in_memory)
{
  if (r.err)
    return "err";
  std::ostringstream s;
  s << "t=" << r.last_ms << " sim=" << r.segs_in_memory;
  if (!r.integral)
    s << " non-integral";
  for (std::size_t k = 0; k < r.frames.size(); ++k)
    {
      if (in_memory == 1 && k + 1 < r.frames.size())
        continue;
      s << " | " << fmt_hist(r.frames[k]);
    }
  return s.str();
}

// ---------------------------------------------------------------------------------------------
// the property's own statement: independent count
// ---------------------------------------------------------------------------------------------
struct Decoded
{
  bool valid = false; // the data geometry assigns a bin of the (processed) template
  Key key;
};

static Decoded
decode_independent(const ProjDataInfo& t, const Rec& r)
{
  Decoded d;
  Bin bin;
  if (r.raw)
    {
      bin = r.rawbin;
      if (!(bin.get_bin_value() > 0))
        return d;
      if (bin.segment_num() < t.get_min_segment_num() || bin.segment_num() > t.get_max_segment_num())
        return d;
    }
  else
    {
      const DetectionPositionPair<> dp(DetectionPosition<>(r.d1, r.r1, 0), DetectionPosition<>(r.d2, r.r2, 0), r.tp);
      // "the bin that the data geometry assigns to the event's detector pair and TOF index"
      if (auto cyl = dynamic_cast<const ProjDataInfoCylindricalNoArcCorr*>(&t))
        {
          if (cyl->get_bin_for_det_pos_pair(bin, dp) != Succeeded::yes)
            return d;
        }
      else if (auto gen = dynamic_cast<const ProjDataInfoGenericNoArcCorr*>(&t))
        {
          if (gen->get_bin_for_det_pos_pair(bin, dp) != Succeeded::yes)
            return d;
        }
      else
        return d;
    }
  // "inside the data": template ranges
  if (bin.segment_num() < t.get_min_segment_num() || bin.segment_num() > t.get_max_segment_num())
    return d;
  if (bin.view_num() < t.get_min_view_num() || bin.view_num() > t.get_max_view_num())
    return d;
  if (bin.axial_pos_num() < t.get_min_axial_pos_num(bin.segment_num()) || bin.axial_pos_num() > t.get_max_axial_pos_num(bin.segment_num()))
    return d;
  if (bin.tangential_pos_num() < t.get_min_tangential_pos_num() || bin.tangential_pos_num() > t.get_max_tangential_pos_num())
    return d;
  if (bin.timing_pos_num() < t.get_min_tof_pos_num() || bin.timing_pos_num() > t.get_max_tof_pos_num())
    return d;
  d.valid = true;
  d.key = Key(bin.timing_pos_num(), bin.segment_num(), bin.view_num(), bin.axial_pos_num(), bin.tangential_pos_num());
  return d;
}

static int
increment_of(const Rec& r, bool storeP, bool storeD)
{
  if (r.prompt)
    return storeP ? 1 : 0;
  if (storeP)
    return storeD ? -1 : 0;
  return 1; // delayeds only: added
}

// histogram of the events whose preceding time mark lies in [s,e) (ms); all events if !use_window
static Hist
expected_window(const ProjDataInfo& t, const std::vector<Rec>& recs, bool use_window, long s, long e, bool storeP, bool storeD)
{
  Hist h;
  long cur = 0;
  for (auto& r : recs)
    {
      if (r.is_time)
        {
          cur = static_cast<long>(r.ms);
          continue;
        }
      if (use_window && !(s <= cur && cur < e))
        continue;
      const Decoded d = decode_independent(t, r);
      if (!d.valid)
        continue;
      const int inc = increment_of(r, storeP, storeD);
      if (inc != 0)
        h[d.key] += inc;
    }
  return h;
}

// num_events_to_store = n (> 0), no frames: events are stored until the stored total (prompts - delayeds, or
// the number of stored events when only one kind is stored) reaches n
static Hist
expected_num_events(const ProjDataInfo& t, const std::vector<Rec>& recs, long n, bool storeP, bool storeD)
{
  Hist h;
  long total = 0;
  for (auto& r : recs)
    {
      if (total == n)
        break;
      if (r.is_time)
        continue;
      const Decoded d = decode_independent(t, r);
      if (!d.valid)
        continue;
      const int inc = increment_of(r, storeP, storeD);
      if (inc == 0)
        continue;
      h[d.key] += inc;
      total += inc;
    }
  return h;
}

static bool
same_hist(const Hist& a, const Hist& b)
{
  std::set<Key> keys;
  for (auto& kv : a)
    keys.insert(kv.first);
  for (auto& kv : b)
    keys.insert(kv.first);
  for (auto& k : keys)
    {
      auto ia = a.find(k);
      auto ib = b.find(k);
      const long va = ia == a.end() ? 0 : ia->second;
      const long vb = ib == b.end() ? 0 : ib->second;
      if (va != vb)
        return false;
    }
  return true;
}

static Hist
add_hist(const Hist& a, const Hist& b)
{
  Hist r = a;
  for (auto& kv : b)
    r[kv.first] += kv.second;
  return r;
}

// a frame lies strictly inside a gap between two consecutive time marks (the assumed time 0 at the start counts
// as a mark): the class of input of finding `lm2pd:frame-inside-time-mark-gap`
static bool
frame_in_gap(const std::vector<Rec>& recs, const std::vector<std::pair<long, long>>& frames)
{
  long prev = 0;
  for (auto& r : recs)
    if (r.is_time)
      {
        const long t = static_cast<long>(r.ms);
        for (auto& f : frames)
          if (prev < f.first && f.second <= t)
            return true;
        prev = t;
      }
  return false;
}

// a frame boundary coincides with a time mark (then the boundary must be the same double as the mark's time:
// no frame definition file, whose durations are accumulated in floating point)
static bool
boundary_on_mark(const std::vector<Rec>& recs, const std::vector<std::pair<long, long>>& frames)
{
  for (auto& r : recs)
    if (r.is_time)
      for (auto& f : frames)
        if (static_cast<long>(r.ms) == f.first || static_cast<long>(r.ms) == f.second)
          return true;
  return false;
}

static bool
marks_monotone(const std::vector<Rec>& recs)
{
  long prev = 0;
  for (auto& r : recs)
    if (r.is_time)
      {
        if (static_cast<long>(r.ms) < prev)
          return false;
        prev = static_cast<long>(r.ms);
      }
  return true;
}

// ---------------------------------------------------------------------------------------------
static FILE *g_ops, *g_out, *g_orc;
static long g_checks = 0, g_fails = 0;
static std::map<std::string, long> g_stat;

static void
oracle_fail(const std::string& text)
{
  ++g_fails;
  if (g_fails <= (std::getenv("C14_ALL_FAILS") ? 100000 : 40))
    std::fprintf(g_orc, "ORACLE-FAIL %s\n", text.c_str());
}

static void
known_candidate(const std::string& key, const std::string& text)
{
  static std::set<std::string> done;
  if (done.insert(key).second)
    std::fprintf(g_orc, "KNOWN-CANDIDATE %s %s\n", key.c_str(), text.c_str());
}

static std::string
frames_str(const RunCfg& c)
{
  std::ostringstream s;
  s << c.frames.size();
  for (auto& f : c.frames)
    s << ' ' << f.first << ' ' << f.second;
  return s.str();
}

static std::string
run_line(const RunCfg& c)
{
  std::ostringstream s;
  s << "run " << (c.storeP ? 1 : 0) << ' ' << (c.storeD ? 1 : 0) << ' ' << c.segs << ' ' << c.tofs << ' ' << c.num_events << ' '
    << c.max_seg_proc << ' ' << (c.frames_from_file ? 1 : 0) << ' ' << c.in_memory << ' ' << frames_str(c);
  return s.str();
}

static std::string
stream_line(const ProjDataInfo& tpl, const shared_ptr<ProjDataInfo>& lm_pdi, const std::vector<Rec>& recs, int kind = 0)
{
  // bins as the REAL decoder returns them for the template (LmToProjData::get_bin_from_event == event.get_bin)
  shared_ptr<SynRecordBase> rec_sptr = make_syn_record(kind, lm_pdi);
  SynRecordBase& rec = *rec_sptr;
  std::ostringstream s;
  s << "stream";
  for (auto& r : recs)
    {
      rec.load(r);
      if (rec.is_time())
        {
          // the model's unit is the ListTime unit (ms); get_time_in_secs() is what LmToProjData compares
          s << " T" << rec.time().get_time_in_millisecs();
          continue;
        }
      Bin bin;
      bin.set_bin_value(1.f);
      rec.event().get_bin(bin, tpl);
      s << " E" << (rec.event().is_prompt() ? 'p' : 'd') << ':';
      if (bin.get_bin_value() > 0)
        s << bin.segment_num() << ':' << bin.view_num() << ':' << bin.axial_pos_num() << ':' << bin.tangential_pos_num() << ':'
          << bin.timing_pos_num();
      else
        s << 'x';
    }
  return s.str();
}

// one geometry + stream + frame set: all the runs and the oracle
struct Case
{
  shared_ptr<Scanner> scanner;
  shared_ptr<ProjDataInfo> lm_pdi;
  shared_ptr<ProjDataInfo> tpl;
  std::vector<Rec> recs;
  bool has_delayeds = true;
};

static void
emit(const std::string& op, const std::string& ans)
{
  std::fprintf(g_ops, "%s\n", op.c_str());
  std::fprintf(g_out, "%s\n", ans.c_str());
}

static void
emit_cfg(const ProjDataInfo& t)
{
  std::ostringstream s;
  s << "cfg tpl " << t.get_min_segment_num() << ' ' << t.get_max_segment_num() << ' ' << t.get_min_tof_pos_num() << ' '
    << t.get_max_tof_pos_num() << ' ' << t.get_min_tangential_pos_num() << ' ' << t.get_max_tangential_pos_num();
  for (int seg = t.get_min_segment_num(); seg <= t.get_max_segment_num(); ++seg)
    s << ' ' << t.get_min_axial_pos_num(seg) << ' ' << t.get_max_axial_pos_num(seg);
  emit(s.str(), "ok");
}

// runs `c`, prints op + answer, returns the result; if `oracle` evaluates clause (a)/(d) on it
static RunResult
do_run(const Case& cs, const RunCfg& c, bool oracle, const std::string& what)
{
  shared_ptr<ProjDataInfo> tpl_after;
  RunResult r = run_impl(cs.lm_pdi, cs.tpl, cs.recs, cs.has_delayeds, c, &tpl_after);
  emit(run_line(c), fmt_result(r, c.in_memory));
  g_stat["runs"]++;
  {
    // one output per requested frame (a single one without frame definitions)
    const std::size_t want = std::max<std::size_t>(1, c.frames.size());
    if (!r.err && r.frames.size() != want)
      {
        ++g_checks;
        oracle_fail(what + ": " + std::to_string(r.frames.size()) + " frames written, " + std::to_string(want) + " requested: " + run_line(c));
        r.frames.resize(want);
      }
  }
  if (r.err)
    {
      g_stat["runs_err"]++;
      if (oracle)
        {
          ++g_checks;
          oracle_fail(what + ": valid configuration rejected: " + run_line(c));
        }
      return r;
    }
  if (!oracle)
    return r;
  const ProjDataInfo& t = *tpl_after;
  {
    // "maximum absolute segment number to process": the output has exactly the segments -m..m, m = min(requested, template)
    const int m = c.max_seg_proc == -1 ? cs.tpl->get_max_segment_num() : std::min(c.max_seg_proc, cs.tpl->get_max_segment_num());
    ++g_checks;
    if (t.get_max_segment_num() != m || t.get_min_segment_num() != -m)
      oracle_fail(what + ": segment range after set_up is " + std::to_string(t.get_min_segment_num()) + ".." + std::to_string(t.get_max_segment_num())
                  + ", expected +-" + std::to_string(m) + ": " + run_line(c));
    // … and the histograms cover exactly that range
    for (auto& h : r.frames)
      for (auto& kv : h)
        if (kv.second != 0 && std::abs(std::get<1>(kv.first)) > m)
          oracle_fail(what + ": count in a segment that is not to be processed: " + run_line(c));
  }
  const std::size_t nframes = std::max<std::size_t>(1, c.frames.size());
  for (std::size_t k = 0; k < nframes; ++k)
    {
      if (c.in_memory == 1 && k + 1 < nframes)
        continue;
      Hist exp;
      // a frame definition FILE switches to time frames whatever num_events_to_store says
      if (c.num_events != 0 && !c.frames_from_file)
        exp = expected_num_events(t, cs.recs, c.num_events, c.storeP, c.storeD);
      else if (c.frames.empty())
        exp = expected_window(t, cs.recs, false, 0, 0, c.storeP, c.storeD);
      else
        exp = expected_window(t, cs.recs, true, c.frames[k].first, c.frames[k].second, c.storeP, c.storeD);
      ++g_checks;
      if (!same_hist(exp, r.frames[k]) || !r.integral)
        {
          std::ostringstream s;
          s << what << ": frame " << (k + 1) << " histogram differs from the count over the event list: " << run_line(c)
            << " got {" << fmt_hist(r.frames[k]) << "} expected {" << fmt_hist(exp) << "}";
          if ((c.num_events == 0 || c.frames_from_file) && frame_in_gap(cs.recs, c.frames))
            {
              g_stat["gap_mismatch"]++;
              known_candidate("lm2pd:frame-inside-time-mark-gap",
                              "LmToProjData::process_data: when two consecutive time marks jump over a whole time frame "
                              "(frame [s,e) with mark_i < s and e <= mark_i+1), the events that follow mark_i+1 (time >= e) "
                              "are histogrammed into that frame until the next time mark, because the frame end is only "
                              "tested when a time record is read; e.g. frames [0,1),[1,2),[2,3) s and the stream "
                              "T0.5 ev T2.5 ev T2.7 ev T3.5 put the event after T2.5 into frame [1,2)");
            }
          else
            oracle_fail(s.str());
        }
    }
  return r;
}

// num_events_to_store with frames from set_time_frame_definitions: the result must not depend on the batch sizes either
static void
check_hybrid_batches(const RunResult& a, const RunResult& b, const RunCfg& c)
{
  if (a.err || b.err)
    return;
  ++g_checks;
  bool same = a.frames.size() == b.frames.size();
  for (std::size_t k = 0; same && k < a.frames.size(); ++k)
    same = same_hist(a.frames[k], b.frames[k]);
  if (!same)
    {
      g_stat["hybrid_batch_mismatch"]++;
      known_candidate("lm2pd:num-events-with-frames-depends-on-batches",
                      "LmToProjData::process_data with num_events_to_store != 0 AND several frames set through "
                      "set_time_frame_definitions: every pass after the first of a frame resets current_time to the frame's "
                      "start_time, so when a frame ends by the event count before a new time mark is read, the skip loop of "
                      "the NEXT frame (while current_time < start_time) drops events only when more than one pass was made: "
                      "the histogram depends on num_segments_in_memory / num_TOF_bins_in_memory; e.g. frames [0.1,0.2),[0.3,0.4) s, "
                      "num_events_to_store=1, stream T0.4 e1 e2 e3 T0.5 e4: frame 2 holds e2 with all segments in memory, e4 with one");
    }
}

// =============================================================================================
// FAMILY 2 — the list-mode objective function
//   PoissonLogLikelihoodWithLinearModelForMeanAndListModeDataWithProjMatrixByBin (real class, driven in memory)
//   against (b) the REAL PoissonLogLikelihoodWithLinearModelForMeanAndProjData on the REAL LmToProjData histogram of the
//   same events (the property's last clause, on the implementation), a double-precision textbook evaluation on explicit
//   matrix rows, (c) the Lean model (ops lmcfg/lmimg/lmbin/lmgps), (d) setter histories against fresh objects.
// =============================================================================================
namespace lmo
{
typedef DiscretisedDensity<3, float> TargetT;
typedef PoissonLogLikelihoodWithLinearModelForMeanAndListModeDataWithProjMatrixByBin<TargetT> LMBase;
typedef PoissonLogLikelihoodWithLinearModelForMeanAndProjData<TargetT> PDObj;

// the list-mode objective with the file-reading part of post_processing() switched off, so that the keys that have no
// setter ("time frame number", "num_events_to_use") can be given through the object's own keymap (public parse())
struct LMObj : public LMBase
{
  bool post_processing() override { return false; }
  bool set_keys(int frame_num, long num_events_to_use)
  {
    std::ostringstream par;
    par << "PoissonLogLikelihoodWithLinearModelForMeanAndListModeDataWithProjMatrixByBin Parameters:=\n";
    par << "time frame number := " << frame_num << "\n";
    par << "num_events_to_use := " << num_events_to_use << "\n";
    par << "End PoissonLogLikelihoodWithLinearModelForMeanAndListModeDataWithProjMatrixByBin Parameters:=\n";
    std::istringstream in(par.str());
    return this->parse(in);
  }
};

struct ImgIdx
{
  int z0 = 0, y0 = 0, x0 = 0, nz = 0, ny = 0, nx = 0;
  void init(const TargetT& im)
  {
    BasicCoordinate<3, int> lo, hi;
    im.get_index_range().get_regular_range(lo, hi);
    z0 = lo[1], y0 = lo[2], x0 = lo[3];
    nz = hi[1] - lo[1] + 1, ny = hi[2] - lo[2] + 1, nx = hi[3] - lo[3] + 1;
  }
  int size() const { return nz * ny * nx; }
  int flat(int z, int y, int x) const { return ((z - z0) * ny + (y - y0)) * nx + (x - x0); }
};

struct BinRow
{
  Key key;
  int basic_view = 0;
  float a = 0.F; // additive term of the bin (0 if none)
  float a_last = 0.F; // additive term at the same position in the last TOF bin
  float nrm = 1.F; // normalisation factor of the bin (1 if trivial)
  std::vector<std::pair<int, float>> row;
};

struct Geo
{
  int N = 8, R = 1, max_tof = -1, tof_mash = 0, span = 1, views = 4, ntang = 3, nxy = 5, symflags = 31, maxseg = -1;
  double voxel_factor = 1.;
  bool additive = false, norm = false;
  shared_ptr<Scanner> scanner;
  shared_ptr<ProjDataInfo> pdi;      // geometry of the list-mode data = template of the histogram
  shared_ptr<ProjDataInfo> pdi_proc; // … reduced to the segments that are processed
  shared_ptr<ProjDataInfo> pdi_sens; // geometry of the sensitivity (non-TOF clone of pdi_proc for TOF data)
  shared_ptr<ExamInfo> exam;
  shared_ptr<TargetT> image;
  ImgIdx ix;
  std::vector<float> lam, x;
  shared_ptr<ProjData> add_data, add_data2, norm_data;
  std::vector<BinRow> sens_rows; // all bins of pdi_sens
  std::string str() const
  {
    std::ostringstream s;
    s << "N=" << N << " R=" << R << " tof=" << max_tof << "/" << tof_mash << " span=" << span << " views=" << views << " ntang=" << ntang
      << " nxy=" << nxy << " sym=" << symflags << " maxseg=" << maxseg << " add=" << additive << " norm=" << norm;
    return s.str();
  }
};

static shared_ptr<ProjMatrixByBinUsingRayTracing>
make_pm(int symflags)
{
  shared_ptr<ProjMatrixByBinUsingRayTracing> pm(new ProjMatrixByBinUsingRayTracing);
  pm->set_do_symmetry_90degrees_min_phi(symflags & 1);
  pm->set_do_symmetry_180degrees_min_phi(symflags & 2);
  pm->set_do_symmetry_swap_segment(symflags & 4);
  pm->set_do_symmetry_swap_s(symflags & 8);
  pm->set_do_symmetry_shift_z(symflags & 16);
  return pm;
}

static std::vector<float>
to_vec(const TargetT& im)
{
  return std::vector<float>(im.begin_all_const(), im.end_all_const());
}

static std::string
hexvec(const std::vector<float>& v)
{
  std::string s;
  for (std::size_t i = 0; i < v.size(); ++i)
    {
      if (i)
        s += ' ';
      s += vh::hex(v[i]);
    }
  return s;
}

// explicit row of one bin from a matrix object of the same type and symmetry switches as the objective functions use
static void
fill_row(BinRow& b, ProjMatrixByBin& pm, const ImgIdx& ix)
{
  const Bin bin(std::get<1>(b.key), std::get<2>(b.key), std::get<3>(b.key), std::get<4>(b.key), std::get<0>(b.key), 1.F);
  ProjMatrixElemsForOneBin row;
  pm.get_proj_matrix_elems_for_one_bin(row, bin);
  std::map<int, float> acc;
  for (auto it = row.begin(); it != row.end(); ++it)
    {
      // elements outside the axial range of the image are skipped by ProjMatrixElemsForOneBin::forward/back_project
      if (it->coord1() < ix.z0 || it->coord1() >= ix.z0 + ix.nz)
        continue;
      if (it->coord2() < ix.y0 || it->coord2() >= ix.y0 + ix.ny || it->coord3() < ix.x0 || it->coord3() >= ix.x0 + ix.nx)
        throw std::runtime_error("matrix element outside the image in x/y");
      acc[ix.flat(it->coord1(), it->coord2(), it->coord3())] += it->get_value();
    }
  b.row.assign(acc.begin(), acc.end());
  Bin bb = bin;
  if (!pm.get_symmetries_ptr()->is_basic(bin))
    pm.get_symmetries_ptr()->find_basic_bin(bb);
  b.basic_view = bb.view_num();
}

static shared_ptr<ProjData>
random_projdata(const shared_ptr<const ExamInfo>& exam, const shared_ptr<ProjDataInfo>& pdi, vh::Rng& rng, double lo, double hi)
{
  shared_ptr<ProjData> pd(new ProjDataInMemory(exam, pdi->create_shared_clone()));
  for (int tof = pdi->get_min_tof_pos_num(); tof <= pdi->get_max_tof_pos_num(); ++tof)
    for (int seg = pdi->get_min_segment_num(); seg <= pdi->get_max_segment_num(); ++seg)
      for (int view = pdi->get_min_view_num(); view <= pdi->get_max_view_num(); ++view)
        {
          Viewgram<float> v = pd->get_empty_viewgram(view, seg, false, tof);
          for (int ax = v.get_min_axial_pos_num(); ax <= v.get_max_axial_pos_num(); ++ax)
            for (int t = v.get_min_tangential_pos_num(); t <= v.get_max_tangential_pos_num(); ++t)
              v[ax][t] = static_cast<float>(lo + (hi - lo) * rng.unit());
          pd->set_viewgram(v);
        }
  return pd;
}

static float
projdata_at(const ProjData& pd, int seg, int view, int ax, int tang, int tof)
{
  return pd.get_viewgram(view, seg, false, tof)[ax][tang];
}

static bool
make_geo(Geo& g, vh::Rng& rng)
{
  static const int Ns[] = { 8, 12, 16 };
  g.N = Ns[rng.range(0, 2)];
  g.R = rng.range(1, 3);
  const int tk = rng.range(0, 4);
  // non-TOF (2 in 5), 5 TOF bins, 9 mashed by 3 (3 bins), 7 mashed by 1 (7 bins)
  g.max_tof = tk < 2 ? -1 : (tk == 2 ? 5 : (tk == 3 ? 9 : 7));
  g.tof_mash = tk < 2 ? 0 : (tk == 3 ? 3 : 1);
  g.span = (g.R >= 2 && rng.range(0, 2) == 0) ? 3 : 1;
  g.views = g.N / 2;
  if (g.N == 16 && rng.range(0, 3) == 0)
    g.views = 4; // view mashing
  const int full_tang = g.N / 2 - 1;
  g.ntang = rng.range(0, 2) == 0 ? std::max(3, full_tang - 2) : full_tang;
  g.nxy = rng.coin() ? 5 : 7;
  g.voxel_factor = rng.coin() ? 1. : 0.8;
  g.symflags = rng.range(0, 3) == 0 ? 31 : rng.range(0, 31);
  g.additive = rng.range(0, 2) != 0;
  g.norm = rng.coin();
  g.scanner = vh::make_scanner(g.N, g.R, g.max_tof);
  g.pdi = vh::make_pdi(g.scanner, g.span, g.R - 1, g.views, g.ntang, false, g.tof_mash);
  if (!dynamic_cast<const ProjDataInfoCylindricalNoArcCorr*>(g.pdi.get()))
    return false;
  g.maxseg = rng.range(0, 2) == 0 ? rng.range(0, g.pdi->get_max_segment_num()) : -1;
  g.pdi_proc = g.pdi->create_shared_clone();
  if (g.maxseg >= 0 && g.maxseg < g.pdi->get_max_segment_num())
    g.pdi_proc->reduce_segment_range(-g.maxseg, g.maxseg);
  g.pdi_sens = g.pdi_proc->is_tof_data() ? g.pdi_proc->create_non_tof_clone() : g.pdi_proc->create_shared_clone();
  g.exam.reset(new ExamInfo);
  g.exam->imaging_modality = ImagingModality::PT;
  const float bin_size = g.pdi->get_sampling_in_s(Bin(0, 0, 0, 0));
  const float voxel = static_cast<float>(bin_size * g.ntang / g.nxy * g.voxel_factor);
  shared_ptr<VoxelsOnCartesianGrid<float>> im = vh::make_image(*g.pdi, g.scanner->get_default_bin_size() / voxel, g.nxy, 2 * g.R - 1);
  im->set_exam_info(*g.exam);
  g.image = im;
  g.ix.init(*g.image);
  const int nvox = g.ix.size();
  g.lam.resize(nvox), g.x.resize(nvox);
  for (int i = 0; i < nvox; ++i)
    {
      g.lam[i] = static_cast<float>(0.25 + 2.5 * rng.unit());
      g.x[i] = static_cast<float>(0.1 + 1.5 * rng.unit());
    }
  std::copy(g.lam.begin(), g.lam.end(), g.image->begin_all());
  // additive term: a value per bin INCLUDING the TOF bin; normalisation factors: non-TOF data (valid for TOF emission data as well)
  g.add_data = random_projdata(g.exam, g.pdi, rng, 0.05, 0.85);
  g.add_data2 = random_projdata(g.exam, g.pdi, rng, 0.05, 0.85);
  shared_ptr<ProjDataInfo> nontof = g.pdi->is_tof_data() ? g.pdi->create_non_tof_clone() : g.pdi->create_shared_clone();
  g.norm_data = random_projdata(g.exam, nontof, rng, 0.6, 2.5);
  // rows of the sensitivity geometry
  shared_ptr<ProjMatrixByBinUsingRayTracing> pm = make_pm(g.symflags);
  pm->set_up(g.pdi_sens, g.image);
  const ProjDataInfo& p = *g.pdi_sens;
  for (int seg = p.get_min_segment_num(); seg <= p.get_max_segment_num(); ++seg)
    for (int view = p.get_min_view_num(); view <= p.get_max_view_num(); ++view)
      for (int ax = p.get_min_axial_pos_num(seg); ax <= p.get_max_axial_pos_num(seg); ++ax)
        for (int tang = p.get_min_tangential_pos_num(); tang <= p.get_max_tangential_pos_num(); ++tang)
          {
            BinRow b;
            b.key = Key(0, seg, view, ax, tang);
            fill_row(b, *pm, g.ix);
            b.nrm = g.norm ? projdata_at(*g.norm_data, seg, view, ax, tang, 0) : 1.F;
            g.sens_rows.push_back(b);
          }
  return true;
}

// the generator of family 1 (same distribution of records), as a function
static std::vector<Rec>
gen_stream(vh::Rng& rng, const Geo& g, int kind, int nrec, std::vector<long>& mark_times, long& t_end, bool& any_delayed)
{
  const ProjDataInfoCylindricalNoArcCorr& tpl = dynamic_cast<const ProjDataInfoCylindricalNoArcCorr&>(*g.pdi);
  std::vector<Rec> recs;
  const int N = g.N, R = g.R;
  const int tp_half = g.max_tof > 0 ? g.max_tof / 2 : 0;
  long now = rng.range(0, 3) == 0 ? 0 : rng.range(0, 400);
  any_delayed = false;
  const int p_time = rng.range(8, 30);
  for (int i = 0; i < nrec; ++i)
    {
      Rec r;
      if (rng.range(0, 99) < p_time && !(i == 0 && rng.coin()))
        {
          r.is_time = true;
          r.ms = static_cast<unsigned long>(now);
          mark_times.push_back(now);
          recs.push_back(r);
          long step = rng.range(0, 9) == 0 ? 0 : rng.range(1, 120);
          if (kind == 1 && rng.range(0, 3) == 0)
            step = rng.range(300, 2500);
          now += step;
          continue;
        }
      r.prompt = rng.range(0, 4) != 0;
      any_delayed = any_delayed || !r.prompt;
      if (rng.range(0, 9) < 8)
        {
          r.d1 = rng.range(0, N - 1);
          do
            r.d2 = rng.range(0, N - 1);
          while (r.d2 == r.d1);
          r.r1 = rng.range(0, R - 1);
          r.r2 = rng.range(0, R - 1);
          r.tp = rng.range(-tp_half, tp_half);
        }
      else
        {
          r.raw = true;
          const int seg = rng.range(tpl.get_min_segment_num(), tpl.get_max_segment_num());
          const int out = rng.range(0, 9);
          int ax = rng.range(tpl.get_min_axial_pos_num(seg), tpl.get_max_axial_pos_num(seg));
          int tang = rng.range(tpl.get_min_tangential_pos_num(), tpl.get_max_tangential_pos_num());
          int tof = rng.range(tpl.get_min_tof_pos_num(), tpl.get_max_tof_pos_num());
          const int by = rng.range(1, 2);
          if (out == 0)
            ax = rng.coin() ? tpl.get_min_axial_pos_num(seg) - by : tpl.get_max_axial_pos_num(seg) + by;
          if (out == 1)
            tang = rng.coin() ? tpl.get_min_tangential_pos_num() - by : tpl.get_max_tangential_pos_num() + by;
          if (out == 2)
            tof = rng.coin() ? tpl.get_min_tof_pos_num() - by : tpl.get_max_tof_pos_num() + by;
          r.rawbin = Bin(seg, rng.range(tpl.get_min_view_num(), tpl.get_max_view_num()), ax, tang, tof, out == 4 ? (rng.coin() ? 0.F : -1.F) : 1.F);
        }
      recs.push_back(r);
    }
  t_end = now;
  return recs;
}

struct Sel
{
  bool use_frames = false;
  std::vector<std::pair<long, long>> frames; // ms
  int k = 1;                                 // 1-based frame number
  long num_events = 0;                       // num_events_to_use
  unsigned long cache = 0;                   // max cache size (0: no cache files)
  int nsub = 1;
  std::string str() const
  {
    std::ostringstream s;
    s << "frames=" << frames.size();
    for (auto& f : frames)
      s << ":" << f.first << "-" << f.second;
    s << " k=" << k << " nev=" << num_events << " cache=" << cache << " nsub=" << nsub;
    return s.str();
  }
};

// the events of the requested frame, by the property's own reading: prompt events whose preceding time mark lies in the frame
// and whose bin (data geometry, processed segments) is inside the data; in stream order
static std::vector<Key>
events_of_frame(const Geo& g, const std::vector<Rec>& recs, const Sel& s, bool whole_stream = false)
{
  const ProjDataInfoCylindricalNoArcCorr& t = dynamic_cast<const ProjDataInfoCylindricalNoArcCorr&>(*g.pdi_proc);
  std::vector<Key> ev;
  long cur = 0;
  for (auto& r : recs)
    {
      if (r.is_time)
        {
          cur = static_cast<long>(r.ms);
          continue;
        }
      if (!whole_stream && s.use_frames && s.num_events == 0 && !(s.frames[s.k - 1].first <= cur && cur < s.frames[s.k - 1].second))
        continue;
      if (!whole_stream && s.use_frames && s.num_events != 0 && cur < s.frames[s.k - 1].first)
        continue;
      if (!r.prompt)
        continue;
      const Decoded d = decode_independent(t, r);
      if (!d.valid)
        continue;
      ev.push_back(d.key);
      if (!whole_stream && s.num_events != 0 && static_cast<long>(ev.size()) == s.num_events)
        break;
    }
  return ev;
}

static std::string g_cache_dir;

static void
clean_cache_dir()
{
  DIR* d = ::opendir(g_cache_dir.c_str());
  if (!d)
    return;
  while (dirent* e = ::readdir(d))
    {
      const std::string n = e->d_name;
      if (n != "." && n != "..")
        ::unlink((g_cache_dir + "/" + n).c_str());
    }
  ::closedir(d);
}

static shared_ptr<BinNormalisation>
make_norm(const Geo& g)
{
  if (g.norm)
    return shared_ptr<BinNormalisation>(new BinNormalisationFromProjData(g.norm_data));
  return shared_ptr<BinNormalisation>(new TrivialBinNormalisation);
}

static void
configure_lm(LMObj& obj, const Geo& g, const shared_ptr<SynLM>& lm, const Sel& s, const shared_ptr<ProjData>& add)
{
  obj.set_input_data(lm);
  obj.set_proj_matrix(make_pm(g.symflags));
  if (g.additive)
    obj.set_additive_proj_data_sptr(add);
  obj.set_normalisation_sptr(make_norm(g));
  obj.set_max_segment_num_to_process(g.maxseg);
  obj.set_use_subset_sensitivities(true);
  obj.set_num_subsets(s.nsub);
  if (s.use_frames)
    {
      std::vector<std::pair<double, double>> ft;
      for (auto& fr : s.frames)
        ft.push_back(std::make_pair(fr.first / 1000., fr.second / 1000.));
      obj.frame_defs = TimeFrameDefinitions(ft);
    }
  else
    obj.frame_defs = TimeFrameDefinitions();
  if (!obj.set_keys(s.use_frames ? s.k : 1, s.num_events))
    throw std::runtime_error("parse");
  obj.set_cache_path(g_cache_dir);
  obj.set_cache_max_size(s.cache);
  obj.set_recompute_cache(true);
}

struct Results
{
  bool ok = false;
  std::string err;
  std::vector<std::vector<float>> gps, grad, sens, hess; // per subset
  std::vector<double> value, value2;                     // per subset, at lam and at x
  std::vector<float> full_grad;
};

template <class ObjT>
static void
compute_all(Results& r, ObjT& obj, const Geo& g, int nsub, bool with_value)
{
  shared_ptr<TargetT> xim(g.image->clone());
  std::copy(g.x.begin(), g.x.end(), xim->begin_all());
  for (int s = 0; s < nsub; ++s)
    {
      shared_ptr<TargetT> out(g.image->get_empty_copy());
      obj.compute_sub_gradient_without_penalty_plus_sensitivity(*out, *g.image, s);
      r.gps.push_back(to_vec(*out));
      out->fill(0.F);
      obj.compute_sub_gradient_without_penalty(*out, *g.image, s);
      r.grad.push_back(to_vec(*out));
      r.sens.push_back(to_vec(obj.get_subset_sensitivity(s)));
      out->fill(0.F);
      if (obj.accumulate_sub_Hessian_times_input_without_penalty(*out, *g.image, *xim, s) != Succeeded::yes)
        throw std::runtime_error("hessian");
      r.hess.push_back(to_vec(*out));
      if (with_value)
        {
          r.value.push_back(obj.compute_objective_function_without_penalty(*g.image, s));
          r.value2.push_back(obj.compute_objective_function_without_penalty(*xim, s));
        }
    }
  shared_ptr<TargetT> out(g.image->get_empty_copy());
  obj.compute_gradient_without_penalty(*out, *g.image);
  r.full_grad = to_vec(*out);
  r.ok = true;
}

static Results
run_lm(const Geo& g, const std::vector<Rec>& recs, bool has_delayeds, const Sel& s, bool with_value = true)
{
  Results r;
  try
    {
      shared_ptr<SynLM> lm(new SynLM(g.pdi, recs, has_delayeds));
      LMObj obj;
      configure_lm(obj, g, lm, s, g.add_data);
      if (obj.set_up(g.image) != Succeeded::yes)
        {
          r.err = "set_up";
          clean_cache_dir();
          return r;
        }
      compute_all(r, obj, g, s.nsub, with_value);
    }
  catch (std::exception& e)
    {
      r.ok = false;
      r.err = std::string("exception: ") + e.what();
    }
  catch (...)
    {
      r.ok = false;
      r.err = "exception";
    }
  clean_cache_dir();
  return r;
}

static Results
run_pd(const Geo& g, const shared_ptr<ProjData>& y, const Sel& s)
{
  Results r;
  try
    {
      PDObj obj;
      obj.set_proj_data_sptr(y);
      shared_ptr<ProjectorByBinPair> pair(new ProjectorByBinPairUsingProjMatrixByBin(make_pm(g.symflags)));
      obj.set_projector_pair_sptr(pair);
      if (g.additive)
        obj.set_additive_proj_data_sptr(g.add_data);
      obj.set_normalisation_sptr(make_norm(g));
      obj.set_zero_seg0_end_planes(false);
      obj.set_max_segment_num_to_process(g.maxseg);
      obj.set_use_subset_sensitivities(true);
      obj.set_num_subsets(s.nsub);
      if (obj.set_up(g.image) != Succeeded::yes)
        {
          r.err = "set_up";
          return r;
        }
      compute_all(r, obj, g, s.nsub, true);
    }
  catch (std::exception& e)
    {
      r.ok = false;
      r.err = std::string("exception: ") + e.what();
    }
  catch (...)
    {
      r.ok = false;
      r.err = "exception";
    }
  return r;
}

// textbook evaluation in double precision on explicit rows
struct Text
{
  std::vector<double> gps, hess, sens; // values (all terms have one sign: the value is the sum of the magnitudes)
  std::vector<double> tol_gps, tol_hess, tol_sens;
  double logsum = 0, logsum2 = 0, logmag = 0; // sum over events of log(ybar) at lam and at x; magnitude
  double sens_dot_lam = 0, sens_dot_x = 0, addmag = 0;
  long nevents = 0;
};

static double
dot(const BinRow& b, const std::vector<float>& x)
{
  double s = 0;
  for (auto& e : b.row)
    s += double(e.second) * double(x[e.first]);
  return s;
}

static const double U24 = 1. / 16777216.;

static Text
textbook(const Geo& g, const std::map<Key, BinRow>& rows, const std::vector<Key>& events, int nsub, int subset, bool last_tof_add)
{
  const int nvox = g.ix.size();
  Text t;
  t.gps.assign(nvox, 0.), t.hess.assign(nvox, 0.), t.sens.assign(nvox, 0.);
  std::vector<long> cnt(nvox, 0), scnt(nvox, 0);
  std::size_t L = 0;
  for (auto& k : events)
    {
      const BinRow& b = rows.at(k);
      if (nsub > 1 && b.basic_view % nsub != subset)
        continue;
      ++t.nevents;
      L = std::max(L, b.row.size());
      const double addv = g.additive ? double(last_tof_add ? b.a_last : b.a) : 0.;
      const double ybar = dot(b, g.lam) + addv;
      const double ybar2 = dot(b, g.x) + addv;
      t.addmag += addv;
      const double ax = dot(b, g.x);
      if (!b.row.empty() || g.additive)
        {
          t.logsum += std::log(ybar);
          t.logsum2 += std::log(ybar2);
          t.logmag += 1. + std::fabs(std::log(ybar)) + std::fabs(std::log(ybar2));
        }
      for (auto& e : b.row)
        {
          t.gps[e.first] += double(e.second) / ybar;
          t.hess[e.first] -= double(e.second) * ax / (ybar * ybar);
          cnt[e.first]++;
        }
    }
  std::size_t Ls = 0;
  for (auto& b : g.sens_rows)
    {
      if (nsub > 1 && b.basic_view % nsub != subset)
        continue;
      Ls = std::max(Ls, b.row.size());
      for (auto& e : b.row)
        {
          t.sens[e.first] += double(e.second) / double(b.nrm);
          scnt[e.first]++;
        }
    }
  t.tol_gps.resize(nvox), t.tol_hess.resize(nvox), t.tol_sens.resize(nvox);
  for (int v = 0; v < nvox; ++v)
    {
      t.tol_gps[v] = 4. * double(L + cnt[v] + 10) * U24 * t.gps[v] + 1e-30;
      t.tol_hess[v] = 4. * double(3 * L + cnt[v] + 10) * U24 * std::fabs(t.hess[v]) + 1e-30;
      t.tol_sens[v] = 4. * double(Ls + scnt[v] + 10) * U24 * t.sens[v] + 1e-30;
      t.sens_dot_lam += t.sens[v] * g.lam[v];
      t.sens_dot_x += t.sens[v] * g.x[v];
    }
  return t;
}

static int
first_bad(const std::vector<float>& a, const std::vector<double>& b, const std::vector<double>& tol, double factor)
{
  if (a.size() != b.size())
    return 0;
  for (std::size_t i = 0; i < a.size(); ++i)
    if (!(std::fabs(double(a[i]) - b[i]) <= factor * tol[i]))
      return static_cast<int>(i);
  return -1;
}

static int
first_bad(const std::vector<float>& a, const std::vector<float>& b, const std::vector<double>& tol, double factor)
{
  return first_bad(a, std::vector<double>(b.begin(), b.end()), tol, factor);
}

static std::string
at(const char* what, int v, double a, double b)
{
  std::ostringstream s;
  s << what << " differ at voxel " << v << ": " << vh::hex(a) << " (" << a << ") vs " << vh::hex(b) << " (" << b << ")";
  return s.str();
}

static bool
bitwise_equal(const Results& a, const Results& b)
{
  return a.gps == b.gps && a.grad == b.grad && a.sens == b.sens && a.hess == b.hess && a.full_grad == b.full_grad;
}

static std::string
lmcfg_line(const Geo& g, const Sel& s)
{
  const bool frames = s.use_frames;
  const long fs = frames ? s.frames[s.k - 1].first : 0, fe = frames ? s.frames[s.k - 1].second : 0;
  // do_time_frame as set_up_before_sensitivity computes it
  const bool dtf = frames && s.num_events == 0 && fs < fe;
  std::ostringstream o;
  o << "lmcfg nvox=" << g.ix.size() << " dtf=" << (dtf ? 1 : 0) << " s=" << fs << " e=" << fe << " nev=" << s.num_events << " cache="
    << (s.cache == 0 ? 1000000UL : s.cache) << " nsub=" << s.nsub << " add=" << (g.additive ? 1 : 0);
  return o.str();
}

static void
run_family(vh::Rng& rng, bool thorough)
{
  g_cache_dir = g_tmpdir + "/lmcache";
  ::mkdir(g_cache_dir.c_str(), 0777);
  const int ncases = thorough ? 1500 : 160;
  for (int ci = 0; ci < ncases; ++ci)
    {
      Geo g;
      bool built = false;
      try
        {
          built = make_geo(g, rng);
        }
      catch (...)
        {}
      if (!built)
        {
          g_stat["lmo_geometry_rejected"]++;
          continue;
        }
      g_stat["lmo_cases"]++;
      g_stat[g.pdi->is_tof_data() ? "lmo_tof" : "lmo_nontof"]++;
      if (g.additive)
        g_stat["lmo_additive"]++;
      if (g.norm)
        g_stat["lmo_norm_from_projdata"]++;
      if (g.maxseg >= 0)
        g_stat["lmo_max_segment"]++;

      // ---- streams (monotone marks; every fifth with gaps between the marks)
      std::vector<long> marks, marks2;
      long t_end = 0, t_end2 = 0;
      bool anyd = false, anyd2 = false;
      const std::vector<Rec> recs = gen_stream(rng, g, ci % 5 == 3 ? 1 : 0, rng.range(60, thorough ? 500 : 400), marks, t_end, anyd);
      const std::vector<Rec> recs2 = gen_stream(rng, g, 0, rng.range(30, 120), marks2, t_end2, anyd2);

      // ---- what to compute: frames, cache size, subsets
      Sel s;
      {
        std::vector<int> divs;
        for (int d = 1; d <= g.views; ++d)
          if (g.views % d == 0)
            divs.push_back(d);
        s.nsub = rng.range(0, 2) == 0 ? 1 : divs[rng.range(0, static_cast<int>(divs.size()) - 1)];
        const int fk = rng.range(0, 9);
        if (fk >= 3)
          {
            s.use_frames = true;
            std::set<long> bs;
            const int nb = rng.range(2, 4);
            for (int k = 0; k < nb + 3 && static_cast<int>(bs.size()) < nb; ++k)
              {
                long b = (!marks.empty() && rng.range(0, 3) != 0) ? marks[rng.range(0, static_cast<int>(marks.size()) - 1)]
                                                                   : rng.range(0, static_cast<int>(t_end + 200));
                if (b <= 10)
                  b = rng.coin() ? 0 : 11 + rng.range(0, 50);
                bs.insert(b);
              }
            std::vector<long> b(bs.begin(), bs.end());
            if (b.size() < 2)
              b.push_back(b.back() + 50);
            for (std::size_t k = 0; k + 1 < b.size(); ++k)
              if (b[k + 1] > 10)
                s.frames.push_back(std::make_pair(b[k], b[k + 1]));
            if (s.frames.empty())
              s.frames.push_back(std::make_pair(b[0], std::max<long>(b[1], 11)));
            s.k = rng.range(1, static_cast<int>(s.frames.size()));
            if (rng.range(0, 2) != 0)
              {
                // mostly the frame with most events
                std::size_t best = 0;
                for (int k = 1; k <= static_cast<int>(s.frames.size()); ++k)
                  {
                    Sel sk = s;
                    sk.k = k;
                    const std::size_t n = events_of_frame(g, recs, sk).size();
                    if (n > best)
                      best = n, s.k = k;
                  }
              }
          }
      }
      const std::vector<Key> all_events = events_of_frame(g, recs, s, true);
      if (!s.use_frames && !all_events.empty() && rng.range(0, 1) == 0)
        s.num_events = rng.range(1, static_cast<int>(all_events.size()) + 2); // num_events_to_use (whole stream: no frame definitions)
      std::vector<Key> events = events_of_frame(g, recs, s);
      {
        const long ne = static_cast<long>(events.size());
        const int ck = rng.range(0, 9);
        // 0: no cache files (one batch of 10^6); else cache files with batches of the given number of events
        static const unsigned long small[] = { 1, 2, 3, 5, 7 };
        s.cache = ck < 3 ? 0UL : (ck < 6 ? small[rng.range(0, 4)] : (ck == 6 ? std::max<long>(1, ne / 2) : (ck == 7 ? std::max<long>(1, ne) : (ck == 8 ? ne + 1 : 1000))));
      }
      g_stat[s.cache == 0 ? "lmo_no_cache" : (s.cache < events.size() ? "lmo_cache_several_batches" : "lmo_cache_one_batch")]++;
      if (s.cache != 0 && !events.empty() && events.size() % s.cache == 0)
        g_stat["lmo_cache_exact_multiple"]++;
      g_stat[s.use_frames ? "lmo_with_frames" : "lmo_whole_stream"]++;
      g_stat[s.nsub > 1 ? "lmo_several_subsets" : "lmo_one_subset"]++;
      if (s.num_events > 0)
        g_stat["lmo_num_events_to_use"]++;
      g_stat["lmo_events"] += static_cast<long>(events.size());
      const std::string ctx = g.str() + " " + s.str() + " case=" + std::to_string(ci);

      // ---- explicit rows of the bins of all accepted prompt events of the stream
      std::map<Key, BinRow> rows;
      {
        shared_ptr<ProjMatrixByBinUsingRayTracing> pm = make_pm(g.symflags);
        pm->set_up(g.pdi_proc, g.image);
        for (auto& k : all_events)
          if (!rows.count(k))
            {
              BinRow b;
              b.key = k;
              fill_row(b, *pm, g.ix);
              b.a = g.additive ? projdata_at(*g.add_data, std::get<1>(k), std::get<2>(k), std::get<3>(k), std::get<4>(k), std::get<0>(k)) : 0.F;
              b.a_last = g.additive ? projdata_at(*g.add_data, std::get<1>(k), std::get<2>(k), std::get<3>(k), std::get<4>(k), g.pdi->get_max_tof_pos_num()) : 0.F;
              rows[k] = b;
            }
      }

      // ---- (a) the real list-mode objective
      const Results lm = run_lm(g, recs, anyd, s);
      // ---- (b) real histogram (prompts only, same frame) + real projection-data objective
      Hist hist_expected;
      for (auto& k : events)
        hist_expected[k] += 1;
      shared_ptr<ProjData> y;
      bool hist_ok = false;
      {
        RunCfg c;
        c.storeP = true, c.storeD = false;
        c.in_memory = 1;
        if (s.use_frames)
          c.frames.push_back(s.frames[s.k - 1]);
        c.num_events = s.num_events;
        c.max_seg_proc = g.maxseg;
        c.segs = rng.range(0, 1) ? -1 : 1;
        const RunResult rr = run_impl(g.pdi, g.pdi, recs, anyd, c, nullptr, &y);
        ++g_checks;
        if (rr.err || !y)
          oracle_fail("lm-objective: LmToProjData rejected the configuration " + ctx);
        else if (!same_hist(rr.frames.back(), hist_expected) || !rr.integral)
          {
            if (s.use_frames && frame_in_gap(recs, c.frames))
              {
                g_stat["lmo_gap_mismatch"]++;
                known_candidate("lm2pd:frame-inside-time-mark-gap",
                                "LmToProjData::process_data: when two consecutive time marks jump over a whole time frame the events "
                                "that follow the later mark are histogrammed into that frame (seen while histogramming for the list-mode objective)");
              }
            else
              oracle_fail("lm-objective: LmToProjData histogram differs from the count over the event list: " + ctx);
          }
        else
          hist_ok = true;
      }
      // the histogram was made with 'maximum absolute segment number to process': give the objective the full geometry
      shared_ptr<ProjData> yfull;
      if (hist_ok)
        {
          yfull.reset(new ProjDataInMemory(g.exam, g.pdi->create_shared_clone()));
          yfull->fill(0.F);
          for (int tof = y->get_min_tof_pos_num(); tof <= y->get_max_tof_pos_num(); ++tof)
            for (int seg = y->get_min_segment_num(); seg <= y->get_max_segment_num(); ++seg)
              {
                SegmentByView<float> sv = yfull->get_empty_segment_by_view(seg, false, tof);
                const SegmentByView<float> src = y->get_segment_by_view(seg, tof);
                std::copy(src.begin_all(), src.end_all(), sv.begin_all());
                yfull->set_segment(sv);
              }
        }
      Results pd;
      if (hist_ok)
        pd = run_pd(g, yfull, s);

      if (!lm.ok || (hist_ok && !pd.ok))
        {
          if (!lm.ok && hist_ok && !pd.ok && lm.err == "set_up" && pd.err == "set_up")
            {
              g_stat["lmo_both_refuse_set_up"]++; // unbalanced subsets for the symmetries of the matrix
              continue;
            }
          ++g_checks;
          if (!lm.ok && hist_ok && pd.ok && lm.err == "set_up" && s.nsub > 1)
            {
              g_stat["lmo_lm_refuses_subsets"]++;
              continue;
            }
          if (lm.ok && !pd.ok && pd.err == "set_up" && s.nsub > 1)
            {
              g_stat["lmo_pd_refuses_subsets"]++;
            }
          else
            {
              oracle_fail("lm-objective: " + std::string(!lm.ok ? "list-mode objective failed (" + lm.err + ")" : "projection-data objective failed (" + pd.err + ")")
                          + ": " + ctx);
              continue;
            }
        }
      g_stat["lmo_computed"]++;

      // ---- textbook values per subset; classification of the outcome of the event sums
      std::vector<Text> T, Tlast, Tall, Tall_last;
      for (int sub = 0; sub < s.nsub; ++sub)
        {
          T.push_back(textbook(g, rows, events, s.nsub, sub, false));
          Tlast.push_back(textbook(g, rows, events, s.nsub, sub, true));
          Tall.push_back(textbook(g, rows, all_events, s.nsub, sub, false));
          Tall_last.push_back(textbook(g, rows, all_events, s.nsub, sub, true));
        }
      auto all_subsets_ok = [&](const std::vector<Text>& tt) {
        for (int sub = 0; sub < s.nsub; ++sub)
          if (first_bad(lm.gps[sub], tt[sub].gps, tt[sub].tol_gps, 1.) >= 0 || first_bad(lm.hess[sub], tt[sub].hess, tt[sub].tol_hess, 1.) >= 0)
            return false;
        return true;
      };
      // 0: as the property says; 1..3: a known class of defect (stable key), event sums compared with what that defect gives
      // (4: defects 2 and 3 together)
      int mode = 0;
      if (!all_subsets_ok(T))
        {
          bool zero = true, expect_nonzero = false;
          for (int sub = 0; sub < s.nsub; ++sub)
            {
              for (float v : lm.gps[sub])
                zero = zero && v == 0.F;
              for (float v : lm.hess[sub])
                zero = zero && v == 0.F;
              for (double v : T[sub].gps)
                expect_nonzero = expect_nonzero || v != 0.;
            }
          if (zero && expect_nonzero)
            mode = 1;
          else if (g.additive && g.pdi->is_tof_data() && all_subsets_ok(Tlast))
            mode = 2;
          else if (s.num_events > 0 && s.cache != 0 && static_cast<long>(s.cache) < s.num_events && all_subsets_ok(Tall))
            mode = 3;
          else if (g.additive && g.pdi->is_tof_data() && s.num_events > 0 && s.cache != 0 && static_cast<long>(s.cache) < s.num_events
                   && all_subsets_ok(Tall_last))
            mode = 4;
        }
      if (mode == 1)
        {
          g_stat["lmo_known_event_sums_zero"]++;
          known_candidate("lmobj:build-without-openmp:event-sums-never-added-to-the-output",
                          "LM_distributable_computation (distributable.txx) accumulates the contributions of the events in local_output_image_sptrs[thread] and adds "
                          "those to the output image only inside #ifdef STIR_OPENMP: in a build without OpenMP (the baseline build) compute_sub_gradient_without_penalty_plus_sensitivity "
                          "of the list-mode objective returns 0 for every image, compute_sub_gradient_without_penalty returns minus the subset sensitivity and "
                          "accumulate_sub_Hessian_times_input_without_penalty adds nothing, whatever the events are; e.g. " + ctx);
        }
      if (mode == 2 || mode == 4)
        {
          g_stat["lmo_known_tof_additive_last_bin"]++;
          known_candidate("lmobj:tof-data:additive-term-of-the-last-tof-bin-used-for-every-event",
                          "read_listmode_batch caches the additive term of an event in a loop over (segment, timing_pos) that tests only the segment of the event: every "
                          "event gets the value of the additive sinogram at its (segment, view, axial, tangential) position in the LAST TOF bin, not in its own; the "
                          "list-mode gradient then differs from the projection-data gradient of the histogrammed data whenever the additive term depends on the TOF bin; e.g. "
                              + ctx);
        }
      if (mode == 3 || mode == 4)
        {
          g_stat["lmo_known_num_events_per_batch"]++;
          known_candidate("lmobj:num_events_to_use-is-counted-per-batch",
                          "read_listmode_batch counts num_events_to_use with a counter that restarts in every batch: with max cache size < num_events_to_use (or without "
                          "cache files and num_events_to_use > 1000000) no batch ever reaches the count and ALL events of the stream are used; e.g. " + ctx);
        }
      const std::vector<Text>& TX = mode == 2 ? Tlast : (mode == 3 ? Tall : (mode == 4 ? Tall_last : T));

      // ---- (c) ops for the Lean model: the list-mode gradient (plus sensitivity) per subset
      emit_cfg(*g.pdi_proc);
      emit(stream_line(*g.pdi_proc, g.pdi, recs), "ok " + std::to_string(recs.size()));
      emit(lmcfg_line(g, s), "ok");
      emit("lmimg " + hexvec(g.lam), "ok");
      for (auto& kv : rows)
        {
          const BinRow& b = kv.second;
          std::ostringstream o;
          o << "lmbin " << std::get<1>(b.key) << ' ' << std::get<2>(b.key) << ' ' << std::get<3>(b.key) << ' ' << std::get<4>(b.key) << ' '
            << std::get<0>(b.key) << ' ' << b.basic_view << ' ' << (g.additive ? vh::hex(b.a) : std::string("-")) << ' ' << b.row.size();
          for (auto& e : b.row)
            o << ' ' << e.first << ' ' << vh::hex(e.second);
          emit(o.str(), "ok");
        }
      // (in modes 1..3 the implementation is known not to compute the sum over the events that the model describes:
      //  reported above with a stable key, not compared)
      if (mode == 0)
        {
          for (int sub = 0; sub < s.nsub; ++sub)
            emit("lmgps " + std::to_string(sub), hexvec(lm.gps[sub]));
          g_stat["lmo_model_gradients"] += s.nsub;
        }
      else
        g_stat["lmo_model_gradients_skipped_known_defect"] += s.nsub;

      // ---- oracle
      const bool tof = g.pdi->is_tof_data();
      const bool sums_ok = mode != 1;              // the event sums can be compared with a textbook value
      const bool pd_sums_ok = mode == 0 && hist_ok && pd.ok; // … and with the projection-data objective
      std::vector<double> sum_grad(g.ix.size(), 0.), sum_tol(g.ix.size(), 0.);
      for (int sub = 0; sub < s.nsub; ++sub)
        {
          const Text& t = TX[sub];
          const std::string c2 = ctx + " subset=" + std::to_string(sub) + " events=" + std::to_string(t.nevents);
          int bad;
          // list-mode objective against the textbook expressions on the event list
          if (sums_ok)
            {
              ++g_checks;
              if ((bad = first_bad(lm.gps[sub], t.gps, t.tol_gps, 1.)) >= 0)
                oracle_fail("lm-objective: gradient plus sensitivity != sum over the events of the frame of row/(row.image + additive): "
                            + at("list-mode objective and event list", bad, lm.gps[sub][bad], t.gps[bad]) + " " + c2);
              ++g_checks;
              if ((bad = first_bad(lm.hess[sub], t.hess, t.tol_hess, 1.)) >= 0)
                oracle_fail("lm-objective: Hessian times input != -sum over events of row (row.input)/(row.image+additive)^2: "
                            + at("list-mode objective and event list", bad, lm.hess[sub][bad], t.hess[bad]) + " " + c2);
            }
          ++g_checks;
          if ((bad = first_bad(lm.sens[sub], t.sens, t.tol_sens, 1.)) >= 0)
            oracle_fail("lm-objective: subset sensitivity != back projection of 1/normalisation: " + at("list-mode objective and textbook", bad, lm.sens[sub][bad], t.sens[bad]) + " "
                        + c2);
          // both classes use the non-TOF back projection of 1/normalisation as subset sensitivity (use_tofsens off)
          if (hist_ok && pd.ok)
            {
              ++g_checks;
              if ((bad = first_bad(lm.sens[sub], pd.sens[sub], t.tol_sens, 2.)) >= 0)
                oracle_fail("lm-objective: list-mode subset sensitivity != projection-data subset sensitivity: "
                            + at("list-mode and projection-data objective", bad, lm.sens[sub][bad], pd.sens[sub][bad]) + " " + c2);
              g_stat["lmo_pd_comparisons"]++;
            }
          {
            // gradient = (gradient plus sensitivity) - sensitivity
            std::vector<double> expect(g.ix.size()), tol(g.ix.size());
            for (int v = 0; v < g.ix.size(); ++v)
              {
                const double ev = sums_ok ? t.gps[v] : 0.;
                expect[v] = ev - t.sens[v];
                tol[v] = t.tol_gps[v] + t.tol_sens[v] + 2 * U24 * (ev + t.sens[v]);
                sum_grad[v] += expect[v];
                sum_tol[v] += tol[v] + 4 * U24 * (ev + t.sens[v]);
              }
            ++g_checks;
            if ((bad = first_bad(lm.grad[sub], expect, tol, 1.)) >= 0)
              oracle_fail("lm-objective: sub-gradient != sum over events - subset sensitivity: " + at("list-mode objective and textbook", bad, lm.grad[sub][bad], expect[bad])
                          + " " + c2);
            // the property's clause: list-mode gradient == projection-data gradient of the histogrammed data, per subset
            // (both classes assign a bin to the subset of the view of its basic bin under the symmetries of the matrix)
            if (pd_sums_ok)
              {
                ++g_checks;
                if ((bad = first_bad(lm.gps[sub], pd.gps[sub], t.tol_gps, 2.)) >= 0)
                  oracle_fail("lm-objective: list-mode gradient plus sensitivity != projection-data one of the histogrammed data: "
                              + at("list-mode and projection-data objective", bad, lm.gps[sub][bad], pd.gps[sub][bad]) + " " + c2);
                ++g_checks;
                if ((bad = first_bad(lm.hess[sub], pd.hess[sub], t.tol_hess, 2.)) >= 0)
                  oracle_fail("lm-objective: list-mode Hessian times input != projection-data one of the histogrammed data: "
                              + at("list-mode and projection-data objective", bad, lm.hess[sub][bad], pd.hess[sub][bad]) + " " + c2);
                g_stat["lmo_pd_comparisons"] += 2;
                // with the sensitivity term: for non-TOF data only.  For TOF data compute_sub_gradient_without_penalty of the projection-data
                // class back projects (y/ybar - 1)/norm TOF bin by TOF bin, i.e. its sensitivity term is the sum over the TOF bins of the TOF
                // back projections, while the list-mode class (and get_subset_sensitivity of both) uses the non-TOF back projection; the two
                // agree only as far as the TOF bins cover the whole TOF kernel (they do not in the generated scanners)
                if (!tof)
                  {
                    ++g_checks;
                    if ((bad = first_bad(lm.grad[sub], pd.grad[sub], tol, 2.)) >= 0)
                      oracle_fail("lm-objective: list-mode sub-gradient != projection-data sub-gradient of the histogrammed data: "
                                  + at("list-mode and projection-data objective", bad, lm.grad[sub][bad], pd.grad[sub][bad]) + " " + c2);
                    g_stat["lmo_pd_comparisons"]++;
                  }
              }
          }
          // value: differences between two images (constants independent of the image drop out)
          if (!lm.value.empty())
            {
              const double tolv = 8. * 40. * U24 * (t.logmag + std::fabs(t.sens_dot_lam) + std::fabs(t.sens_dot_x) + 2. * t.addmag) + 1e-12;
              const double d_text = (t.logsum - t.sens_dot_lam) - (t.logsum2 - t.sens_dot_x);
              const double d_lm = lm.value[sub] - lm.value2[sub];
              ++g_checks;
              if (!(std::fabs(d_lm - d_text) <= tolv))
                {
                  g_stat["lmo_value_mismatch"]++;
                  std::ostringstream o;
                  o << "list-mode objective: compute_objective_function_without_penalty is not the function whose gradient compute_sub_gradient_without_penalty "
                       "returns: value(image1) - value(image2) = "
                    << d_lm << " but [sum over events of log(row.image+additive) - sensitivity.image] changes by " << d_text
                    << " (the sum of the logs alone by " << (t.logsum - t.logsum2) << ", sensitivity.image alone by " << (t.sens_dot_lam - t.sens_dot_x) << ") " << c2;
                  known_candidate("lmobj:value-is-not-the-log-likelihood", o.str());
                }
              if (hist_ok && pd.ok && !tof && mode == 0)
                {
                  const double d_pd = pd.value[sub] - pd.value2[sub];
                  ++g_checks;
                  if (!(std::fabs(d_pd - d_text) <= tolv))
                    oracle_fail("lm-objective: projection-data value difference differs from the textbook one: " + vh::hex(d_pd) + " vs " + vh::hex(d_text) + " " + c2);
                }
            }
        }
      {
        // compute_gradient_without_penalty = sum over the subsets
        ++g_checks;
        const int bad = first_bad(lm.full_grad, sum_grad, sum_tol, 1.);
        if (bad >= 0)
          oracle_fail("lm-objective: compute_gradient_without_penalty != sum over subsets: " + at("full gradient and textbook", bad, lm.full_grad[bad], sum_grad[bad]) + " " + ctx);
        if (pd_sums_ok && !tof)
          {
            ++g_checks;
            const int bad2 = first_bad(lm.full_grad, pd.full_grad, sum_tol, 2.);
            if (bad2 >= 0)
              oracle_fail("lm-objective: list-mode gradient != projection-data gradient of the histogrammed data: "
                          + at("list-mode and projection-data objective", bad2, lm.full_grad[bad2], pd.full_grad[bad2]) + " " + ctx);
          }
      }

      // ---- cache size independence: another cache size gives bitwise the same per-event sums only if the batches are
      // accumulated in the same order — they are (stream order), but the partial sums are formed per batch: tolerance
      if (s.num_events == 0)
        {
        Sel s2 = s;
        s2.cache = s.cache == 0 ? static_cast<unsigned long>(rng.range(1, 9)) : 0UL;
        const Results lm2 = run_lm(g, recs, anyd, s2, false);
        ++g_checks;
        if (!lm2.ok)
          oracle_fail("lm-objective: failed with another cache size (" + lm2.err + "): " + ctx + " other cache=" + std::to_string(s2.cache));
        else
          for (int sub = 0; sub < s.nsub; ++sub)
            {
              const Text& t = TX[sub];
              const int bad = first_bad(lm2.gps[sub], lm.gps[sub], t.tol_gps, 2.);
              if (bad >= 0)
                oracle_fail("lm-objective: result depends on the cache size: " + at("gradient plus sensitivity", bad, lm2.gps[sub][bad], lm.gps[sub][bad]) + " " + ctx
                            + " other cache=" + std::to_string(s2.cache));
            }
        g_stat["lmo_cache_size_pairs"]++;
      }

      // ---- cache files of an earlier object are used again: a second object with recompute_cache = false on the same cache
      // path, given ANOTHER stream and no frame definitions / num_events_to_use (all ignored: the events are those of the cache
      // files), must give the results of the object that wrote the files — bitwise, both read their events from the same files;
      // in a quarter of the cases the second object uses use_subset_sensitivities = false (subset sensitivity = total / number of
      // subsets; refused by set_up for unbalanced subsets)
      if (s.cache != 0 && lm.ok)
        {
          Results second;
          std::string herr;
          const bool subsens = ci % 4 != 1;
          try
            {
              shared_ptr<SynLM> lm1(new SynLM(g.pdi, recs, anyd));
              LMObj obj1;
              configure_lm(obj1, g, lm1, s, g.add_data);
              if (obj1.set_up(g.image) != Succeeded::yes)
                herr = "set_up of the object that writes the cache files failed";
              else
                {
                  shared_ptr<SynLM> lmB(new SynLM(g.pdi, recs2, anyd2));
                  LMObj obj2;
                  Sel sB = s;
                  sB.use_frames = false;
                  sB.frames.clear();
                  sB.k = 1;
                  sB.num_events = 0;
                  configure_lm(obj2, g, lmB, sB, g.add_data);
                  obj2.set_recompute_cache(false);
                  obj2.set_use_subset_sensitivities(subsens);
                  bool set_up_ok = false;
                  try
                    {
                      set_up_ok = obj2.set_up(g.image) == Succeeded::yes;
                    }
                  catch (...)
                    {
                      if (subsens)
                        throw;
                    }
                  if (!set_up_ok)
                    herr = subsens ? "set_up with recompute_cache = false failed" : "skip"; // (unbalanced subsets need subset sensitivities)
                  else if (subsens || s.nsub == 1)
                    compute_all(second, obj2, g, s.nsub, false);
                  else
                    {
                      // without subset sensitivities the class computes the gradient plus sensitivity only and refuses the rest
                      for (int sub = 0; sub < s.nsub; ++sub)
                        {
                          shared_ptr<TargetT> out(g.image->get_empty_copy());
                          obj2.compute_sub_gradient_without_penalty_plus_sensitivity(*out, *g.image, sub);
                          second.gps.push_back(to_vec(*out));
                          second.sens.push_back(to_vec(obj2.get_subset_sensitivity(sub)));
                          shared_ptr<TargetT> xim(g.image->clone());
                          std::copy(g.x.begin(), g.x.end(), xim->begin_all());
                          out->fill(0.F);
                          if (obj2.accumulate_sub_Hessian_times_input_without_penalty(*out, *g.image, *xim, sub) != Succeeded::yes)
                            throw std::runtime_error("hessian");
                          second.hess.push_back(to_vec(*out));
                        }
                      bool refused = false;
                      try
                        {
                          shared_ptr<TargetT> out(g.image->get_empty_copy());
                          obj2.compute_sub_gradient_without_penalty(*out, *g.image, 0);
                        }
                      catch (...)
                        {
                          refused = true;
                        }
                      if (!refused)
                        herr = "compute_sub_gradient_without_penalty did not refuse use_subset_sensitivities = false with several subsets";
                      second.ok = true;
                    }
                }
            }
          catch (std::exception& e)
            {
              herr = std::string("exception: ") + e.what();
            }
          catch (...)
            {
              herr = "exception";
            }
          clean_cache_dir();
          if (herr == "skip")
            g_stat["lmo_cache_reuse_total_sensitivity_refused_unbalanced"]++;
          else
            {
              ++g_checks;
              g_stat[subsens ? "lmo_cache_reuse" : "lmo_cache_reuse_with_total_sensitivity"]++;
              if (!herr.empty())
                oracle_fail("lm-objective, re-use of cache files: " + herr + " " + ctx);
              else if (second.gps != lm.gps || second.hess != lm.hess)
                oracle_fail("lm-objective, re-use of cache files (recompute_cache = false, other input stream): event sums differ from those of the object "
                            "that wrote the files " + ctx);
              else if (subsens || s.nsub == 1)
                {
                  if (!bitwise_equal(second, lm))
                    oracle_fail("lm-objective, re-use of cache files (recompute_cache = false): results differ from those of the object that wrote the files "
                                + ctx);
                }
              else
                {
                  // subset sensitivity = total sensitivity / number of subsets; sub-gradient = event sum - that
                  std::vector<double> total(g.ix.size(), 0.), ttol(g.ix.size(), 0.);
                  for (int sub = 0; sub < s.nsub; ++sub)
                    for (int v = 0; v < g.ix.size(); ++v)
                      {
                        total[v] += TX[sub].sens[v];
                        ttol[v] += TX[sub].tol_sens[v] + 4 * U24 * TX[sub].sens[v];
                      }
                  for (int sub = 0; sub < s.nsub; ++sub)
                    {
                      std::vector<double> es(g.ix.size()), et(g.ix.size()), eg(g.ix.size()), gt(g.ix.size());
                      for (int v = 0; v < g.ix.size(); ++v)
                        {
                          es[v] = total[v] / s.nsub;
                          et[v] = ttol[v] / s.nsub + 4 * U24 * es[v];
                          const double ev = mode != 1 ? TX[sub].gps[v] : 0.;
                          eg[v] = ev - es[v];
                          gt[v] = TX[sub].tol_gps[v] + et[v] + 2 * U24 * (ev + es[v]);
                        }
                      int bad;
                      ++g_checks;
                      if ((bad = first_bad(second.sens[sub], es, et, 1.)) >= 0)
                        {
                          // the known defect: only the last subset's back projection survives
                          std::vector<double> last(g.ix.size()), lt(g.ix.size());
                          for (int v = 0; v < g.ix.size(); ++v)
                            {
                              last[v] = TX[s.nsub - 1].sens[v] / s.nsub;
                              lt[v] = TX[s.nsub - 1].tol_sens[v] / s.nsub + 4 * U24 * last[v];
                            }
                          if (first_bad(second.sens[sub], last, lt, 1.) < 0)
                            {
                              g_stat["lmo_known_total_sensitivity_is_last_subset"]++;
                              known_candidate("lmobj:use_subset_sensitivities-false:sensitivity-is-that-of-the-last-subset-only",
                                              "PoissonLogLikelihoodWithLinearModelForMeanAndListModeDataWithProjMatrixByBin::add_subset_sensitivity OVERWRITES its "
                                              "argument (BackProjectorByBin::get_output copies) instead of adding to it, while "
                                              "PoissonLogLikelihoodWithLinearModelForMean::compute_sensitivities with use_subset_sensitivities = false lets all subsets "
                                              "accumulate into one image: with several subsets the 'total' sensitivity is the back projection of the LAST subset only "
                                              "and every subset sensitivity is that divided by the number of subsets (the projection-data class adds); "
                                              + at("e.g. subset sensitivity and total/number of subsets", bad, second.sens[sub][bad], es[bad]) + " " + ctx);
                            }
                          else
                            oracle_fail("lm-objective, use_subset_sensitivities = false: subset sensitivity != total sensitivity / number of subsets: "
                                        + at("list-mode objective and textbook", bad, second.sens[sub][bad], es[bad]) + " " + ctx);
                        }
                    }
                }
            }
        }

      // ---- (d) histories: change something on a set-up object, set_up again: must equal a fresh object (bitwise)
      if (ci % 2 == 0)
        {
          const int what = rng.range(0, 5);
          Sel s1 = s, s2 = s;
          const std::vector<Rec>*r1 = &recs, *r2 = &recs;
          bool add_changed = false;
          std::string hname;
          switch (what)
            {
            case 0: // another stream
              r1 = &recs2;
              s1.use_frames = false;
              s1.frames.clear();
              s1.k = 1;
              hname = "set_input_data(other stream)";
              break;
            case 1: // another frame of the same definitions
              if (s.use_frames && s.frames.size() > 1)
                {
                  s1.k = s.k == 1 ? 2 : s.k - 1;
                  hname = "time frame number";
                }
              else
                {
                  s1.use_frames = true;
                  s1.frames = { { 0, std::max<long>(20, t_end / 2) } };
                  s1.k = 1;
                  hname = "frame definitions";
                }
              break;
            case 2: // other frame definitions
              s1.use_frames = true;
              s1.frames = { { std::max<long>(0, t_end / 3), std::max<long>(20, t_end / 3 + 40) } };
              s1.k = 1;
              hname = "frame definitions";
              break;
            case 3: // other cache size
              s1.cache = s.cache == 0 ? 2 : (s.cache == 1 ? 5 : 1);
              hname = "set_cache_max_size";
              break;
            case 4: // other additive term
              add_changed = true;
              hname = "set_additive_proj_data_sptr";
              break;
            default: // other number of subsets
              s1.nsub = s.nsub == 1 ? (g.views % 2 == 0 ? 2 : 1) : 1;
              hname = "set_num_subsets";
              break;
            }
          Results after;
          std::string herr;
          try
            {
              shared_ptr<SynLM> lm1(new SynLM(g.pdi, *r1, true));
              shared_ptr<SynLM> lm2(new SynLM(g.pdi, *r2, anyd));
              LMObj obj;
              configure_lm(obj, g, lm1, s1, add_changed ? g.add_data2 : g.add_data);
              if (obj.set_up(g.image) == Succeeded::yes)
                {
                  Results first;
                  compute_all(first, obj, g, s1.nsub, false); // fills every cache of the object
                  // now the final configuration through the same setters
                  configure_lm(obj, g, lm2, s2, g.add_data);
                  if (obj.set_up(g.image) != Succeeded::yes)
                    herr = "second set_up refused";
                  else
                    compute_all(after, obj, g, s2.nsub, false);
                }
              else
                herr = "skip";
            }
          catch (std::exception& e)
            {
              herr = std::string("exception: ") + e.what();
            }
          catch (...)
            {
              herr = "exception";
            }
          clean_cache_dir();
          if (herr != "skip")
            {
              ++g_checks;
              g_stat["lmo_histories"]++;
              const bool frame_change = (what == 1 || what == 2 || (what == 0 && s.use_frames));
              if (!herr.empty() || !bitwise_equal(after, lm))
                {
                  std::string text = "list-mode objective, history: configure, set_up, compute, then " + hname + " (back to the configuration of a fresh object), set_up: "
                                     + (herr.empty() ? std::string("results differ from a fresh object's") : herr) + " " + ctx;
                  if (frame_change && herr.find("end times do not match") != std::string::npos)
                    {
                      g_stat["lmo_history_end_time_mismatch"]++;
                      known_candidate("lmobj:set-up-again-with-another-frame:stale-end_time_per_batch", text);
                    }
                  else
                    oracle_fail(text);
                }
            }
        }
    }
  clean_cache_dir();
  ::rmdir(g_cache_dir.c_str());
}
} // namespace lmo

// =============================================================================================
// FAMILY 3 — pre- and post-normalisation in LmToProjData (get_bin_from_event with do_pre_normalisation,
//   do_post_normalisation, get_compression_count; LmToProjData.cxx:485-587)
//   The normalisation objects are given through the class's own keys ("Bin Normalisation type for pre-normalisation" /
//   "... post-normalisation", "do pre normalisation"): HashNorm above, alone or inside the library's ChainedBinNormalisation.
//   ops  : cfg tpl / cfg norm <pre|post> / cfg cc (compression counts of the real geometry) / cfg eff (efficiencies of the
//          real normalisation object at the bins that occur) / stream (pre: every event with the number of its uncompressed
//          bin and the efficiency the real object returns for it) / runw <as run>  -> the stored floats (hex)
//   oracle: every stored value == sum over the events of the frame of increment / (efficiency x compression count)
//          (pre-normalisation: efficiency of the event's bin in the uncompressed geometry, compression count of the output
//          bin counted independently over ring pairs and views) resp. increment / efficiency of the output bin
//          (post-normalisation), events whose efficiency is unusable (< 1e-10) or that the uncompressed geometry does not
//          hold add nothing; tolerance 4(n+3) 2^-24 sum|terms|.  Batch sizes give bitwise the same floats; frames of a
//          partition add up to the whole interval (tolerance).
// =============================================================================================
namespace nrm
{
static const double U24 = 1. / 16777216.;

static shared_ptr<Scanner>
make_scanner_nb(int N, int R, int max_tof_bins, int nonarc)
{
  // as vh::make_scanner, with the given max_num_non_arccorrected_bins (the tangential size of the uncompressed geometry
  // that LmToProjData::set_up builds for pre-normalisation)
  shared_ptr<Scanner> s(new Scanner(Scanner::User_defined_scanner, std::string("verif_scanner"), N, R, nonarc, N / 2 - 1 > 0 ? N / 2 - 1 : 1,
                                    100.F + N / 4.F, 5.F, 4.F, 2.F, 0.F, 1, 1, R, N, 1, 1, 1, 0.1F, 511.F, static_cast<short>(max_tof_bins),
                                    max_tof_bins > 0 ? 100.F : -1.F, max_tof_bins > 0 ? 400.F : -1.F, "Cylindrical"));
  return s;
}

struct W
{
  double v = 0, mag = 0;
  long n = 0;
};
typedef std::map<Key, W> HistW;

struct Ctx
{
  Case cs;
  int N = 8, R = 1;
  shared_ptr<ProjDataInfo> unc;                 // uncompressed geometry, built as LmToProjData::set_up does
  std::map<Key, int> unc_ids;                   // numbering of the uncompressed bins that occur
  std::map<std::pair<int, int>, long> ringpairs; // (segment, axial pos) -> number of ring pairs, counted over all ring pairs
  std::map<int, long> viewcount;                // view -> number of uncompressed views, counted over all uncompressed views
};

static double
table_eff(const RunCfg& c, int seg, int view, int ax, int tang, int tof)
{
  double e = hash_eff(c.salt1, c.low, seg, view, ax, tang, tof);
  if (c.salt2 >= 0)
    e *= hash_eff(c.salt2, 0, seg, view, ax, tang, tof);
  return e;
}

static shared_ptr<BinNormalisation>
make_norm_obj(const RunCfg& c)
{
  shared_ptr<HashNorm> a(new HashNorm);
  a->salt = c.salt1;
  a->low = c.low;
  if (c.salt2 < 0)
    return a;
  shared_ptr<HashNorm> b(new HashNorm);
  b->salt = c.salt2;
  return shared_ptr<BinNormalisation>(new ChainedBinNormalisation(a, b));
}

// independent count of the uncompressed (ring pair, view) combinations of every output sinogram / view
static void
count_compression(Ctx& x, const ProjDataInfoCylindricalNoArcCorr& t)
{
  x.ringpairs.clear();
  x.viewcount.clear();
  for (int ra = 0; ra < x.R; ++ra)
    for (int rb = 0; rb < x.R; ++rb)
      {
        int seg = 0, ax = 0;
        if (t.get_segment_axial_pos_num_for_ring_pair(seg, ax, ra, rb) == Succeeded::yes)
          x.ringpairs[std::make_pair(seg, ax)]++;
      }
  const ProjDataInfoCylindricalNoArcCorr& u = dynamic_cast<const ProjDataInfoCylindricalNoArcCorr&>(*x.unc);
  for (int vu = u.get_min_view_num(); vu <= u.get_max_view_num(); ++vu)
    {
      int d1 = 0, d2 = 0, v = 0, tp = 0;
      u.get_det_num_pair_for_view_tangential_pos_num(d1, d2, vu, 0);
      t.get_view_tangential_pos_num_for_det_num_pair(v, tp, d1, d2);
      x.viewcount[v]++;
    }
}

struct EvW
{
  bool valid = false;
  Key key;
  double w = 0;
};

// what one event adds, by the property's reading (quirks = false) or as the unrepaired code does (quirks = true)
static EvW
decode_w(const Ctx& x, const ProjDataInfoCylindricalNoArcCorr& t, const Rec& r, const RunCfg& c, bool quirks, bool* quirk_input)
{
  EvW e;
  if (c.norm == 1)
    {
      const Decoded d = decode_independent(t, r);
      if (!d.valid)
        return e;
      const double eff = table_eff(c, std::get<1>(d.key), std::get<2>(d.key), std::get<3>(d.key), std::get<4>(d.key), std::get<0>(d.key));
      e.key = d.key;
      if (eff < 1.E-10)
        {
          if (quirk_input)
            *quirk_input = true;
          if (!quirks)
            return e;
          e.valid = true;
          e.w = -1.; // do_post_normalisation sets the bin value to -1 and the caller adds it
          return e;
        }
      e.valid = true;
      e.w = 1. / eff;
      return e;
    }
  // pre-normalisation (the only raw-bin events in these streams are events that the decoder rejects for every geometry)
  const DetectionPositionPair<> dp(DetectionPosition<>(r.d1, r.r1, 0), DetectionPosition<>(r.d2, r.r2, 0), r.tp);
  Bin ub;
  const ProjDataInfoCylindricalNoArcCorr& u = dynamic_cast<const ProjDataInfoCylindricalNoArcCorr&>(*x.unc);
  auto cc = [&](const Key& k) {
    auto i = x.ringpairs.find(std::make_pair(std::get<1>(k), std::get<3>(k)));
    auto j = x.viewcount.find(std::get<2>(k));
    return double(i == x.ringpairs.end() ? 0 : i->second) * double(j == x.viewcount.end() ? 0 : j->second);
  };
  if (r.raw || u.get_bin_for_det_pos_pair(ub, dp) != Succeeded::yes)
    {
      if (quirk_input)
        *quirk_input = true;
      if (!quirks)
        return e;
      // get_bin_from_event returns without touching the caller's bin: Bin() with value 1
      e.key = Key(0, 0, 0, 0, 0);
      e.valid = true;
      e.w = 1. / cc(e.key);
      return e;
    }
  const double eff = table_eff(c, ub.segment_num(), ub.view_num(), ub.axial_pos_num(), ub.tangential_pos_num(), ub.timing_pos_num());
  if (eff < 1.E-10)
    return e;
  const Decoded d = decode_independent(t, r);
  if (!d.valid)
    return e;
  e.valid = true;
  e.key = d.key;
  e.w = 1. / (eff * cc(d.key));
  return e;
}

static void
add_w(HistW& h, const EvW& e, int inc)
{
  W& w = h[e.key];
  w.v += e.w * inc;
  w.mag += std::fabs(e.w);
  w.n++;
}

static HistW
expected_window_w(const Ctx& x, const ProjDataInfoCylindricalNoArcCorr& t, const RunCfg& c, bool use_window, long s, long e, bool quirks, bool* quirk_input)
{
  HistW h;
  long cur = 0;
  for (auto& r : x.cs.recs)
    {
      if (r.is_time)
        {
          cur = static_cast<long>(r.ms);
          continue;
        }
      if (use_window && !(s <= cur && cur < e))
        continue;
      const EvW d = decode_w(x, t, r, c, quirks, quirk_input);
      if (!d.valid)
        continue;
      const int inc = increment_of(r, c.storeP, c.storeD);
      if (inc != 0)
        add_w(h, d, inc);
    }
  return h;
}

static HistW
expected_num_events_w(const Ctx& x, const ProjDataInfoCylindricalNoArcCorr& t, const RunCfg& c, bool quirks, bool* quirk_input)
{
  HistW h;
  long total = 0;
  for (auto& r : x.cs.recs)
    {
      if (total == c.num_events)
        break;
      if (r.is_time)
        continue;
      // the count is of the events that pass the range tests, whatever post-normalisation makes of them
      bool qi = false;
      EvW d = decode_w(x, t, r, c, quirks, &qi);
      if (qi && quirk_input)
        *quirk_input = true;
      bool counted = d.valid;
      if (c.norm == 1 && !d.valid && qi)
        counted = true; // post-normalisation with an unusable efficiency: counted, nothing added
      if (!counted)
        continue;
      const int inc = increment_of(r, c.storeP, c.storeD);
      if (inc == 0)
        continue;
      if (d.valid)
        add_w(h, d, inc);
      total += inc;
    }
  return h;
}

static bool
same_w(const HistF& got, const HistW& exp, std::string* where)
{
  std::set<Key> keys;
  for (auto& kv : got)
    keys.insert(kv.first);
  for (auto& kv : exp)
    keys.insert(kv.first);
  for (auto& k : keys)
    {
      auto ig = got.find(k);
      auto ie = exp.find(k);
      const double g = ig == got.end() ? 0. : double(ig->second);
      const W w = ie == exp.end() ? W() : ie->second;
      const double tol = 4. * double(w.n + 3) * U24 * w.mag + 1e-30;
      if (!(std::fabs(g - w.v) <= tol))
        {
          if (where)
            {
              std::ostringstream s;
              s << "bin seg=" << std::get<1>(k) << " view=" << std::get<2>(k) << " ax=" << std::get<3>(k) << " tang=" << std::get<4>(k)
                << " tof=" << std::get<0>(k) << ": stored " << g << ", expected " << w.v << " (" << w.n << " events)";
              *where = s.str();
            }
          return false;
        }
    }
  return true;
}

static std::string
fmt_histf(const HistF& h)
{
  std::ostringstream s;
  bool first = true;
  for (auto& kv : h)
    if (kv.second != 0.F)
      {
        if (!first)
          s << ' ';
        first = false;
        s << std::get<1>(kv.first) << ',' << std::get<2>(kv.first) << ',' << std::get<3>(kv.first) << ',' << std::get<4>(kv.first) << ','
          << std::get<0>(kv.first) << '=' << vh::hex(kv.second);
      }
  if (first)
    s << '-';
  return s.str();
}

static std::string
fmt_resultw(const RunResult& r, int in_memory)
{
  if (r.err)
    return "err";
  std::ostringstream s;
  s << "t=" << r.last_ms << " sim=" << r.segs_in_memory;
  for (std::size_t k = 0; k < r.framesF.size(); ++k)
    {
      if (in_memory == 1 && k + 1 < r.framesF.size())
        continue;
      s << " | " << fmt_histf(r.framesF[k]);
    }
  return s.str();
}

static std::string
norm_str(const RunCfg& c)
{
  std::ostringstream s;
  s << (c.norm == 2 ? "pre" : "post") << "-normalisation salt=" << c.salt1 << (c.salt2 >= 0 ? " chained with salt=" + std::to_string(c.salt2) : std::string())
    << " low=" << c.low;
  return s.str();
}

// runs `c` (with normalisation), evaluates the oracle, prints op + answer if the run is as the property says
static RunResult
do_runw(const Ctx& x, const RunCfg& c, const std::string& what)
{
  shared_ptr<ProjDataInfo> tpl_after;
  RunResult r = run_impl(x.cs.lm_pdi, x.cs.tpl, x.cs.recs, x.cs.has_delayeds, c, &tpl_after);
  g_stat["norm_runs"]++;
  std::string line = run_line(c);
  line.replace(0, 3, "runw");
  ++g_checks;
  if (r.err)
    {
      oracle_fail(what + ": valid configuration rejected: " + line + " " + norm_str(c));
      emit(line, fmt_resultw(r, c.in_memory));
      return r;
    }
  const ProjDataInfoCylindricalNoArcCorr& t = dynamic_cast<const ProjDataInfoCylindricalNoArcCorr&>(*tpl_after);
  const std::size_t nframes = std::max<std::size_t>(1, c.frames.size());
  if (r.framesF.size() != nframes)
    {
      oracle_fail(what + ": wrong number of frames written: " + line);
      r.framesF.resize(nframes);
    }
  bool clean = true, as_unrepaired = true, quirk_input = false;
  std::string where;
  for (int pass = 0; pass < 2; ++pass)
    for (std::size_t k = 0; k < nframes; ++k)
      {
        if (c.in_memory == 1 && k + 1 < nframes)
          continue;
        HistW exp;
        if (c.num_events != 0)
          exp = expected_num_events_w(x, t, c, pass == 1, &quirk_input);
        else if (c.frames.empty())
          exp = expected_window_w(x, t, c, false, 0, 0, pass == 1, &quirk_input);
        else
          exp = expected_window_w(x, t, c, true, c.frames[k].first, c.frames[k].second, pass == 1, &quirk_input);
        std::string w;
        if (!same_w(r.framesF[k], exp, &w))
          {
            if (pass == 0)
              {
                if (clean)
                  where = "frame " + std::to_string(k + 1) + " " + w;
                clean = false;
              }
            else
              as_unrepaired = false;
          }
      }
  if (clean)
    {
      emit(line, fmt_resultw(r, c.in_memory));
      g_stat["norm_runs_compared_with_model"]++;
      return r;
    }
  if (as_unrepaired && quirk_input)
    {
      if (c.norm == 2)
        {
          g_stat["norm_known_pre_outside_uncompressed"]++;
          known_candidate("lm2pd:pre-normalisation:event-rejected-by-the-decoder-is-counted-in-bin-0",
                          "LmToProjData::get_bin_from_event with 'do pre normalisation': when the event decoder rejects the event for the "
                          "uncompressed geometry (bin value <= 0), the function returns without touching the caller's bin, which process_data has "
                          "initialised to Bin() with value 1: the event ('rejected for some strange reason') is counted in bin segment 0, view 0, "
                          "axial 0, tangential 0, TOF 0 with weight 1/compression count; e.g. "
                              + what + " " + line + " " + where);
        }
      else
        {
          g_stat["norm_known_post_low_efficiency"]++;
          known_candidate("lm2pd:post-normalisation:efficiency-below-1e-10-adds-minus-one",
                          "LmToProjData::do_post_normalisation sets the bin value to -1 when the post-normalisation efficiency of the bin is "
                          "< 1e-10 (warning 'Event ignored'), but process_data does not test the value again and adds bin value x increment: every "
                          "such prompt SUBTRACTS one count from the bin (every subtracted delayed adds one); e.g. " + what + " " + line + " "
                              + where);
        }
      return r;
    }
  oracle_fail(what + ": stored values differ from sum over the events of increment/(efficiency x compression count): " + line + " "
              + norm_str(c) + ": " + where);
  emit(line, fmt_resultw(r, c.in_memory));
  return r;
}

static bool
bitwise_same(const RunResult& a, const RunResult& b)
{
  if (a.framesF.size() != b.framesF.size())
    return false;
  for (std::size_t k = 0; k < a.framesF.size(); ++k)
    {
      HistF x = a.framesF[k], y = b.framesF[k];
      for (auto it = x.begin(); it != x.end();)
        it = it->second == 0.F ? x.erase(it) : std::next(it);
      for (auto it = y.begin(); it != y.end();)
        it = it->second == 0.F ? y.erase(it) : std::next(it);
      if (x != y)
        return false;
    }
  return true;
}

static void
run_family(vh::Rng& rng, bool thorough)
{
  const int ncases = thorough ? 500 : 60;
  for (int ci = 0; ci < ncases; ++ci)
    {
      Ctx x;
      static const int Ns[] = { 8, 12, 16 };
      const int N = Ns[rng.range(0, 2)];
      const int R = rng.range(1, 3);
      x.N = N, x.R = R;
      int max_tof = -1, tof_mash = 0;
      if (rng.range(0, 2) == 0)
        {
          static const int tofs[][2] = { { 5, 1 }, { 5, 5 }, { 9, 3 }, { 7, 1 } };
          const int k = rng.range(0, 3);
          max_tof = tofs[k][0];
          tof_mash = rng.range(0, 4) == 0 ? 0 : tofs[k][1];
        }
      RunCfg nc; // the normalisation of this case
      nc.norm = ci % 2 == 0 ? 2 : 1;
      nc.salt1 = rng.range(0, 9999);
      nc.salt2 = rng.coin() ? rng.range(0, 9999) : -1;
      nc.low = ci % 3 == 0 ? rng.range(4, 9) : 0;
      // uncompressed geometry: all detector pairs (N-1 tangential positions), in a fifth of the cases the usual N/2-1
      const bool small_fan = ci % 5 == 4;
      const int nonarc = small_fan ? N / 2 - 1 : N - 1;
      x.cs.scanner = make_scanner_nb(N, R, max_tof, nonarc);
      int span = (R >= 2 && rng.range(0, 2) == 0) ? 3 : 1;
      const int max_delta = rng.range(0, R - 1);
      std::vector<int> mashes;
      for (int m = 1; m <= N / 2; ++m)
        if ((N / 2) % m == 0)
          mashes.push_back(m);
      const int mash = rng.coin() ? 1 : mashes[rng.range(0, static_cast<int>(mashes.size()) - 1)];
      const int full_tang = N / 2 - 1;
      const int num_tang = rng.range(0, 2) == 0 ? full_tang : rng.range(1, full_tang);
      try
        {
          x.cs.lm_pdi = vh::make_pdi(x.cs.scanner, 1, R - 1, N / 2, full_tang, false, max_tof > 0 ? 1 : 0);
          x.cs.tpl = vh::make_pdi(x.cs.scanner, span, max_delta, N / 2 / mash, num_tang, false, tof_mash);
          shared_ptr<Scanner> sc(new Scanner(*x.cs.scanner));
          x.unc.reset(ProjDataInfo::ProjDataInfoCTI(sc, 1, R - 1, N / 2, sc->get_max_num_non_arccorrected_bins(), false, 1));
        }
      catch (...)
        {
          g_stat["norm_geometry_rejected"]++;
          continue;
        }
      if (!dynamic_cast<const ProjDataInfoCylindricalNoArcCorr*>(x.cs.tpl.get()) || !dynamic_cast<const ProjDataInfoCylindricalNoArcCorr*>(x.unc.get()))
        continue;
      const ProjDataInfoCylindricalNoArcCorr& tpl = dynamic_cast<const ProjDataInfoCylindricalNoArcCorr&>(*x.cs.tpl);
      const int nseg = tpl.get_num_segments(), ntof = tpl.get_num_tof_poss();
      count_compression(x, tpl);
      g_stat["norm_cases"]++;
      g_stat[nc.norm == 2 ? "norm_pre_cases" : "norm_post_cases"]++;
      if (nc.salt2 >= 0)
        g_stat["norm_chained"]++;
      if (nc.low)
        g_stat["norm_with_unusable_efficiencies"]++;
      if (small_fan && nc.norm == 2)
        g_stat["norm_pre_small_uncompressed_fan"]++;
      // pre-normalisation: in a fifth of the cases some events are rejected by the decoder (for every geometry)
      const bool rejected_events = nc.norm == 2 && ci % 10 == 8;
      if (rejected_events)
        g_stat["norm_pre_with_events_the_decoder_rejects"]++;
      if (ntof > 1)
        g_stat["norm_tof_templates"]++;

      // ---- stream: monotone marks; detector-pair events (post-normalisation: also raw-bin events around the ranges)
      const int nrec = rng.range(20, thorough ? 260 : 200);
      const int tp_half = max_tof > 0 ? max_tof / 2 : 0;
      std::vector<long> marks;
      long now = rng.range(0, 3) == 0 ? 0 : rng.range(0, 300);
      bool any_delayed = false;
      const int p_time = rng.range(8, 30);
      for (int i = 0; i < nrec; ++i)
        {
          Rec r;
          if (rng.range(0, 99) < p_time && !(i == 0 && rng.coin()))
            {
              r.is_time = true;
              r.ms = static_cast<unsigned long>(now);
              marks.push_back(now);
              x.cs.recs.push_back(r);
              now += rng.range(0, 9) == 0 ? 0 : rng.range(1, 120);
              continue;
            }
          r.prompt = rng.range(0, 3) != 0;
          any_delayed = any_delayed || !r.prompt;
          if (rejected_events && rng.range(0, 7) == 0)
            {
              r.raw = true;
              r.rawbin = Bin(0, 0, 0, 0, 0, rng.coin() ? 0.F : -1.F);
            }
          else if (nc.norm == 2 || rng.range(0, 9) < 8)
            {
              r.d1 = rng.range(0, N - 1);
              do
                r.d2 = rng.range(0, N - 1);
              while (r.d2 == r.d1);
              r.r1 = rng.range(0, R - 1);
              r.r2 = rng.range(0, R - 1);
              r.tp = rng.range(-tp_half, tp_half);
            }
          else
            {
              r.raw = true;
              const int seg = rng.range(tpl.get_min_segment_num(), tpl.get_max_segment_num());
              const int out = rng.range(0, 9);
              int ax = rng.range(tpl.get_min_axial_pos_num(seg), tpl.get_max_axial_pos_num(seg));
              int tang = rng.range(tpl.get_min_tangential_pos_num(), tpl.get_max_tangential_pos_num());
              int tof = rng.range(tpl.get_min_tof_pos_num(), tpl.get_max_tof_pos_num());
              if (out == 0)
                ax = tpl.get_max_axial_pos_num(seg) + 1;
              if (out == 1)
                tang = tpl.get_min_tangential_pos_num() - 1;
              if (out == 2)
                tof = tpl.get_max_tof_pos_num() + 1;
              r.rawbin = Bin(seg, rng.range(tpl.get_min_view_num(), tpl.get_max_view_num()), ax, tang, tof, out == 4 ? 0.F : 1.F);
            }
          x.cs.recs.push_back(r);
        }
      x.cs.has_delayeds = any_delayed;
      const long t_end = now;

      // ---- ops: geometry, normalisation data of the REAL objects, stream
      emit_cfg(tpl);
      emit(std::string("cfg norm ") + (nc.norm == 2 ? "pre" : "post"), "ok");
      shared_ptr<BinNormalisation> norm_obj = make_norm_obj(nc);
      {
        std::ostringstream s;
        s << "cfg cc " << tpl.get_view_mashing_factor();
        for (int seg = tpl.get_min_segment_num(); seg <= tpl.get_max_segment_num(); ++seg)
          for (int ax = tpl.get_min_axial_pos_num(seg); ax <= tpl.get_max_axial_pos_num(seg); ++ax)
            s << ' ' << seg << ':' << ax << ':' << tpl.get_num_ring_pairs_for_segment_axial_pos_num(seg, ax);
        emit(s.str(), "ok");
        // get_compression_count against the independent count
        for (int seg = tpl.get_min_segment_num(); seg <= tpl.get_max_segment_num(); ++seg)
          for (int ax = tpl.get_min_axial_pos_num(seg); ax <= tpl.get_max_axial_pos_num(seg); ++ax)
            {
              ++g_checks;
              if (static_cast<long>(tpl.get_num_ring_pairs_for_segment_axial_pos_num(seg, ax)) != x.ringpairs[std::make_pair(seg, ax)])
                oracle_fail("number of ring pairs of segment " + std::to_string(seg) + " axial position " + std::to_string(ax) + " differs from the count over all ring pairs");
            }
        for (int v = tpl.get_min_view_num(); v <= tpl.get_max_view_num(); ++v)
          {
            ++g_checks;
            if (x.viewcount[v] != tpl.get_view_mashing_factor())
              oracle_fail("view mashing factor differs from the number of uncompressed views of view " + std::to_string(v));
          }
      }
      {
        SynRecord rec(x.cs.lm_pdi);
        std::ostringstream st, ef;
        st << "stream";
        ef << "cfg eff";
        std::set<Key> seen;
        for (auto& r : x.cs.recs)
          {
            rec.load(r);
            if (rec.is_time())
              {
                st << " T" << rec.time().get_time_in_millisecs();
                continue;
              }
            Bin bin;
            bin.set_bin_value(1.f);
            rec.event().get_bin(bin, tpl);
            st << " E" << (rec.event().is_prompt() ? 'p' : 'd') << ':';
            if (bin.get_bin_value() > 0)
              {
                st << bin.segment_num() << ':' << bin.view_num() << ':' << bin.axial_pos_num() << ':' << bin.tangential_pos_num() << ':' << bin.timing_pos_num();
                const Key k(bin.timing_pos_num(), bin.segment_num(), bin.view_num(), bin.axial_pos_num(), bin.tangential_pos_num());
                if (nc.norm == 1 && seen.insert(k).second)
                  ef << ' ' << bin.segment_num() << ':' << bin.view_num() << ':' << bin.axial_pos_num() << ':' << bin.tangential_pos_num() << ':'
                     << bin.timing_pos_num() << ':' << vh::hex(norm_obj->get_bin_efficiency(bin));
              }
            else
              st << 'x';
            if (nc.norm == 2)
              {
                Bin ub;
                rec.event().get_bin(ub, *x.unc);
                if (ub.get_bin_value() > 0)
                  {
                    const Key uk(ub.timing_pos_num(), ub.segment_num(), ub.view_num(), ub.axial_pos_num(), ub.tangential_pos_num());
                    auto it = x.unc_ids.find(uk);
                    if (it == x.unc_ids.end())
                      it = x.unc_ids.insert(std::make_pair(uk, static_cast<int>(x.unc_ids.size()) + 1)).first;
                    st << ":u" << it->second << ':' << vh::hex(norm_obj->get_bin_efficiency(ub));
                  }
                else
                  st << ":ux";
              }
          }
        emit(ef.str(), "ok");
        emit(st.str(), "ok " + std::to_string(x.cs.recs.size()));
      }

      // ---- runs
      auto pick_boundary = [&]() -> long {
        if (!marks.empty() && rng.range(0, 3) != 0)
          return marks[rng.range(0, static_cast<int>(marks.size()) - 1)];
        return rng.range(0, static_cast<int>(t_end + 100));
      };
      RunCfg base = nc;
      base.in_memory = 2;
      const int sm = rng.range(0, 3);
      base.storeP = sm != 3;
      base.storeD = sm != 2;
      {
        std::set<long> bs;
        const int nb = rng.range(2, 4);
        for (int k = 0; k < nb + 3 && static_cast<int>(bs.size()) < nb; ++k)
          {
            long b = pick_boundary();
            if (b <= 10)
              b = rng.coin() ? 0 : 11 + rng.range(0, 50);
            bs.insert(b);
          }
        std::vector<long> b(bs.begin(), bs.end());
        if (b.size() < 2)
          b.push_back(b.back() + 50);
        for (std::size_t k = 0; k + 1 < b.size(); ++k)
          if (b[k + 1] > 10)
            base.frames.push_back(std::make_pair(b[k], b[k + 1]));
        if (base.frames.empty())
          base.frames.push_back(std::make_pair(b[0], std::max<long>(b[1], 11)));
      }
      // marks that jump over a whole frame: the class of the known finding lm2pd:frame-inside-time-mark-gap
      if (frame_in_gap(x.cs.recs, base.frames))
        {
          g_stat["norm_framesets_skipped_frame_in_gap"]++;
          base.frames.clear();
        }
      const RunResult ref = do_runw(x, base, "normalisation");
      {
        // other batch sizes: bitwise the same floats (every bin is summed in stream order in exactly one pass)
        std::vector<std::pair<int, int>> batches;
        batches.push_back(std::make_pair(1, ntof > 1 ? 1 : -1));
        batches.push_back(std::make_pair(rng.range(1, nseg), ntof > 1 ? rng.range(1, ntof) : -1));
        for (auto& sb : batches)
          {
            RunCfg c = base;
            c.segs = sb.first;
            c.tofs = sb.second;
            c.in_memory = rng.coin() ? 2 : 1;
            RunResult r = do_runw(x, c, "normalisation-batches");
            ++g_checks;
            if (!ref.err && !r.err)
              {
                RunResult a = ref;
                if (c.in_memory == 1 && a.framesF.size() > 1)
                  {
                    a.framesF.erase(a.framesF.begin(), a.framesF.end() - 1);
                    r.framesF.erase(r.framesF.begin(), r.framesF.end() - 1);
                  }
                if (!bitwise_same(a, r))
                  oracle_fail("normalised result depends on num_segments_in_memory/num_TOF_bins_in_memory: " + run_line(c) + " " + norm_str(c));
              }
          }
      }
      if (base.frames.size() > 1 && !ref.err)
        {
          // frames of the partition add up to the whole interval
          RunCfg c = base;
          c.frames.clear();
          c.frames.push_back(std::make_pair(base.frames.front().first, base.frames.back().second));
          const RunResult whole = do_runw(x, c, "normalisation-whole-interval");
          if (!whole.err && whole.framesF.size() == 1)
            {
              std::map<Key, W> sum;
              for (auto& h : ref.framesF)
                for (auto& kv : h)
                  {
                    W& w = sum[kv.first];
                    w.v += kv.second;
                    w.mag += std::fabs(kv.second);
                    w.n += 40;
                  }
              ++g_checks;
              std::string w;
              if (!same_w(whole.framesF[0], sum, &w))
                oracle_fail("normalised frames of a partition do not add up to the whole interval: " + run_line(base) + " " + norm_str(c) + " " + w);
              g_stat["norm_frames_add_checks"]++;
            }
        }
      {
        // the whole stream, and num_events_to_store
        RunCfg c = nc;
        c.in_memory = 2;
        c.storeP = true;
        c.storeD = rng.coin();
        c.segs = rng.range(0, 1) ? -1 : rng.range(1, nseg);
        do_runw(x, c, "normalisation-no-frames");
        long nev = 0;
        for (auto& r : x.cs.recs)
          nev += r.is_time ? 0 : 1;
        RunCfg d = nc;
        d.in_memory = 2;
        d.storeP = true;
        d.storeD = rng.coin();
        d.num_events = rng.range(1, static_cast<int>(nev / 2) + 2);
        const RunResult a = do_runw(x, d, "normalisation-num-events");
        RunCfg d2 = d;
        d2.segs = rng.range(1, nseg);
        d2.tofs = ntof > 1 ? rng.range(1, ntof) : -1;
        const RunResult b = do_runw(x, d2, "normalisation-num-events-batches");
        ++g_checks;
        if (!a.err && !b.err && !bitwise_same(a, b))
          oracle_fail("normalised num_events_to_store result depends on the batch sizes: " + run_line(d2) + " " + norm_str(d2));
      }
    }
}
} // namespace nrm

// =============================================================================================
// FAMILY 4 — other event classes and REAL list-mode files
//   (a) events of a cylindrical scanner that only know their LOR (library get_LOR(), ListEvent::get_bin = LOR path);
//   (b) events of a BlocksOnCylindrical scanner (ProjDataInfoGenericNoArcCorr / ProjDataInfoBlocksOnCylindricalNoArcCorr templates),
//       with detector indices or with their LOR only;
//   (c) a SAFIR coincidence list-mode FILE written from the event list (32 byte signature, 64 bit records), a template
//       projection data file and a parameter file, read through read_from_file<ListModeData> (SAFIRCListmodeInputFileFormat ->
//       CListModeDataSAFIR<CListRecordSAFIR<CListEventDataSAFIR>>): the real bit-field decoder, get_next_record,
//       save_get_position/set_get_position on the file; without crystal map (detector indices -> get_bin_for_det_pos_pair) and with a
//       crystal map file written from the scanner's own detector map (coordinates -> LOR -> ProjDataInfo::get_bin);
//   (d) an ECAT8 32-bit list-mode FILE for the Siemens mMR (Interfile list-mode header parsed by InterfileListmodeHeaderSiemens, 32 bit
//       words: sinogram offset + prompt bit / time tags), read through read_from_file<ListModeData> (CListModeDataECAT8_32bit,
//       CListEventECAT8_32bit::get_detection_position: offset -> segment/axial/view/tangential -> detector pair), histogrammed into small
//       templates (span 1/3, view mashing, 9..61 tangential positions).
//   ops    : cfg tpl / stream (as decoded by the event class resp. the real file reader) / run
//   oracle : (a) of family 1 (histogram == independent count with get_bin_for_det_pos_pair), batch sizes, frames add; the records the
//            file reader delivers == the event list (times, prompt/delayed); the file's histograms == those of the synthetic stream.
// =============================================================================================
namespace evk
{
static shared_ptr<Scanner>
blocks_scanner(int nblk, int cpb, int R)
{
  const int N = nblk * cpb;
  const float cs = 8.F;
  const float rad = cs * cpb / (2 * std::tan(3.14159265F / nblk)) * 1.02F;
  shared_ptr<Scanner> s(new Scanner(Scanner::User_defined_scanner, std::string("verif_blocks"), N, R, N / 2 - 1, N / 2 - 1, rad, 2.F, 4.F, 4.F, 0.F, 1, 1,
                                    R, cpb, 1, 1, 1, 0.1F, 511.F, static_cast<short>(-1), -1.F, -1.F, "BlocksOnCylindrical", 4.F, cs, 4.F * R,
                                    cs * cpb));
  return s;
}

// SAFIR records (CListRecordSAFIR.h): little-endian bit fields
//   event: ringA:8 ringB:8 detA:16 detB:16 layerA:4 layerB:4 reserved:6 isDelayed:1 type:1(=0)
//   time : time:48 reserved:15 type:1(=1)
static uint64_t
safir_event(int ringA, int ringB, int detA, int detB, bool delayed)
{
  return uint64_t(ringA & 0xff) | (uint64_t(ringB & 0xff) << 8) | (uint64_t(detA & 0xffff) << 16) | (uint64_t(detB & 0xffff) << 32)
         | (uint64_t(delayed ? 1 : 0) << 62);
}

static uint64_t
safir_time(uint64_t ms)
{
  return (ms & ((uint64_t(1) << 48) - 1)) | (uint64_t(1) << 63);
}

static void
write_safir(const std::string& name, const std::vector<Rec>& recs, const char* signature)
{
  std::ofstream f(name.c_str(), std::ios::binary);
  char hdr[32];
  std::memset(hdr, 0, 32);
  std::strcpy(hdr, signature);
  f.write(hdr, 32);
  for (auto& r : recs)
    {
      // detector 1 of the event list is "A"
      const uint64_t w = r.is_time ? safir_time(r.ms) : safir_event(r.r1, r.r2, r.d1, r.d2, !r.prompt);
      unsigned char b[8];
      for (int k = 0; k < 8; ++k)
        b[k] = static_cast<unsigned char>((w >> (8 * k)) & 0xff);
      f.write(reinterpret_cast<const char*>(b), 8);
    }
}

static bool
in_template(const ProjDataInfo& t, const Bin& b)
{
  return b.get_bin_value() > 0 && b.segment_num() >= t.get_min_segment_num() && b.segment_num() <= t.get_max_segment_num()
         && b.view_num() >= t.get_min_view_num() && b.view_num() <= t.get_max_view_num()
         && b.tangential_pos_num() >= t.get_min_tangential_pos_num() && b.tangential_pos_num() <= t.get_max_tangential_pos_num()
         && b.axial_pos_num() >= t.get_min_axial_pos_num(b.segment_num()) && b.axial_pos_num() <= t.get_max_axial_pos_num(b.segment_num())
         && b.timing_pos_num() >= t.get_min_tof_pos_num() && b.timing_pos_num() <= t.get_max_tof_pos_num();
}

// the event class's bin against "the bin that the data geometry assigns to the event's detector pair"
static void
glue_check(const ListEvent& ev, const ProjDataInfo& tpl, const Rec& r, const std::string& what)
{
  Bin b;
  b.set_bin_value(1.f);
  ev.get_bin(b, tpl);
  const Decoded d = decode_independent(tpl, r);
  const bool in1 = in_template(tpl, b);
  ++g_checks;
  if (in1 != d.valid
      || (in1 && Key(b.timing_pos_num(), b.segment_num(), b.view_num(), b.axial_pos_num(), b.tangential_pos_num()) != d.key))
    {
      std::ostringstream s;
      s << what << ": the event's bin differs from the bin of its detector pair " << r.d1 << "," << r.r1 << " " << r.d2 << "," << r.r2
        << " tof " << r.tp << ": event " << (in1 ? "" : "(outside) ") << b.segment_num() << "," << b.view_num() << "," << b.axial_pos_num() << ","
        << b.tangential_pos_num() << "," << b.timing_pos_num() << " detector pair " << (d.valid ? "" : "(outside) ") << std::get<1>(d.key) << ","
        << std::get<2>(d.key) << "," << std::get<3>(d.key) << "," << std::get<4>(d.key) << "," << std::get<0>(d.key);
      oracle_fail(s.str());
    }
}

static bool
same_frames(const RunResult& a, const RunResult& b)
{
  if (a.err || b.err || a.frames.size() != b.frames.size())
    return false;
  for (std::size_t k = 0; k < a.frames.size(); ++k)
    if (!same_hist(a.frames[k], b.frames[k]))
      return false;
  return true;
}

static void
run_family(vh::Rng& rng, bool thorough)
{
  const int ncases = thorough ? 400 : 48;
  const std::string dir = g_tmpdir;
  for (int ci = 0; ci < ncases; ++ci)
    {
      Case cs;
      // 0: cylindrical, LOR only  1: blocks, synthetic  2: SAFIR file  3: SAFIR file + crystal map  4: ECAT8 32-bit file (Siemens mMR)
      const int variant = ci % 16 == 7 ? 4 : ci % 4;
      int N = 8, R = 1, max_tof = -1;
      int lm_kind = 1;
      int ecat_maxrd = 1;
      if (variant == 4)
        {
          cs.scanner.reset(Scanner::get_scanner_from_name("Siemens mMR"));
          N = cs.scanner->get_num_detectors_per_ring(); // 504
          R = cs.scanner->get_num_rings();              // 64
          ecat_maxrd = ci % 64 == 39 ? 0 : rng.range(1, 2); // (mostly oblique segments as well)
          lm_kind = 0;
        }
      else if (variant == 0)
        {
          static const int Ns[] = { 8, 12, 16, 20 };
          N = Ns[rng.range(0, 3)];
          R = rng.range(1, 4);
          // a TOF scanner with a non-TOF template: the LOR has no TOF information
          max_tof = rng.range(0, 3) == 0 ? 5 : -1;
          cs.scanner = vh::make_scanner(N, R, max_tof);
          lm_kind = 1;
        }
      else
        {
          static const int shapes[][2] = { { 4, 2 }, { 6, 2 }, { 4, 3 }, { 8, 2 }, { 4, 4 } };
          const int k = rng.range(0, 4);
          N = shapes[k][0] * shapes[k][1];
          R = rng.range(1, 3);
          try
            {
              cs.scanner = blocks_scanner(shapes[k][0], shapes[k][1], R);
              cs.scanner->set_up();
            }
          catch (...)
            {
              g_stat["evk_geometry_rejected"]++;
              continue;
            }
          lm_kind = variant == 1 ? (rng.coin() ? 2 : 3) : 2;
        }
      const int full_tang = std::max(1, N / 2 - 1);

      // ---- stream: detector pairs only, monotone marks
      const int nrec = rng.range(10, thorough ? 220 : 160);
      const int tp_half = max_tof > 0 ? max_tof / 2 : 0;
      std::vector<long> marks;
      long now = rng.range(0, 3) == 0 ? 0 : rng.range(0, 400);
      bool any_delayed = false;
      const int p_time = rng.range(8, 35);
      for (int i = 0; i < nrec; ++i)
        {
          Rec r;
          if (rng.range(0, 99) < p_time && !(i == 0 && rng.coin()))
            {
              r.is_time = true;
              r.ms = static_cast<unsigned long>(now);
              marks.push_back(now);
              cs.recs.push_back(r);
              now += rng.range(0, 9) == 0 ? 0 : rng.range(1, 120);
              if ((variant == 2 || variant == 3) && rng.range(0, 30) == 0)
                now += 5000000000L; // beyond 32 bits: the time field has 48
              continue;
            }
          r.prompt = rng.range(0, 3) != 0;
          any_delayed = any_delayed || !r.prompt;
          r.d1 = rng.range(0, N - 1);
          if (variant == 4)
            {
              // the 32-bit format addresses a bin of the sinogram of the header: ring difference <= maximum ring difference,
              // inside the fan of 344 bins (here: near the centre, so that small templates see the events)
              r.d2 = (r.d1 + N / 2 + rng.range(-40, 40) + N) % N;
              r.r1 = rng.range(0, R - 1);
              r.r2 = std::min(R - 1, std::max(0, r.r1 + rng.range(-ecat_maxrd, ecat_maxrd)));
              r.tp = 0;
              cs.recs.push_back(r);
              continue;
            }
          do
            r.d2 = rng.range(0, N - 1);
          while (r.d2 == r.d1);
          r.r1 = rng.range(0, R - 1);
          r.r2 = rng.range(0, R - 1);
          r.tp = rng.range(-tp_half, tp_half);
          cs.recs.push_back(r);
        }
      cs.has_delayeds = any_delayed || variant == 4;
      const long t_end = now;
      if (cs.recs.empty())
        continue;

      // ---- files (variants 2, 3) and the geometry of the list-mode data
      std::vector<std::string> files;
      std::string parname, safirname;
      shared_ptr<ListModeData> file_lm;
      bool ok = true;
      try
        {
          if (variant == 4)
            {
              // ECAT8 32-bit list mode: Interfile header (InterfileListmodeHeaderSiemens) + 32 bit words
              //   event: offset:30 (((TOF bin * sinograms + z) * views + view) * projections + tangential index; z runs over the
              //          segments 0, -1, +1, ...), bit 30 = 1 for a prompt, bit 31 = 0;   time: ms:29, bits 29-30 = 0, bit 31 = 1
              const std::string base = dir + "/ecat" + std::to_string(ci);
              const int nviews = N / 2, nproj = cs.scanner->get_max_num_non_arccorrected_bins();
              {
                std::ofstream h((base + ".l.hdr").c_str());
                files.push_back(base + ".l.hdr");
                h << "!INTERFILE:=\n!originating system:=2008\n%SMS-MI header name space:=PETLINK bin address\n%SMS-MI version number:=3.4\n\n"
                     "!GENERAL DATA:=\n!data offset in bytes:=0\nname of data file:=ecat"
                  << ci
                  << ".l\n\n!GENERAL IMAGE DATA:=\n!type of data:=PET\n%study date (yyyy:mm:dd):=2017:03:27\n"
                     "%study time (hh:mm:ss GMT+00:00):=17:00:35\nPET data type:=Emission\ndata format:=CoincidenceList\n"
                     "number of energy windows:=1\n%energy window lower level (keV) [1]:=430\n%energy window upper level (keV) [1]:=610\n\n"
                     "!PET STUDY (Emission data):=\nPET scanner type:=cylindrical\nnumber of rings:=64\n%number of TOF time bins:=1\n"
                     "%TOF mashing factor:=1\n\n!IMAGE DATA DESCRIPTION:=\nimage duration (sec):=900\n\n%COINCIDENCE LIST DATA:=\n"
                     "%LM event and tag words format (bits):=32\n%axial compression:=1\n%maximum ring difference:="
                  << ecat_maxrd << "\n%number of projections:=" << nproj << "\n%number of views:=" << nviews
                  << "\n%number of segments:=" << 2 * ecat_maxrd + 1 << "\n%segment table:={" << R;
                for (int sgm = 1; sgm <= ecat_maxrd; ++sgm)
                  h << "," << R - sgm << "," << R - sgm;
                h << "}\n";
              }
              shared_ptr<ProjDataInfo> enc_pdi = vh::make_pdi(cs.scanner, 1, ecat_maxrd, nviews, nproj, false, 0);
              const ProjDataInfoCylindricalNoArcCorr& enc = dynamic_cast<const ProjDataInfoCylindricalNoArcCorr&>(*enc_pdi);
              std::ofstream f((base + ".l").c_str(), std::ios::binary);
              files.push_back(base + ".l");
              std::vector<Rec> kept;
              for (auto& r : cs.recs)
                {
                  uint32_t w;
                  if (r.is_time)
                    w = (1u << 31) | static_cast<uint32_t>(r.ms & ((1u << 29) - 1));
                  else
                    {
                      // the sinogram address of the detector pair in the geometry of the header
                      Bin b;
                      const DetectionPositionPair<> dp(DetectionPosition<>(r.d1, r.r1, 0), DetectionPosition<>(r.d2, r.r2, 0), 0);
                      if (r.d1 == r.d2 || enc.get_bin_for_det_pos_pair(b, dp) != Succeeded::yes
                          || b.tangential_pos_num() < enc.get_min_tangential_pos_num() || b.tangential_pos_num() > enc.get_max_tangential_pos_num())
                        continue; // not an event of this format
                      int z = b.axial_pos_num();
                      for (int sgm = 0; sgm < std::abs(b.segment_num()); ++sgm)
                        z += sgm == 0 ? R : 2 * (R - sgm);
                      if (b.segment_num() > 0)
                        z += R - b.segment_num();
                      const uint32_t off = (static_cast<uint32_t>(z) * nviews + b.view_num()) * nproj + (b.tangential_pos_num() + nproj / 2);
                      w = off | (r.prompt ? (1u << 30) : 0u);
                    }
                  kept.push_back(r);
                  unsigned char bytes[4];
                  for (int k = 0; k < 4; ++k)
                    bytes[k] = static_cast<unsigned char>((w >> (8 * k)) & 0xff);
                  f.write(reinterpret_cast<const char*>(bytes), 4);
                }
              f.close();
              cs.recs = kept;
              parname = base + ".l.hdr";
              file_lm = read_from_file<ListModeData>(parname);
              cs.scanner.reset(new Scanner(*file_lm->get_proj_data_info_sptr()->get_scanner_ptr()));
              cs.lm_pdi = file_lm->get_proj_data_info_sptr()->create_shared_clone();
            }
          else if (variant >= 2)
            {
              const std::string base = dir + "/safir" + std::to_string(ci);
              shared_ptr<ExamInfo> ei(new ExamInfo);
              ei->imaging_modality = ImagingModality::PT;
              shared_ptr<ProjDataInfo> file_pdi = vh::make_pdi(cs.scanner, 1, R - 1, N / 2, full_tang, false, 0);
              {
                ProjDataInterfile pd(ei, file_pdi, base + "_tpl.hs");
              }
              files.push_back(base + "_tpl.hs");
              files.push_back(base + "_tpl.s");
              write_safir(base + ".clm.safir", cs.recs, rng.coin() ? "SAFIR CListModeData" : "MUPET CListModeData");
              files.push_back(base + ".clm.safir");
              parname = base + ".par";
              files.push_back(parname);
              std::ofstream par(parname.c_str());
              par << "CListModeDataSAFIR Parameters:=\nlistmode data filename:= " << base << ".clm.safir\ntemplate projection data filename:= " << base
                  << "_tpl.hs\n";
              if (variant == 3)
                {
                  // crystal map: ring <tab> detector <tab> layer <tab> x <tab> y <tab> z, from the scanner's own detector map
                  std::ofstream m((base + "_map.txt").c_str());
                  files.push_back(base + "_map.txt");
                  m.precision(9);
                  for (int ring = 0; ring < R; ++ring)
                    for (int det = 0; det < N; ++det)
                      {
                        const CartesianCoordinate3D<float> c = cs.scanner->get_coordinate_for_det_pos(DetectionPosition<>(det, ring, 0));
                        m << ring << "\t" << det << "\t0\t" << c.x() << "\t" << c.y() << "\t" << c.z() << "\n";
                      }
                  par << "crystal map filename:= " << base << "_map.txt\n";
                }
              par << "END CListModeDataSAFIR Parameters:=\n";
              par.close();
              // without crystal map the class is constructed directly (CListModeDataSAFIR(file, proj_data_info)): the registered
              // SAFIRCListmodeInputFileFormat keeps the crystal map of the file read before (see the history check below)
              if (variant == 2)
                {
                  safirname = base + ".clm.safir";
                  file_lm.reset(new CListModeDataSAFIR<CListRecordSAFIR<CListEventDataSAFIR>>(safirname, file_pdi));
                }
              else
                file_lm = read_from_file<ListModeData>(parname);
              // the geometry of the file is the geometry of everything else in this case
              cs.scanner.reset(new Scanner(*file_lm->get_proj_data_info_sptr()->get_scanner_ptr()));
              cs.lm_pdi = file_lm->get_proj_data_info_sptr()->create_shared_clone();
            }
          else
            cs.lm_pdi = vh::make_pdi(cs.scanner, 1, R - 1, N / 2, full_tang, false, 0);
          // template
          int span = rng.range(0, 2) == 0 && R >= 2 ? 3 : 1;
          const int max_delta = span == 3 ? rng.range(1, R - 1) : rng.range(0, R - 1);
          int views = N / 2;
          if (variant == 0 && rng.coin())
            {
              std::vector<int> mashes;
              for (int m = 1; m <= N / 2; ++m)
                if ((N / 2) % m == 0)
                  mashes.push_back(m);
              views = N / 2 / mashes[rng.range(0, static_cast<int>(mashes.size()) - 1)];
            }
          const int num_tang = rng.range(0, 2) == 0 ? full_tang : rng.range(1, full_tang);
          if (variant == 4)
            {
              static const int mashes[] = { 1, 2, 3, 4, 6, 7, 9, 12 };
              cs.tpl = vh::make_pdi(cs.scanner, rng.coin() ? 1 : 3, rng.range(1, 2), N / 2 / mashes[rng.range(0, 7)], rng.range(9, 61), false, 0);
            }
          else
            cs.tpl = vh::make_pdi(cs.scanner, span, max_delta, views, num_tang, false, 0);
        }
      catch (std::exception& e)
        {
          if (std::getenv("C14_DEBUG"))
            std::fprintf(g_orc, "DEBUG evk case %d variant %d: %s\n", ci, variant, e.what());
          ok = false;
        }
      catch (...)
        {
          ok = false;
        }
      if (!ok || !cs.tpl)
        {
          g_stat["evk_geometry_rejected"]++;
          for (auto& f : files)
            ::unlink(f.c_str());
          continue;
        }
      const ProjDataInfo& tpl = *cs.tpl;
      const int nseg = tpl.get_num_segments();
      g_stat["evk_cases"]++;
      g_stat[variant == 0 ? "evk_cylindrical_lor_only"
                          : (variant == 1 ? (lm_kind == 2 ? "evk_blocks_detector_pairs" : "evk_blocks_lor_only")
                                          : (variant == 2 ? "evk_safir_file" : (variant == 3 ? "evk_safir_file_with_crystal_map" : "evk_ecat8_32bit_file")))]++;
      const std::string fname = variant == 4 ? "ECAT8 32-bit file" : (variant == 2 ? "SAFIR file" : "SAFIR file with crystal map");

      // ---- the event class's bins against the detector-pair geometry; the file's records against the event list
      std::string stream;
      if (variant >= 2)
        {
          shared_ptr<ListRecord> rec = file_lm->get_empty_record_sptr();
          std::ostringstream s;
          s << "stream";
          std::size_t k = 0;
          bool same = true;
          while (file_lm->get_next_record(*rec) == Succeeded::yes)
            {
              if (k >= cs.recs.size())
                {
                  same = false;
                  break;
                }
              const Rec& r = cs.recs[k++];
              if (rec->is_time())
                {
                  same = same && r.is_time && rec->time().get_time_in_millisecs() == r.ms && !rec->is_event();
                  s << " T" << rec->time().get_time_in_millisecs();
                  continue;
                }
              same = same && !r.is_time && rec->is_event() && rec->event().is_prompt() == r.prompt;
              if (!r.is_time)
                glue_check(rec->event(), tpl, r, fname);
              Bin bin;
              bin.set_bin_value(1.f);
              rec->event().get_bin(bin, tpl);
              s << " E" << (rec->event().is_prompt() ? 'p' : 'd') << ':';
              if (bin.get_bin_value() > 0)
                s << bin.segment_num() << ':' << bin.view_num() << ':' << bin.axial_pos_num() << ':' << bin.tangential_pos_num() << ':'
                  << bin.timing_pos_num();
              else
                s << 'x';
            }
          ++g_checks;
          if (!same || k != cs.recs.size())
            oracle_fail(fname + ": the records the reader delivers differ from the event list written (record " + std::to_string(k) + " of "
                        + std::to_string(cs.recs.size()) + ")");
          // reset(): the same records again
          ++g_checks;
          if (file_lm->reset() != Succeeded::yes || file_lm->get_next_record(*rec) != Succeeded::yes
              || rec->is_time() != cs.recs[0].is_time)
            oracle_fail(fname + ": reset() does not go back to the first record");
          stream = s.str();
          file_lm.reset();
        }
      else
        {
          shared_ptr<SynRecordBase> rec = make_syn_record(lm_kind, cs.lm_pdi);
          for (auto& r : cs.recs)
            if (!r.is_time)
              {
                rec->load(r);
                glue_check(rec->event(), tpl, r, variant == 0 ? "cylindrical LOR-only event" : (lm_kind == 2 ? "blocks detector-pair event" : "blocks LOR-only event"));
              }
          stream = stream_line(tpl, cs.lm_pdi, cs.recs, lm_kind);
        }
      emit_cfg(tpl);
      emit(stream, "ok " + std::to_string(cs.recs.size()));

      // ---- runs
      auto pick_boundary = [&]() -> long {
        if (!marks.empty() && rng.range(0, 3) != 0)
          return marks[rng.range(0, static_cast<int>(marks.size()) - 1)];
        return rng.range(0, static_cast<int>(std::min<long>(t_end, 100000) + 200));
      };
      RunCfg base;
      base.lm_kind = lm_kind;
      base.lm_file = variant >= 3 ? parname : std::string();
      base.lm_safir = safirname;
      base.in_memory = 2;
      const int sm = rng.range(0, 3);
      base.storeP = sm != 3;
      base.storeD = sm != 2;
      {
        std::set<long> bs;
        const int nb = rng.range(2, 4);
        for (int k = 0; k < nb + 3 && static_cast<int>(bs.size()) < nb; ++k)
          {
            long b = pick_boundary();
            if (b <= 10)
              b = rng.coin() ? 0 : 11 + rng.range(0, 50);
            bs.insert(b);
          }
        if (rng.range(0, 2) == 0)
          bs.insert(0);
        std::vector<long> b(bs.begin(), bs.end());
        if (b.size() < 2)
          b.push_back(b.back() + 50);
        for (std::size_t k = 0; k + 1 < b.size(); ++k)
          if (b[k + 1] > 10)
            base.frames.push_back(std::make_pair(b[k], b[k + 1]));
        if (base.frames.empty())
          base.frames.push_back(std::make_pair(b[0], std::max<long>(b[1], 11)));
      }
      const bool gap = frame_in_gap(cs.recs, base.frames);
      if (gap)
        g_stat["evk_framesets_with_frame_in_gap"]++;
      const RunResult ref = do_run(cs, base, true, "event-kinds");
      // every num_segments_in_memory: several passes, i.e. save_get_position / set_get_position (on the real file for variants 2, 3)
      for (int sgs = 1; sgs <= nseg; ++sgs)
        {
          if (sgs > 3 && sgs < nseg && !thorough)
            continue;
          RunCfg c = base;
          c.segs = sgs;
          c.in_memory = (variant == 0 && rng.coin()) ? 0 : 2; // Interfile output: cylindrical templates only
          const RunResult r = do_run(cs, c, true, "event-kinds-batches");
          ++g_checks;
          if (!ref.err && !r.err && !same_frames(ref, r))
            oracle_fail("event kinds / real file: result depends on num_segments_in_memory: " + run_line(c));
          g_stat["evk_batch_runs"]++;
        }
      if (variant >= 2)
        {
          // the same runs on the synthetic stream of the same events: same histograms
          RunCfg c = base;
          c.lm_file.clear();
          c.lm_safir.clear();
          c.lm_kind = variant == 4 ? 0 : 2;
          const RunResult syn = run_impl(cs.lm_pdi, cs.tpl, cs.recs, cs.has_delayeds, c);
          ++g_checks;
          if (!ref.err && !same_frames(ref, syn))
            oracle_fail(fname + ": histograms differ from those of the synthetic stream of the same events: " + run_line(c));
          g_stat["evk_file_against_synthetic"]++;
        }
      if (base.frames.size() > 1 && !ref.err)
        {
          bool partition = true;
          for (std::size_t k = 0; k + 1 < base.frames.size(); ++k)
            partition = partition && base.frames[k].second == base.frames[k + 1].first;
          if (partition)
            {
              RunCfg c = base;
              c.frames.clear();
              c.frames.push_back(std::make_pair(base.frames.front().first, base.frames.back().second));
              c.segs = rng.range(0, 1) ? -1 : rng.range(1, nseg);
              const RunResult whole = do_run(cs, c, !gap, "event-kinds-whole-interval");
              if (!whole.err && !gap)
                {
                  Hist sum;
                  for (auto& h : ref.frames)
                    sum = add_hist(sum, h);
                  ++g_checks;
                  if (!same_hist(sum, whole.frames[0]))
                    oracle_fail("event kinds / real file: frames of a partition do not add up to the whole interval: " + run_line(base));
                  g_stat["evk_frames_add_checks"]++;
                }
            }
        }
      {
        RunCfg c;
        c.lm_kind = lm_kind;
        c.lm_file = base.lm_file;
        c.lm_safir = base.lm_safir;
        c.in_memory = 2;
        c.storeD = rng.coin();
        c.segs = rng.range(0, 1) ? -1 : rng.range(1, nseg);
        do_run(cs, c, true, "event-kinds-no-frames");
        long nev = 0;
        for (auto& r : cs.recs)
          nev += r.is_time ? 0 : 1;
        RunCfg d = c;
        d.segs = -1;
        d.num_events = rng.range(1, static_cast<int>(nev / 2) + 2);
        const RunResult a = do_run(cs, d, true, "event-kinds-num-events");
        RunCfg d2 = d;
        d2.segs = rng.range(1, nseg);
        const RunResult b = do_run(cs, d2, true, "event-kinds-num-events-batches");
        ++g_checks;
        if (!a.err && !b.err && !same_frames(a, b))
          oracle_fail("event kinds / real file: num_events_to_store result depends on the batch sizes: " + run_line(d2));
      }
      if (variant == 3)
        {
          // history of the file reader: a file WITH a crystal map (here: a map that is rotated by one crystal) has been read, then a
          // file WITHOUT crystal map is read through read_from_file: its events must be decoded with the scanner's own detectors
          const std::string base2 = dir + "/safir" + std::to_string(ci);
          try
            {
              {
                std::ofstream m((base2 + "_map2.txt").c_str());
                files.push_back(base2 + "_map2.txt");
                m.precision(9);
                for (int ring = 0; ring < R; ++ring)
                  for (int det = 0; det < N; ++det)
                    {
                      const CartesianCoordinate3D<float> c = cs.scanner->get_coordinate_for_det_pos(DetectionPosition<>((det + 1) % N, ring, 0));
                      m << ring << "\t" << det << "\t0\t" << c.x() << "\t" << c.y() << "\t" << c.z() << "\n";
                    }
              }
              {
                std::ofstream par((base2 + "_b.par").c_str());
                files.push_back(base2 + "_b.par");
                par << "CListModeDataSAFIR Parameters:=\nlistmode data filename:= " << base2 << ".clm.safir\ntemplate projection data filename:= "
                    << base2 << "_tpl.hs\ncrystal map filename:= " << base2 << "_map2.txt\nEND CListModeDataSAFIR Parameters:=\n";
              }
              {
                std::ofstream par((base2 + "_c.par").c_str());
                files.push_back(base2 + "_c.par");
                par << "CListModeDataSAFIR Parameters:=\nlistmode data filename:= " << base2 << ".clm.safir\ntemplate projection data filename:= "
                    << base2 << "_tpl.hs\nEND CListModeDataSAFIR Parameters:=\n";
              }
              shared_ptr<ListModeData> with_map(read_from_file<ListModeData>(base2 + "_b.par"));
              with_map.reset();
              bool same = true;
              std::string herr;
              try
                {
                  shared_ptr<ListModeData> no_map(read_from_file<ListModeData>(base2 + "_c.par"));
                  shared_ptr<ListRecord> rec = no_map->get_empty_record_sptr();
                  std::size_t k = 0;
                  while (same && no_map->get_next_record(*rec) == Succeeded::yes && k < cs.recs.size())
                    {
                      const Rec& r = cs.recs[k++];
                      if (r.is_time || !rec->is_event())
                        continue;
                      Bin b;
                      b.set_bin_value(1.f);
                      rec->event().get_bin(b, tpl);
                      const Decoded d = decode_independent(tpl, r);
                      same = in_template(tpl, b) == d.valid
                             && (!d.valid || Key(b.timing_pos_num(), b.segment_num(), b.view_num(), b.axial_pos_num(), b.tangential_pos_num()) == d.key);
                    }
                }
              catch (...)
                {
                  herr = "exception";
                }
              ++g_checks;
              g_stat["evk_reader_histories"]++;
              if (!same || !herr.empty())
                {
                  g_stat["evk_known_reader_keeps_crystal_map"]++;
                  known_candidate("safir-reader:crystal-map-of-the-previous-file-is-kept",
                                  "SAFIRCListmodeInputFileFormat (the registered object that read_from_file<ListModeData> uses) never resets its "
                                  "parsing variables: after a parameter file WITH 'crystal map filename' has been read, a parameter file WITHOUT that key "
                                  "is read with the crystal map of the earlier file (error if that file is gone; otherwise the events are binned "
                                  "through the other file's crystal coordinates, e.g. a map rotated by one crystal moves every event by one view); "
                                  "lor_randomization_sigma is kept in the same way and is uninitialised for the first file");
                }
            }
          catch (...)
            {
              ++g_checks;
              oracle_fail("SAFIR file: reading the same list-mode file with another crystal map failed");
            }
        }
      for (auto& f : files)
        ::unlink(f.c_str());
    }
}
} // namespace evk

int
main(int argc, char** argv)
{
  if (argc < 5)
    return 2;
  vh::quiet();
  vh::Rng rng(std::strtoull(argv[1], nullptr, 10) * 1315423911ULL + 14);
  const bool thorough = std::string(argv[2]) == "thorough";
  // optional 5th argument (development only): "hist" = family 1 only, "lmobj" = family 2 only
  const std::string only = argc > 5 ? argv[5] : "";
  g_ops = std::fopen(argv[3], "w");
  g_out = std::fopen(argv[4], "w");
  g_orc = std::fopen((std::string(argv[4]) + ".oracle").c_str(), "w");
  {
    std::string d(argv[3]);
    const std::size_t p = d.find_last_of('/');
    d = p == std::string::npos ? std::string(".") : d.substr(0, p);
    g_tmpdir = d + "/C14_tmp_" + argv[2] + "_" + argv[1] + "_" + std::to_string(static_cast<long>(::getpid()));
    ::mkdir(g_tmpdir.c_str(), 0777);
  }
  // LmToProjData reports progress on cerr/cout
  if (!std::getenv("C14_DEBUG"))
    {
      std::freopen("/dev/null", "w", stderr);
      std::freopen("/dev/null", "w", stdout);
    }

  // ------------------------------------------------------------------ fixed reproduction of the finding
  {
    Case cs;
    cs.scanner = vh::make_scanner(8, 2, -1);
    cs.lm_pdi = vh::make_pdi(cs.scanner, 1, 1, 4, 3, false, 0);
    cs.tpl = vh::make_pdi(cs.scanner, 1, 1, 4, 3, false, 0);
    auto ev = [](int d1, int d2) {
      Rec r;
      r.d1 = d1;
      r.d2 = d2;
      return r;
    };
    auto tm = [](unsigned long ms) {
      Rec r;
      r.is_time = true;
      r.ms = ms;
      return r;
    };
    cs.recs = { tm(500), ev(0, 4), tm(2500), ev(1, 5), tm(2700), ev(2, 6), tm(3500) };
    cs.has_delayeds = false;
    emit_cfg(*cs.tpl);
    emit(stream_line(*cs.tpl, cs.lm_pdi, cs.recs), "ok " + std::to_string(cs.recs.size()));
    RunCfg c;
    c.storeD = false;
    c.frames = { { 0, 1000 }, { 1000, 2000 }, { 2000, 3000 } };
    do_run(cs, c, true, "fixed-gap-case");
    // the same stream with a mark inside every frame: must be exact
    cs.recs = { tm(500), ev(0, 4), tm(1500), tm(2500), ev(1, 5), tm(2700), ev(2, 6), tm(3500) };
    emit(stream_line(*cs.tpl, cs.lm_pdi, cs.recs), "ok " + std::to_string(cs.recs.size()));
    do_run(cs, c, true, "fixed-nogap-case");
  }

  // ------------------------------------------------------------------ fixed reproduction of the second finding:
  // num_events_to_store together with frames given through set_time_frame_definitions
  {
    Case cs;
    cs.scanner = vh::make_scanner(8, 2, -1);
    cs.lm_pdi = vh::make_pdi(cs.scanner, 1, 1, 4, 3, false, 0);
    cs.tpl = vh::make_pdi(cs.scanner, 1, 1, 4, 3, false, 0);
    auto ev = [](int d1, int d2) {
      Rec r;
      r.d1 = d1;
      r.d2 = d2;
      return r;
    };
    auto tm = [](unsigned long ms) {
      Rec r;
      r.is_time = true;
      r.ms = ms;
      return r;
    };
    cs.recs = { tm(400), ev(0, 4), ev(1, 5), ev(2, 6), tm(500), ev(3, 7) };
    cs.has_delayeds = false;
    emit_cfg(*cs.tpl);
    emit(stream_line(*cs.tpl, cs.lm_pdi, cs.recs), "ok " + std::to_string(cs.recs.size()));
    RunCfg c;
    c.storeD = false;
    c.num_events = 1;
    c.frames = { { 100, 200 }, { 300, 400 } };
    c.in_memory = 2;
    RunResult a = do_run(cs, c, false, "fixed-hybrid-all-in-memory");
    c.segs = 1;
    RunResult b = do_run(cs, c, false, "fixed-hybrid-one-segment-in-memory");
    check_hybrid_batches(a, b, c);
  }

  // ------------------------------------------------------------------ generated cases
  const int ncases = (only != "" && only != "hist") ? 0 : (thorough ? 2000 : 240);
  for (int ci = 0; ci < ncases; ++ci)
    {
      Case cs;
      // ---- geometry
      static const int Ns[] = { 8, 12, 16, 20, 24 };
      const int N = Ns[rng.range(0, 4)];
      const int R = rng.range(1, 4);
      int max_tof = -1, tof_mash = 0;
      if (rng.range(0, 2) != 0)
        {
          static const int tofs[][2] = { { 5, 1 }, { 5, 5 }, { 9, 1 }, { 9, 3 }, { 9, 9 }, { 15, 1 }, { 15, 3 }, { 15, 5 }, { 15, 2 }, { 7, 1 } };
          const int k = rng.range(0, 9);
          max_tof = tofs[k][0];
          tof_mash = rng.range(0, 5) == 0 ? 0 : tofs[k][1]; // sometimes a non-TOF template for TOF list mode data
        }
      cs.scanner = vh::make_scanner(N, R, max_tof);
      int span = rng.range(0, 2) == 0 ? 1 : (rng.coin() ? 3 : 2);
      if (R == 1)
        span = 1;
      const int max_delta = rng.range(0, R - 1);
      std::vector<int> mashes;
      for (int m = 1; m <= N / 2; ++m)
        if ((N / 2) % m == 0)
          mashes.push_back(m);
      const int mash = rng.coin() ? 1 : mashes[rng.range(0, static_cast<int>(mashes.size()) - 1)];
      const int views = N / 2 / mash;
      const int full_tang = std::max(1, N / 2 - 1);
      const int num_tang = rng.range(0, 2) == 0 ? full_tang : rng.range(1, full_tang);
      try
        {
          cs.lm_pdi = vh::make_pdi(cs.scanner, 1, R - 1, N / 2, full_tang, false, max_tof > 0 ? 1 : 0);
          cs.tpl = vh::make_pdi(cs.scanner, span, max_delta, views, num_tang, false, tof_mash);
        }
      catch (...)
        {
          g_stat["geometry_rejected"]++;
          continue;
        }
      if (!dynamic_cast<const ProjDataInfoCylindricalNoArcCorr*>(cs.tpl.get()))
        continue;
      const ProjDataInfoCylindricalNoArcCorr& tpl = dynamic_cast<const ProjDataInfoCylindricalNoArcCorr&>(*cs.tpl);
      const int nseg = tpl.get_num_segments();
      const int ntof = tpl.get_num_tof_poss();
      g_stat["cases"]++;
      // Interfile round trip of the output is not possible for every generated geometry (even span: "does not seem to
      // contain segment 0"; TOF mashed to one bin: header not readable): those use one ProjDataInMemory per frame
      const bool file_safe = span != 2 && !(tof_mash > 0 && ntof == 1);
      auto out_mode = [&]() -> int { return file_safe && rng.range(0, 9) < 6 ? 0 : 2; };
      g_stat[std::string("span") + std::to_string(span)]++;
      g_stat[ntof > 1 ? "tof_templates" : "nontof_templates"]++;
      if (mash > 1)
        g_stat["view_mashed"]++;
      if (num_tang < full_tang)
        g_stat["tang_trimmed"]++;

      // ---- stream
      // kind 0: regular (monotone, dense marks)  1: gaps (marks may jump over frames)  2: malformed (marks go back)
      const int kind = (ci % 10 == 7) ? 1 : (ci % 10 == 9 ? 2 : 0);
      const int nrec = rng.range(10, thorough ? 260 : 160);
      const int tp_half = max_tof > 0 ? max_tof / 2 : 0;
      std::vector<long> mark_times;
      long now = rng.range(0, 3) == 0 ? 0 : rng.range(0, 400);
      bool any_delayed = false;
      const int p_time = rng.range(8, 35); // percent of time marks
      for (int i = 0; i < nrec; ++i)
        {
          Rec r;
          // some streams start with events before the first time mark
          if (rng.range(0, 99) < p_time && !(i == 0 && rng.coin()))
            {
              r.is_time = true;
              r.ms = static_cast<unsigned long>(now);
              mark_times.push_back(now);
              cs.recs.push_back(r);
              long step = rng.range(0, 9) == 0 ? 0 : rng.range(1, 120);
              if (kind == 1 && rng.range(0, 3) == 0)
                step = rng.range(300, 2500);
              now += step;
              if (kind == 2 && rng.range(0, 3) == 0)
                now = std::max<long>(0, now - rng.range(1, 400));
              continue;
            }
          r.prompt = rng.range(0, 3) != 0;
          any_delayed = any_delayed || !r.prompt;
          if (rng.range(0, 9) < 7)
            {
              r.d1 = rng.range(0, N - 1);
              do
                r.d2 = rng.range(0, N - 1);
              while (r.d2 == r.d1);
              r.r1 = rng.range(0, R - 1);
              r.r2 = rng.range(0, R - 1);
              r.tp = rng.range(-tp_half, tp_half);
            }
          else
            {
              // raw bin: segment and view inside the template, the other coordinates up to 2 outside
              r.raw = true;
              const int seg = rng.range(tpl.get_min_segment_num(), tpl.get_max_segment_num());
              const int out = rng.range(0, 9); // 0..3: one coordinate outside, 4: rejected by the decoder, else inside
              int ax = rng.range(tpl.get_min_axial_pos_num(seg), tpl.get_max_axial_pos_num(seg));
              int tang = rng.range(tpl.get_min_tangential_pos_num(), tpl.get_max_tangential_pos_num());
              int tof = rng.range(tpl.get_min_tof_pos_num(), tpl.get_max_tof_pos_num());
              const int by = rng.range(1, 2);
              if (out == 0)
                ax = rng.coin() ? tpl.get_min_axial_pos_num(seg) - by : tpl.get_max_axial_pos_num(seg) + by;
              if (out == 1)
                tang = rng.coin() ? tpl.get_min_tangential_pos_num() - by : tpl.get_max_tangential_pos_num() + by;
              if (out == 2)
                tof = rng.coin() ? tpl.get_min_tof_pos_num() - by : tpl.get_max_tof_pos_num() + by;
              if (out == 3)
                {
                  ax = tpl.get_max_axial_pos_num(seg) + 1;
                  tang = tpl.get_min_tangential_pos_num() - 1;
                }
              r.rawbin = Bin(seg, rng.range(tpl.get_min_view_num(), tpl.get_max_view_num()), ax, tang, tof, out == 4 ? (rng.coin() ? 0.F : -1.F) : 1.F);
            }
          cs.recs.push_back(r);
        }
      cs.has_delayeds = any_delayed || rng.range(0, 5) == 0;
      const long t_end = now;
      g_stat[kind == 0 ? "streams_regular" : (kind == 1 ? "streams_with_gaps" : "streams_nonmonotone")]++;

      // ---- glue oracle (e): event.get_bin == get_bin_for_det_pos_pair + ranges of the decoder
      {
        SynRecord rec(cs.lm_pdi);
        for (auto& r : cs.recs)
          if (!r.is_time && !r.raw)
            {
              rec.load(r);
              Bin b1;
              b1.set_bin_value(1.f);
              rec.event().get_bin(b1, tpl);
              Bin b2;
              const DetectionPositionPair<> dp(DetectionPosition<>(r.d1, r.r1, 0), DetectionPosition<>(r.d2, r.r2, 0), r.tp);
              const bool ok2 = tpl.get_bin_for_det_pos_pair(b2, dp) == Succeeded::yes;
              ++g_checks;
              const bool ok1 = b1.get_bin_value() > 0;
              if (ok1 != ok2
                  || (ok1
                      && (b1.segment_num() != b2.segment_num() || b1.view_num() != b2.view_num() || b1.axial_pos_num() != b2.axial_pos_num()
                          || b1.tangential_pos_num() != b2.tangential_pos_num() || b1.timing_pos_num() != b2.timing_pos_num())))
                oracle_fail("event.get_bin differs from get_bin_for_det_pos_pair for det pair " + std::to_string(r.d1) + "," + std::to_string(r.r1)
                            + " " + std::to_string(r.d2) + "," + std::to_string(r.r2) + " tof " + std::to_string(r.tp));
            }
      }

      emit_cfg(tpl);
      emit(stream_line(tpl, cs.lm_pdi, cs.recs), "ok " + std::to_string(cs.recs.size()));

      // ---- frame sets
      auto pick_boundary = [&]() -> long {
        // mostly exactly on a time mark ("events on frame boundaries"), else anywhere
        if (!mark_times.empty() && rng.range(0, 3) != 0)
          return mark_times[rng.range(0, static_cast<int>(mark_times.size()) - 1)];
        return rng.range(0, static_cast<int>(t_end + 200));
      };
      const int nframesets = thorough ? 3 : 2;
      for (int fs = 0; fs < nframesets; ++fs)
        {
          RunCfg base;
          base.in_memory = out_mode();
          const int sm = rng.range(0, 5);
          base.storeP = sm != 4;
          base.storeD = sm != 3 && sm != 5 ? true : false;
          if (sm == 4)
            base.storeD = true;
          // sm 0,1,2: (1,1)  3,5: (1,0)  4: (0,1)
          // frames; a third of the frame sets are given through a frame definition FILE: their boundaries avoid the
          // time marks (the file's durations are accumulated in floating point)
          const bool want_file = rng.range(0, 2) == 0;
          std::set<long> bs;
          const int nb = rng.range(2, 5);
          for (int k = 0; k < nb + 3 && static_cast<int>(bs.size()) < nb; ++k)
            {
              long b = pick_boundary();
              if (b <= 10)
                b = rng.coin() ? 0 : 11 + rng.range(0, 50);
              while (want_file && b != 0 && std::find(mark_times.begin(), mark_times.end(), b) != mark_times.end())
                ++b;
              bs.insert(b);
            }
          if (rng.range(0, 2) == 0)
            bs.insert(0);
          if (rng.range(0, 3) == 0)
            bs.insert(t_end + rng.range(100, 1000)); // frame reaching beyond the end of the data
          if (want_file && !mark_times.empty() && mark_times[0] == 0)
            bs.erase(0);
          std::vector<long> b(bs.begin(), bs.end());
          if (b.size() < 2)
            b.push_back(b.back() + 50);
          const bool partition = rng.range(0, 2) != 0;
          for (std::size_t k = 0; k + 1 < b.size(); ++k)
            {
              if (!partition && rng.range(0, 2) == 0 && k + 2 < b.size())
                continue; // leave a gap between frames
              if (b[k + 1] <= 10)
                continue;
              base.frames.push_back(std::make_pair(b[k], b[k + 1]));
            }
          if (base.frames.empty())
            base.frames.push_back(std::make_pair(b[0], std::max<long>(b[1], 11)));
          const bool is_partition = [&] {
            for (std::size_t k = 0; k + 1 < base.frames.size(); ++k)
              if (base.frames[k].second != base.frames[k + 1].first)
                return false;
            return true;
          }();
          const bool monotone = marks_monotone(cs.recs);
          const bool oracle_ok = monotone; // for marks that go back in time "the time of an event" is not defined: correspondence only
          if (frame_in_gap(cs.recs, base.frames))
            g_stat["framesets_with_frame_in_gap"]++;
          g_stat[is_partition ? "framesets_partition" : "framesets_with_gaps"]++;
          g_stat["frames"] += static_cast<long>(base.frames.size());

          // reference run: everything in memory at once (default -1/-1)
          base.frames_from_file = want_file && !boundary_on_mark(cs.recs, base.frames);
          if (base.frames_from_file)
            {
              g_stat["frames_from_file_runs"]++;
              if (rng.coin())
                base.num_events = rng.range(1, 20); // ignored: the file switches to time frames
            }
          RunResult ref = do_run(cs, base, oracle_ok, "default-batches");
          base.frames_from_file = false;
          base.num_events = 0;

          // (b) every num_segments_in_memory, with some num_TOF_bins_in_memory
          std::vector<std::pair<int, int>> batches;
          for (int s = 1; s <= nseg + 1; ++s) // nseg+1: clamped by set_up
            {
              int tb = -1;
              if (ntof > 1)
                {
                  const int z = rng.range(0, 2);
                  tb = z == 0 ? 1 : (z == 1 ? rng.range(1, ntof) : -1);
                }
              batches.push_back(std::make_pair(s, tb));
            }
          for (int tb = 1; tb <= ntof + 1 && ntof > 1; ++tb)
            if (thorough || tb <= 3 || tb >= ntof)
              batches.push_back(std::make_pair(rng.range(0, 3) == 0 ? -1 : rng.range(1, nseg), tb));
          for (auto& sb : batches)
            {
              RunCfg c = base;
              c.segs = sb.first;
              c.tofs = sb.second;
              c.in_memory = out_mode();
              RunResult r = do_run(cs, c, oracle_ok, "batches");
              // batch independence holds for every stream (also malformed ones)
              ++g_checks;
              if (!ref.err && !r.err)
                {
                  bool same = r.frames.size() == ref.frames.size();
                  for (std::size_t k = 0; same && k < r.frames.size(); ++k)
                    same = same_hist(r.frames[k], ref.frames[k]);
                  if (!same)
                    oracle_fail("result depends on num_segments_in_memory/num_TOF_bins_in_memory: " + run_line(c) + " vs default");
                }
              g_stat["batch_runs"]++;
            }

          // (c) frames of a partition add up to the histogram of the whole interval
          if (is_partition && base.frames.size() > 1 && !ref.err)
            {
              RunCfg c = base;
              c.frames.clear();
              c.frames.push_back(std::make_pair(base.frames.front().first, base.frames.back().second));
              c.segs = rng.range(0, 1) ? -1 : rng.range(1, nseg);
              RunResult whole = do_run(cs, c, oracle_ok && !frame_in_gap(cs.recs, base.frames), "whole-interval");
              if (!whole.err && monotone)
                {
                  Hist sum;
                  for (auto& h : ref.frames)
                    sum = add_hist(sum, h);
                  ++g_checks;
                  if (!same_hist(sum, whole.frames[0]))
                    {
                      if (frame_in_gap(cs.recs, base.frames))
                        known_candidate("lm2pd:frame-inside-time-mark-gap",
                                        "LmToProjData::process_data: frames of a partition do not add up to the whole interval when two "
                                        "consecutive time marks jump over a whole frame");
                      else
                        oracle_fail("frames of a partition do not add up to the histogram of the whole interval: " + run_line(base));
                    }
                  g_stat["frames_add_checks"]++;
                }
            }

          // in-memory output (last frame only), max segment to process
          if (rng.range(0, 2) == 0)
            {
              RunCfg c = base;
              c.in_memory = 1;
              c.segs = rng.range(1, nseg);
              do_run(cs, c, oracle_ok, "in-memory-output");
            }
          if (tpl.get_max_segment_num() > 0 && rng.range(0, 1) == 0)
            {
              RunCfg c = base;
              c.max_seg_proc = rng.range(0, tpl.get_max_segment_num());
              c.segs = rng.range(0, 1) ? -1 : rng.range(1, 2 * c.max_seg_proc + 1);
              do_run(cs, c, oracle_ok, "max-segment-to-process");
              g_stat["max_seg_runs"]++;
            }
        }

      // ---- no frame definitions: the whole stream
      {
        RunCfg c;
        c.in_memory = out_mode();
        c.storeP = true;
        c.storeD = rng.coin();
        c.segs = rng.range(0, 1) ? -1 : rng.range(1, nseg);
        do_run(cs, c, true, "no-frames");
      }

      // ---- (d) num_events_to_store
      {
        long nev = 0;
        for (auto& r : cs.recs)
          nev += r.is_time ? 0 : 1;
        for (int k = 0; k < 3; ++k)
          {
            RunCfg c;
          c.in_memory = out_mode();
            c.in_memory = out_mode();
        c.in_memory = out_mode();
            const int sm = rng.range(0, 2);
            c.storeP = sm != 2;
            c.storeD = sm != 1;
            c.num_events = k == 0 ? 1 : rng.range(1, static_cast<int>(nev / (sm == 0 ? 3 : 1)) + 3);
            RunResult ref = do_run(cs, c, true, "num-events");
            RunCfg c2 = c;
            c2.segs = rng.range(1, nseg);
            c2.tofs = ntof > 1 ? rng.range(1, ntof) : -1;
            RunResult r2 = do_run(cs, c2, true, "num-events-batches");
            ++g_checks;
            if (!ref.err && !r2.err && !same_hist(ref.frames[0], r2.frames[0]))
              oracle_fail("num_events_to_store result depends on the batch sizes: " + run_line(c2));
            g_stat["num_events_runs"] += 2;
          }
        // frames given through the setter together with num_events_to_store: hybrid mode of the code
        // (start times honoured, end times not): correspondence with the model only
        if (rng.range(0, 2) == 0)
          {
            RunCfg c;
          c.in_memory = out_mode();
            c.in_memory = out_mode();
        c.in_memory = out_mode();
            c.num_events = rng.range(1, static_cast<int>(nev / 2) + 2);
            const long a = pick_boundary(), b = a + rng.range(20, 600), d = b + rng.range(0, 300);
            c.frames = { { a, std::max<long>(b, 11) }, { std::max<long>(b, 11), std::max<long>(d, 12) } };
            c.segs = rng.range(0, 1) ? -1 : rng.range(1, nseg);
            RunResult ha = do_run(cs, c, false, "num-events-with-frames");
            RunCfg c2 = c;
            c2.segs = c.segs == -1 ? rng.range(1, nseg) : -1;
            c2.tofs = ntof > 1 ? 1 : -1;
            RunResult hb = do_run(cs, c2, false, "num-events-with-frames-batches");
            check_hybrid_batches(ha, hb, c2);
            g_stat["hybrid_runs"] += 2;
          }
      }

      // ---- malformed configurations: error branches
      if (ci % 6 == 0)
        {
          RunCfg c;
          c.in_memory = out_mode();
        c.in_memory = out_mode();
          c.storeP = false;
          c.storeD = false; // "At least one of store_prompts or store_delayeds should be true"
          c.frames = { { 0, 1000 } };
          do_run(cs, c, false, "store-nothing");
          g_stat["malformed_runs"]++;
        }
    }

  // ------------------------------------------------------------------ family 2: the list-mode objective function
  if (only == "" || only == "lmobj")
    {
      vh::Rng rng2(std::strtoull(argv[1], nullptr, 10) * 2654435761ULL + 1414);
      lmo::run_family(rng2, thorough);
    }

  // ------------------------------------------------------------------ family 3: normalisation in LmToProjData
  if (only == "" || only == "norm")
    {
      vh::Rng rng3(std::strtoull(argv[1], nullptr, 10) * 40503ULL + 141403);
      nrm::run_family(rng3, thorough);
    }

  // ------------------------------------------------------------------ family 4: other event classes, real list-mode files
  if (only == "" || only == "events")
    {
      vh::Rng rng4(std::strtoull(argv[1], nullptr, 10) * 69069ULL + 141404);
      evk::run_family(rng4, thorough);
    }

  std::fprintf(g_orc, "STATS");
  for (auto& kv : g_stat)
    std::fprintf(g_orc, " %s=%ld", kv.first.c_str(), kv.second);
  std::fprintf(g_orc, "\n");
  std::fprintf(g_orc, "ORACLE-DONE checks=%ld fails=%ld\n", g_checks, g_fails);
  std::fclose(g_ops);
  std::fclose(g_out);
  std::fclose(g_orc);
  ::rmdir(g_tmpdir.c_str());
  return 0;
}
