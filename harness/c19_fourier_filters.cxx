// C19 — implementation side: Fourier transforms invert; filters are the convolutions they claim to be.
// Drives the REAL STIR API in-process:
//   fourier / inverse_fourier / fourier_for_real_data / inverse_fourier_for_real_data / pos_frequencies_to_all
//     (src/numerics_buildblock/fourier.cxx, 1-3 dimensions, all power-of-two lengths, both signs);
//   ArrayFilter1DUsingConvolution (zero/constant/periodic boundary conditions, 1- and 2-argument call),
//   ArrayFilter1DUsingConvolutionSymmetricKernel, ArrayFilter2DUsingConvolution, ArrayFilter3DUsingConvolution,
//   ArrayFilterUsingRealDFTWithPadding<1|2|3>, SeparableArrayFunctionObject<3>, SeparableConvolutionImageFilter (parsed),
//   SeparableGaussianArrayFilter<3>, SeparableMetzArrayFilter<3>;
//   get_influencing_indices / get_influenced_indices / is_trivial of the filter classes (op `rng`), the frequency-space
//   constructor / set_kernel_in_frequency_space / set_padding_range of ArrayFilterUsingRealDFTWithPadding (ops `dftfq`, `dftfh`,
//   `padr`), the in-place operator() of the 2-D / 3-D / DFT filters (`conv2ip`, `conv3ip`, `dftfip`), and
//   apply_array_functions_on_each_index (ArrayFunction.inl, the consumer of get_influencing_indices; op `sepoo`).
// Usage: c19_fourier_filters <seed> <quick|thorough> <opsfile> <implfile>
// One operation per line in <opsfile>, the implementation's answer per line in <implfile>, and the verdicts of the
// property's own statement evaluated on the implementation in <implfile>.oracle.
//
// Number formats: integer-valued data as decimal integers (exact in float), other floats as C99 hex (%a).
#include "common.h"
#include <algorithm>
// ArrayFunction.inl:255-272 (the ArrayFunctionObject specialisation of apply_array_functions_on_each_index) calls min/max
// unqualified; nothing in the library instantiates it.  To be able to drive it (sepoo_cases) the names must be visible
// where the template is defined:
using std::max;
using std::min;
#include "stir/Array.h"
#include "stir/Array_complex_numbers.h"
#include "stir/IndexRange.h"
#include "stir/BasicCoordinate.h"
#include "stir/numerics/fourier.h"
#include "stir/ArrayFilter1DUsingConvolution.h"
#include "stir/ArrayFilter1DUsingConvolutionSymmetricKernel.h"
#include "stir/ArrayFilter2DUsingConvolution.h"
#include "stir/ArrayFilter3DUsingConvolution.h"
#include "stir/ArrayFilterUsingRealDFTWithPadding.h"
#include "stir/SeparableArrayFunctionObject.h"
#include "stir/ArrayFunction.h"
#include "stir/modulo.h"
#include "stir/SeparableGaussianArrayFilter.h"
#include "stir/SeparableMetzArrayFilter.h"
#include "stir/SeparableConvolutionImageFilter.h"
#include "stir/VoxelsOnCartesianGrid.h"
#include "stir/Verbosity.h"
#include "stir/Succeeded.h"
#include <complex>
#include <cmath>
#include <algorithm>
#include <set>
#include <unistd.h>
#include <fcntl.h>

using namespace stir;
typedef std::complex<float> cf;
typedef std::complex<double> cd;

static const double EPS = 1.0 / 16777216.0; // 2^-24
static const double PI = 3.14159265358979323846;

// ---------------------------------------------------------------------------------------------- boxes
struct Box
{
  int d;
  int mn[3];
  int mx[3];
  int len(int k) const { return std::max(0, mx[k] - mn[k] + 1); }
  long size() const
  {
    long s = 1;
    for (int k = 0; k < d; ++k)
      s *= len(k);
    return s;
  }
  bool contains(const int* idx) const
  {
    for (int k = 0; k < d; ++k)
      if (idx[k] < mn[k] || idx[k] > mx[k])
        return false;
    return true;
  }
  long flat(const int* idx) const
  {
    long f = 0;
    for (int k = 0; k < d; ++k)
      f = f * len(k) + (idx[k] - mn[k]);
    return f;
  }
  void first(int* idx) const
  {
    for (int k = 0; k < 3; ++k)
      idx[k] = k < d ? mn[k] : 0;
  }
  bool next(int* idx) const
  {
    for (int k = d - 1; k >= 0; --k)
      {
        if (++idx[k] <= mx[k])
          return true;
        idx[k] = mn[k];
      }
    return false;
  }
  std::string str() const
  {
    std::ostringstream s;
    for (int k = 0; k < d; ++k)
      s << (k ? " " : "") << mn[k] << " " << mx[k];
    return s.str();
  }
};

static Box
box_sizes(int d, const int* n)
{
  Box b;
  b.d = d;
  for (int k = 0; k < 3; ++k)
    {
      b.mn[k] = 0;
      b.mx[k] = k < d ? n[k] - 1 : 0;
    }
  return b;
}

struct Arr
{
  Box b;
  std::vector<double> v; // row-major
  double at0(const int* idx) const { return b.contains(idx) ? v[b.flat(idx)] : 0.0; }
};

template <int D>
static IndexRange<D>
to_range(const Box& b)
{
  BasicCoordinate<D, int> lo, hi;
  for (int k = 0; k < D; ++k)
    {
      lo[k + 1] = b.mn[k];
      hi[k + 1] = b.mx[k];
    }
  return IndexRange<D>(lo, hi);
}

template <int D>
static Array<D, float>
mk(const Arr& a)
{
  Array<D, float> r(to_range<D>(a.b));
  typename Array<D, float>::full_iterator it = r.begin_all();
  for (std::size_t i = 0; i < a.v.size(); ++i, ++it)
    *it = static_cast<float>(a.v[i]);
  return r;
}

template <int D>
static Array<D, float>
mk_filled(const Box& b, float val)
{
  Array<D, float> r(to_range<D>(b));
  r.fill(val);
  return r;
}

template <int D, class T>
static std::vector<T>
flat(const Array<D, T>& a)
{
  std::vector<T> r;
  for (typename Array<D, T>::const_full_iterator it = a.begin_all_const(); it != a.end_all_const(); ++it)
    r.push_back(*it);
  return r;
}

// ---------------------------------------------------------------------------------------------- output
struct Ctx
{
  FILE* ops;
  FILE* out;
  FILE* orc;
  long checks = 0, fails = 0;
  vh::Rng rng;
  bool thorough;
  explicit Ctx(uint64_t s) : rng(s) {}
  void emit(const std::string& op, const std::string& ans)
  {
    std::fprintf(ops, "%s\n", op.c_str());
    std::fprintf(out, "%s\n", ans.c_str());
  }
  bool check(bool ok, const std::string& text)
  {
    ++checks;
    if (!ok)
      {
        ++fails;
        std::fprintf(orc, "ORACLE-FAIL %s\n", text.c_str());
        std::fflush(orc); // keep the verdict if the implementation crashes later on
      }
    return ok;
  }
  std::set<std::string> reported_keys;
  // a failing oracle case that belongs to a described class of inputs (one line per class and run)
  void candidate(const std::string& key, const std::string& text)
  {
    ++checks;
    ++fails;
    if (reported_keys.insert(key).second)
      std::fprintf(orc, "KNOWN-CANDIDATE %s %s\n", key.c_str(), text.c_str());
  }
};

static std::string
num(double x)
{
  // integer-valued (and small): decimal; otherwise exact hex
  if (x == std::floor(x) && std::fabs(x) < 1e9)
    {
      char buf[32];
      std::snprintf(buf, sizeof buf, "%ld", static_cast<long>(x));
      return buf;
    }
  return vh::hex(x);
}

static std::string
nums(const std::vector<double>& v)
{
  std::string s;
  for (std::size_t i = 0; i < v.size(); ++i)
    {
      if (i)
        s += ' ';
      s += num(v[i]);
    }
  return s;
}
static std::string
nums(const std::vector<float>& v)
{
  return nums(std::vector<double>(v.begin(), v.end()));
}
static std::string
nums(const std::vector<cf>& v)
{
  std::string s;
  for (std::size_t i = 0; i < v.size(); ++i)
    {
      if (i)
        s += ' ';
      s += num(v[i].real());
      s += ' ';
      s += num(v[i].imag());
    }
  return s;
}
static std::string
arr_str(const Arr& a)
{
  return a.b.str() + (a.v.empty() ? "" : " ") + nums(a.v);
}
static std::string
itos(long x)
{
  return std::to_string(x);
}

// ---------------------------------------------------------------------------------------------- Fourier part
template <int D>
static Array<D, cf>
mkc(const Box& b, const std::vector<cf>& v)
{
  Array<D, cf> r(to_range<D>(b));
  typename Array<D, cf>::full_iterator it = r.begin_all();
  for (std::size_t i = 0; i < v.size(); ++i, ++it)
    *it = v[i];
  return r;
}

static double
norm2(const std::vector<cf>& v)
{
  double s = 0;
  for (auto& x : v)
    s += double(x.real()) * x.real() + double(x.imag()) * x.imag();
  return std::sqrt(s);
}
static double
norm2(const std::vector<float>& v)
{
  double s = 0;
  for (auto& x : v)
    s += double(x) * x;
  return std::sqrt(s);
}
static double
maxdiff(const std::vector<cf>& a, const std::vector<cf>& b)
{
  if (a.size() != b.size())
    return 1e300;
  double m = 0;
  for (std::size_t i = 0; i < a.size(); ++i)
    m = std::max(m, (double)std::abs(cd(a[i]) - cd(b[i])));
  return m;
}
static double
maxdiff(const std::vector<float>& a, const std::vector<float>& b)
{
  if (a.size() != b.size())
    return 1e300;
  double m = 0;
  for (std::size_t i = 0; i < a.size(); ++i)
    m = std::max(m, std::fabs(double(a[i]) - double(b[i])));
  return m;
}

static float
rnd_unit(vh::Rng& r)
{
  // exactly representable in float: k / 2^16, k in [-2^16, 2^16]
  return static_cast<float>(r.range(-65536, 65536)) / 65536.F;
}

static std::string
sizes_str(int d, const int* n)
{
  std::string s = itos(d);
  for (int k = 0; k < d; ++k)
    s += " " + itos(n[k]);
  return s;
}

static const char* const KEY_REAL2 = "real-inverse:last-dimension-of-length-2-rejected";

// data kinds: 0,1 random; 2 unit impulse at a random position; 3 unit impulse at 0; 4 constant; 5 small integers
template <int D>
static void
fft_case(Ctx& c, const int* n, int sign, int kind)
{
  const Box b = box_sizes(D, n);
  const long N = b.size();
  const std::string hdr = sizes_str(D, n) + " " + itos(sign);
  const double L2 = std::log2(double(N)) + 2;
  std::vector<cf> x(N, cf(0, 0));
  int p[3] = { 0, 0, 0 };
  if (kind == 2)
    {
      for (int k = 0; k < D; ++k)
        p[k] = c.rng.range(0, n[k] - 1);
      x[b.flat(p)] = cf(1, 0);
    }
  else if (kind == 3)
    x[0] = cf(1, 0);
  else if (kind == 4)
    std::fill(x.begin(), x.end(), cf(0.75F, -0.5F));
  else if (kind == 5)
    for (auto& e : x)
      e = cf(float(c.rng.range(-8, 8)), float(c.rng.range(-8, 8)));
  else
    for (auto& e : x)
      e = cf(rnd_unit(c.rng), rnd_unit(c.rng));
  const double nx = norm2(x);
  const std::string what = "dims=" + sizes_str(D, n) + " sign=" + itos(sign) + " kind=" + itos(kind);

  // ---- forward, complex
  Array<D, cf> X = mkc<D>(b, x);
  fourier(X, sign);
  const std::vector<cf> Xv = flat(X);
  c.emit("fft " + hdr + " " + nums(x), nums(Xv));
  // ---- inverse, complex
  {
    Array<D, cf> Y = mkc<D>(b, x);
    inverse_fourier(Y, sign);
    c.emit("ifft " + hdr + " " + nums(x), nums(flat(Y)));
  }
  // ORACLE inversion: inverse_fourier(fourier(x)) == x
  {
    Array<D, cf> Y(X);
    inverse_fourier(Y, sign);
    const double d = maxdiff(flat(Y), x);
    c.check(d <= 16 * L2 * EPS * nx + 1e-30, "inversion inverse_fourier(fourier(x))!=x " + what + " maxdiff=" + vh::hex(d));
  }
  // ORACLE Parseval: sum |X|^2 == N sum |x|^2
  {
    const double a = norm2(Xv) * norm2(Xv), e = double(N) * nx * nx;
    c.check(std::fabs(a - e) <= 32 * L2 * EPS * e + 1e-30, "parseval sum|X|^2 != N sum|x|^2 " + what + " got=" + vh::hex(a) + " expected=" + vh::hex(e));
  }
  // ORACLE impulse -> constant modulus (and the constant 1 for an impulse at the origin)
  if (kind == 2 || kind == 3)
    {
      bool ok = true;
      int idx[3];
      b.first(idx);
      long f = 0;
      do
        {
          double ph = 0;
          for (int k = 0; k < D; ++k)
            ph += double((long(p[k]) * idx[k]) % n[k]) / n[k];
          const cd e = std::polar(1.0, sign * 2 * PI * ph);
          if (std::abs(cd(Xv[f]) - e) > 16 * L2 * EPS)
            ok = false;
          ++f;
      } while (b.next(idx));
      c.check(ok, "impulse transform of a unit impulse is not the constant-modulus phase ramp " + what);
    }

  // ---- real data (last dimension even)
  if (n[D - 1] % 2 == 0)
    {
      std::vector<float> v(N);
      for (long i = 0; i < N; ++i)
        v[i] = x[i].real();
      Arr va;
      va.b = b;
      va.v.assign(v.begin(), v.end());
      const Array<D, float> V = mk<D>(va);
      const Array<D, cf> R = fourier_for_real_data(V, sign);
      const std::vector<cf> Rv = flat(R);
      c.emit("rfft " + hdr + " " + nums(v), nums(Rv));
      const Array<D, cf> A = pos_frequencies_to_all(R);
      const std::vector<cf> Av = flat(A);
      c.emit("p2a " + hdr + " " + nums(Rv), nums(Av));
      // the inverse real-data transform rejects a last dimension of length 2 (its guard tests n = length/2 for evenness)
      Array<D, float> W;
      bool inv_err = false;
      try
        {
          W = inverse_fourier_for_real_data(R, sign);
        }
      catch (...)
        {
          inv_err = true;
        }
      c.emit("irfft " + hdr + " " + nums(Rv), inv_err ? std::string("err") : nums(flat(W)));
      // ORACLE real-data and complex-data transforms agree
      {
        std::vector<cf> xr(N);
        for (long i = 0; i < N; ++i)
          xr[i] = cf(v[i], 0);
        Array<D, cf> C = mkc<D>(b, xr);
        fourier(C, sign);
        const double d = maxdiff(Av, flat(C));
        c.check(d <= 16 * L2 * EPS * std::sqrt(double(N)) * norm2(v) + 1e-30,
                "real-vs-complex pos_frequencies_to_all(fourier_for_real_data(v)) != fourier(v) " + what + " maxdiff=" + vh::hex(d));
      }
      // ORACLE inversion for real data
      if (inv_err)
        {
          if (n[D - 1] == 2)
            {
                c.candidate(KEY_REAL2, "inverse_fourier_for_real_data(fourier_for_real_data(v)) calls error() when the last dimension has length 2 although the forward transform "
                                       "accepts it: the guard in inverse_fourier_1d_for_real_data_corrupting_input tests n = length/2 (=1) for evenness instead of the length; "
                                       "first seen at " + what);
            }
          else
            c.check(false, "inversion-real inverse_fourier_for_real_data raised an error " + what);
        }
      else
        {
          const double d = maxdiff(flat(W), v);
          c.check(d <= 16 * L2 * EPS * norm2(v) + 1e-30, "inversion-real inverse_fourier_for_real_data(fourier_for_real_data(v))!=v " + what + " maxdiff=" + vh::hex(d));
        }
      // arbitrary (not Hermitian-consistent) half spectrum through pos_frequencies_to_all and the inverse: correspondence only
      if (kind == 0)
        {
          std::vector<cf> r2(Rv.size());
          for (auto& e : r2)
            e = cf(float(c.rng.range(-8, 8)), float(c.rng.range(-8, 8)));
          int nr[3] = { n[0], n[1], n[2] };
          nr[D - 1] = n[D - 1] / 2 + 1;
          const Box rb = box_sizes(D, nr);
          const Array<D, cf> R2 = mkc<D>(rb, r2);
          c.emit("p2a " + hdr + " " + nums(r2), nums(flat(pos_frequencies_to_all(R2))));
          std::string a2;
          try
            {
              a2 = nums(flat(inverse_fourier_for_real_data(R2, sign)));
            }
          catch (...)
            {
              a2 = "err";
            }
          c.emit("irfft " + hdr + " " + nums(r2), a2);
        }
    }
}

template <int D>
static void
fft_error_case(Ctx& c, const int* n, int sign)
{
  const Box b = box_sizes(D, n);
  std::vector<cf> x(b.size());
  for (auto& e : x)
    e = cf(float(c.rng.range(-4, 4)), float(c.rng.range(-4, 4)));
  const std::string hdr = sizes_str(D, n) + " " + itos(sign);
  {
    Array<D, cf> X = mkc<D>(b, x);
    std::string ans;
    try
      {
        fourier(X, sign);
        ans = nums(flat(X));
      }
    catch (...)
      {
        ans = "err";
      }
    c.emit("fft " + hdr + " " + nums(x), ans);
  }
  {
    std::vector<float> v(x.size());
    Arr va;
    va.b = b;
    for (std::size_t i = 0; i < x.size(); ++i)
      va.v.push_back(x[i].real());
    std::string ans;
    try
      {
        ans = nums(flat(fourier_for_real_data(mk<D>(va), sign)));
      }
    catch (...)
      {
        ans = "err";
      }
    c.emit("rfft " + hdr + " " + nums(va.v), ans);
  }
}

static void
fourier_part(Ctx& c)
{
  const int max1 = c.thorough ? 1024 : 128;
  // 1D: all power-of-two lengths (and length 1), both signs, all data kinds
  for (int n = 1; n <= max1; n *= 2)
    for (int sign = -1; sign <= 1; sign += 2)
      for (int kind = 0; kind <= 5; ++kind)
        {
          int nn[3] = { n, 1, 1 };
          fft_case<1>(c, nn, sign, kind);
        }
  if (!c.thorough)
    // quick tier: the lengths 256, 512, 1024 with one random and one structured data set each
    for (int n = 256; n <= 1024; n *= 2)
      {
        int nn[3] = { n, 1, 1 };
        const int sign = c.rng.coin() ? 1 : -1;
        fft_case<1>(c, nn, sign, 0);
        fft_case<1>(c, nn, -sign, c.rng.range(2, 5));
      }
  // 2D
  const long cap2 = c.thorough ? 16384 : 1024;
  const int max2 = c.thorough ? 128 : 32;
  for (int a = 1; a <= max2; a *= 2)
    for (int bb = 1; bb <= max2; bb *= 2)
      if (long(a) * bb <= cap2)
        for (int sign = -1; sign <= 1; sign += 2)
          {
            int nn[3] = { a, bb, 1 };
            fft_case<2>(c, nn, sign, 0);
            fft_case<2>(c, nn, sign, c.rng.range(2, 5));
            if (c.thorough)
              fft_case<2>(c, nn, sign, 1);
          }
  // 3D
  const long cap3 = c.thorough ? 8192 : 512;
  const int max3 = c.thorough ? 32 : 16;
  for (int a = 1; a <= max3; a *= 2)
    for (int bb = 1; bb <= max3; bb *= 2)
      for (int cc = 1; cc <= max3; cc *= 2)
        if (long(a) * bb * cc <= cap3)
          {
            const int sign = c.rng.coin() ? 1 : -1;
            int nn[3] = { a, bb, cc };
            fft_case<3>(c, nn, sign, 0);
            fft_case<3>(c, nn, -sign, c.rng.range(2, 5));
          }
  // error branches: lengths that are not a power of two, odd last dimension for real data
  {
    const int bad1[] = { 3, 5, 6, 7, 12, 24, 100 };
    for (int n : bad1)
      {
        int nn[3] = { n, 1, 1 };
        fft_error_case<1>(c, nn, c.rng.coin() ? 1 : -1);
      }
    const int bad2[][2] = { { 3, 4 }, { 4, 3 }, { 4, 6 }, { 6, 4 }, { 2, 5 }, { 5, 2 } };
    for (auto& q : bad2)
      {
        int nn[3] = { q[0], q[1], 1 };
        fft_error_case<2>(c, nn, 1);
      }
    const int bad3[][3] = { { 2, 2, 3 }, { 2, 3, 2 }, { 3, 2, 2 }, { 2, 4, 6 } };
    for (auto& q : bad3)
      {
        int nn[3] = { q[0], q[1], q[2] };
        fft_error_case<3>(c, nn, -1);
      }
  }
}

// ---------------------------------------------------------------------------------------------- convolution part
static Arr
rand_arr(vh::Rng& r, int d, const int* mn, const int* len, int lo, int hi)
{
  Arr a;
  a.b.d = d;
  for (int k = 0; k < 3; ++k)
    {
      a.b.mn[k] = k < d ? mn[k] : 0;
      a.b.mx[k] = k < d ? mn[k] + len[k] - 1 : 0;
    }
  a.v.resize(a.b.size());
  for (auto& x : a.v)
    x = r.range(lo, hi);
  return a;
}

// the definition: out_i = sum_j k_j * in~_{i-j};  bc 0: in~ = zero extension, bc 1: in~ = nearest element (1D)
static std::vector<double>
conv_spec(const Arr& k, const Arr& in, const Box& ob, int bc)
{
  std::vector<double> out(ob.size(), 0.0);
  if (ob.size() == 0)
    return out;
  int i[3];
  ob.first(i);
  long f = 0;
  do
    {
      double s = 0;
      if (k.b.size() > 0)
        {
          int j[3];
          k.b.first(j);
          do
            {
              int m[3];
              for (int q = 0; q < 3; ++q)
                m[q] = i[q] - j[q];
              if (bc == 1)
                for (int q = 0; q < in.b.d; ++q)
                  m[q] = std::min(std::max(m[q], in.b.mn[q]), in.b.mx[q]);
              s += k.v[k.b.flat(j)] * in.at0(m);
          } while (k.b.next(j));
        }
      out[f++] = s;
  } while (ob.next(i));
  return out;
}

static bool
same(const std::vector<float>& a, const std::vector<double>& b)
{
  if (a.size() != b.size())
    return false;
  for (std::size_t i = 0; i < a.size(); ++i)
    if (double(a[i]) != b[i])
      return false;
  return true;
}

static bool
is_delta_at_origin(const Arr& k)
{
  int z[3] = { 0, 0, 0 };
  if (!k.b.contains(z))
    return false;
  for (std::size_t f = 0; f < k.v.size(); ++f)
    if (k.v[f] != ((long)f == k.b.flat(z) ? 1.0 : 0.0))
      return false;
  return true;
}


// ---------------------------------------------------------------------------------------------- index-range queries
static std::string
rng_answer(bool ok1, const IndexRange<1>& influencing, bool ok2, const IndexRange<1>& influenced, bool trivial)
{
  return (ok1 ? itos(influencing.get_min_index()) + " " + itos(influencing.get_max_index()) : std::string("no")) + " "
         + (ok2 ? itos(influenced.get_min_index()) + " " + itos(influenced.get_max_index()) : std::string("no")) + " " + itos(trivial);
}

static std::string
outer_str(const Box& b)
{
  return itos(b.mn[0]) + " " + itos(b.mx[0]);
}

// ORACLE for get_influenced_indices / get_influencing_indices (ArrayFunctionObject.h: "the range of indices that gets
// influenced by a set of coordinates input_indices" / "the range of indices that influences the result in output_indices"),
// along the OUTER index, evaluated on the implementation's own filter (`apply(in, ob)` runs the real filter):
//  (a) an output element whose outer index is outside the influenced range of the input's range is the value the boundary
//      condition gives to data that are not there: 0 (zero) / kernel-sum * nearest edge element (constant, 1-D);
//  (b) changing input elements outside the influencing range of the output's range does not change the output
//      (constant boundary condition: the edge elements stand for all indices beyond them, so an edge element may only
//      change when all of those are outside the range as well).
template <class Apply>
static void
range_oracle(Ctx& c, Apply apply, const Arr& k, const Arr& in, const Box& ob, int bc, int infl_lo, int infl_hi, int infd_lo, int infd_hi,
             const std::vector<float>& got, const std::string& what)
{
  if (ob.size() == 0 || in.b.size() == 0)
    return;
  // (a)
  {
    double ksum = 0;
    for (double e : k.v)
      ksum += e;
    bool ok = true;
    int bad = 0;
    int idx[3];
    ob.first(idx);
    long f = 0;
    do
      {
        if (idx[0] < infd_lo || idx[0] > infd_hi)
          {
            double expect = 0;
            if (bc == 1)
              expect = ksum * (idx[0] < infd_lo ? in.v.front() : in.v.back());
            if (double(got[f]) != expect)
              {
                ok = false;
                bad = idx[0];
              }
          }
        ++f;
    } while (ob.next(idx));
    c.check(ok, "influenced-range an output element outside get_influenced_indices(input range)=[" + itos(infd_lo) + "," + itos(infd_hi)
                    + "] is not the boundary-condition value (outer index " + itos(bad) + "): " + what + " got " + nums(got));
  }
  // (b)
  {
    Arr in2 = in;
    bool changed = false;
    int idx[3];
    in.b.first(idx);
    do
      {
        const int m = idx[0];
        bool may = m < infl_lo || m > infl_hi;
        if (bc == 1)
          {
            if (m == in.b.mn[0])
              may = may && m < infl_lo;
            if (m == in.b.mx[0])
              may = may && m > infl_hi;
          }
        if (may && c.rng.range(0, 2) != 0)
          {
            in2.v[in.b.flat(idx)] += c.rng.range(1, 5);
            changed = true;
          }
    } while (in.b.next(idx));
    if (changed)
      {
        const std::vector<float> got2 = apply(in2, ob);
        c.check(got2 == got, "influencing-range changing input elements outside get_influencing_indices(output range)=[" + itos(infl_lo) + "," + itos(infl_hi)
                                 + "] changed the output: " + what + " changed-input " + arr_str(in2) + " got " + nums(got) + " then " + nums(got2));
      }
  }
}

static void
conv1_cases(Ctx& c)
{
  const int ncases = c.thorough ? 6000 : 700;
  for (int t = 0; t < ncases; ++t)
    {
      vh::Rng& r = c.rng;
      int bc = r.range(0, 9) < 5 ? 0 : 1;
      if (r.range(0, 39) == 0)
        bc = 2;
      // kernel
      Arr k;
      const int kk = r.range(0, 19);
      if (kk == 0)
        { // empty kernel: "trivial"
          k.b.d = 1;
          k.b.mn[0] = 0;
          k.b.mx[0] = -1;
        }
      else if (kk == 1)
        { // [1] at index 0: trivial
          int mn[1] = { 0 }, len[1] = { 1 };
          k = rand_arr(r, 1, mn, len, 1, 1);
        }
      else if (kk == 2)
        { // single coefficient somewhere (shift / scale)
          int mn[1] = { r.range(-5, 5) }, len[1] = { 1 };
          k = rand_arr(r, 1, mn, len, -3, 3);
        }
      else
        {
          int mn[1] = { r.range(-7, 5) }, len[1] = { r.range(1, 7) };
          k = rand_arr(r, 1, mn, len, -4, 4);
        }
      // input: non-empty (constant boundary conditions read in[in_min]/in[in_max])
      int imn[1] = { r.range(-9, 9) }, ilen[1] = { r.range(1, 12) };
      const Arr in = rand_arr(r, 1, imn, ilen, -8, 8);
      const bool inplace = r.range(0, 3) == 0;
      Box ob = in.b;
      if (!inplace)
        {
          ob.mn[0] = in.b.mn[0] + r.range(-12, 8);
          ob.mx[0] = ob.mn[0] + r.range(1, 18) - 1;
        }
      VectorWithOffset<float> kv(k.b.mn[0], k.b.mx[0]);
      for (int j = k.b.mn[0]; j <= k.b.mx[0]; ++j)
        kv[j] = static_cast<float>(k.v[j - k.b.mn[0]]);
      if (k.b.size() == 0)
        kv = VectorWithOffset<float>();
      const BoundaryConditions::BC bcs[3] = { BoundaryConditions::zero, BoundaryConditions::constant, BoundaryConditions::periodic };
      ArrayFilter1DUsingConvolution<float> f(kv, bcs[bc]);
      std::string ans;
      std::vector<float> got;
      bool err = false;
      try
        {
          if (inplace)
            {
              Array<1, float> a = mk<1>(in);
              f(a);
              got = flat(a);
            }
          else
            {
              Array<1, float> o = mk_filled<1>(ob, 77.F);
              f(o, mk<1>(in));
              got = flat(o);
            }
          ans = nums(got);
        }
      catch (...)
        {
          ans = "err";
          err = true;
        }
      const std::string kstr = k.b.size() == 0 ? std::string("0 -1") : arr_str(k);
      c.emit(std::string(inplace ? "conv1ip " : "conv1 ") + itos(bc) + " K " + kstr + " X " + arr_str(in) + (inplace ? "" : " O " + ob.str()), ans);
      // ORACLE: the filter is the convolution it claims to be (class documentation: out_i = sum_j kernel_j in_{i-j},
      // elements outside the input range are 0 (zero) / the nearest element (constant)); an empty kernel is the identity filter
      if (!err)
        {
          Arr ke = k;
          if (k.b.size() == 0)
            {
              int mn[1] = { 0 }, len[1] = { 1 };
              ke = rand_arr(r, 1, mn, len, 1, 1);
            }
          const std::vector<double> exp = conv_spec(ke, in, ob, bc);
          c.check(same(got, exp),
                  "conv1d ArrayFilter1DUsingConvolution != sum_j k_j in_{i-j}: bc=" + itos(bc) + " K " + kstr + " X " + arr_str(in) + " O " + ob.str() + " got " + nums(got));
        }
      else
        c.check(bc == 2, "conv1d unexpected error for boundary condition " + itos(bc));
      // ---- get_influencing_indices / get_influenced_indices / is_trivial
      {
        IndexRange<1> infl, infd;
        const bool s1 = f.get_influencing_indices(infl, IndexRange<1>(ob.mn[0], ob.mx[0])) == Succeeded::yes;
        const bool s2 = f.get_influenced_indices(infd, IndexRange<1>(in.b.mn[0], in.b.mx[0])) == Succeeded::yes;
        c.emit("rng 1 K " + kstr + " I " + outer_str(in.b) + " O " + outer_str(ob), rng_answer(s1, infl, s2, infd, f.is_trivial()));
        c.check(s1 && s2, "influence-ranges ArrayFilter1DUsingConvolution does not report its index ranges");
        if (s1 && s2 && !err && !inplace)
          {
            Arr ke = k;
            if (k.b.size() == 0)
              {
                int mn[1] = { 0 }, len[1] = { 1 };
                ke = rand_arr(r, 1, mn, len, 1, 1);
              }
            auto apply = [&f](const Arr& i2, const Box& o2) {
              Array<1, float> o = mk_filled<1>(o2, 77.F);
              f(o, mk<1>(i2));
              return flat(o);
            };
            range_oracle(c, apply, ke, in, ob, bc, infl.get_min_index(), infl.get_max_index(), infd.get_min_index(), infd.get_max_index(), got,
                         "ArrayFilter1DUsingConvolution bc=" + itos(bc) + " K " + kstr + " X " + arr_str(in) + " O " + ob.str());
          }
      }
    }
}

static void
csym_cases(Ctx& c)
{
  const int ncases = c.thorough ? 3000 : 400;
  for (int t = 0; t < ncases; ++t)
    {
      vh::Rng& r = c.rng;
      int mn[1] = { 0 }, len[1] = { r.range(1, 6) };
      Arr k = rand_arr(r, 1, mn, len, -4, 4);
      if (r.range(0, 14) == 0)
        {
          len[0] = 1;
          k = rand_arr(r, 1, mn, len, 1, 1);
        }
      int imn[1] = { r.range(-9, 9) }, ilen[1] = { r.range(1, 12) };
      const Arr in = rand_arr(r, 1, imn, ilen, -8, 8);
      const bool inplace = r.coin();
      VectorWithOffset<float> kv(0, k.b.mx[0]);
      for (int j = 0; j <= k.b.mx[0]; ++j)
        kv[j] = static_cast<float>(k.v[j]);
      ArrayFilter1DUsingConvolutionSymmetricKernel<float> f(kv);
      std::vector<float> got;
      if (inplace)
        {
          Array<1, float> a = mk<1>(in);
          f(a);
          got = flat(a);
        }
      else
        {
          Array<1, float> o = mk_filled<1>(in.b, 77.F);
          f(o, mk<1>(in));
          got = flat(o);
        }
      c.emit(std::string(inplace ? "csymip" : "csym") + " K " + arr_str(k) + " X " + arr_str(in), nums(got));
      if (t % 4 == 0)
        { // this class does not override the index-range queries: "not a meaningful concept" (Succeeded::no)
          const ArrayFunctionObject<1, float>& base = f;
          IndexRange<1> a, b;
          const bool s1 = base.get_influencing_indices(a, IndexRange<1>(in.b.mn[0], in.b.mx[0])) == Succeeded::yes;
          const bool s2 = base.get_influenced_indices(b, IndexRange<1>(in.b.mn[0], in.b.mx[0])) == Succeeded::yes;
          c.emit("rng s K " + arr_str(k), std::string(s1 ? "yes" : "no") + " " + (s2 ? "yes" : "no") + " " + itos(f.is_trivial()));
        }
      // ORACLE: equals the convolution with the symmetrised kernel k_{|j|}, zero extension
      Arr ks;
      ks.b.d = 1;
      ks.b.mn[0] = -k.b.mx[0];
      ks.b.mx[0] = k.b.mx[0];
      ks.b.mn[1] = ks.b.mn[2] = ks.b.mx[1] = ks.b.mx[2] = 0;
      for (int j = ks.b.mn[0]; j <= ks.b.mx[0]; ++j)
        ks.v.push_back(k.v[std::abs(j)]);
      c.check(same(got, conv_spec(ks, in, in.b, 0)),
              "conv1d-symmetric ArrayFilter1DUsingConvolutionSymmetricKernel != sum_j k_|j| in_{i-j}: K " + arr_str(k) + " X " + arr_str(in) + " got " + nums(got));
    }
}

static const char* const KEY_TRIVIAL
    = "conv2d3d:is_trivial-looks-only-at-outer-extent-and-coefficient-at-origin";

// the real 2-D / 3-D filter on (in, ob); `empty`: the default-constructed object (no kernel)
template <int D>
static std::vector<float>
run_convnd(const Arr& k, bool empty, const Arr& in, const Box& ob, bool inplace)
{
  if (D == 2)
    {
      const ArrayFilter2DUsingConvolution<float> f = empty ? ArrayFilter2DUsingConvolution<float>() : ArrayFilter2DUsingConvolution<float>(mk<2>(k));
      if (inplace)
        {
          Array<2, float> a = mk<2>(in);
          f(a);
          return flat(a);
        }
      Array<2, float> o = mk_filled<2>(ob, 77.F);
      f(o, mk<2>(in));
      return flat(o);
    }
  const ArrayFilter3DUsingConvolution<float> f = empty ? ArrayFilter3DUsingConvolution<float>() : ArrayFilter3DUsingConvolution<float>(mk<3>(k));
  if (inplace)
    {
      Array<3, float> a = mk<3>(in);
      f(a);
      return flat(a);
    }
  Array<3, float> o = mk_filled<3>(ob, 77.F);
  f(o, mk<3>(in));
  return flat(o);
}

template <int D>
static void
convnd_case(Ctx& c, const Arr& k, const Arr& in, const Box& ob_, bool inplace = false)
{
  const bool empty = k.b.size() == 0; // default-constructed filter: no kernel, the identity
  const Box ob = inplace ? in.b : ob_;
  const std::vector<float> got = run_convnd<D>(k, empty, in, ob, inplace);
  const std::string kstr = empty ? (D == 2 ? std::string("0 -1 0 -1") : std::string("0 -1 0 -1 0 -1")) : arr_str(k);
  c.emit(std::string(D == 2 ? "conv2" : "conv3") + (inplace ? "ip" : "") + " K " + kstr + " X " + arr_str(in) + (inplace ? "" : " O " + ob.str()), nums(got));
  // the convolution the class claims to be (no kernel: the identity = convolution with the unit impulse at the origin)
  Arr ke = k;
  if (empty)
    {
      ke.b.d = D;
      for (int q = 0; q < 3; ++q)
        ke.b.mn[q] = ke.b.mx[q] = 0;
      ke.v.assign(1, 1.0);
    }
  const bool ok = same(got, conv_spec(ke, in, ob, 0));
  const std::string text = std::string("ArrayFilter") + (D == 2 ? "2D" : "3D") + "UsingConvolution" + (inplace ? " (in-place call)" : "") + " != sum_j k_j in_{i-j}: K " + kstr
                           + " X " + arr_str(in) + " O " + ob.str() + " got " + nums(got);
  int z[3] = { 0, 0, 0 };
  const bool trivial_class = !empty && k.b.mn[0] == 0 && k.b.mx[0] == 0 && k.b.contains(z) && k.v[k.b.flat(z)] == 1.0 && !is_delta_at_origin(k);
  if (!ok && trivial_class)
    c.candidate(KEY_TRIVIAL,
                std::string("ArrayFilter") + (D == 2 ? "2D" : "3D")
                    + "UsingConvolution::is_trivial() only tests the OUTER kernel extent (length 1 at index 0) and the coefficient at the origin == 1, so a kernel "
                      "with other non-zero coefficients in the inner dimension(s) is applied as the identity: K "
                    + arr_str(k) + " X " + arr_str(in) + " O " + ob.str() + " got " + nums(got));
  else
    c.check(ok, "convnd " + text);
  // ---- get_influencing_indices / get_influenced_indices (outer index) / is_trivial
  {
    IndexRange<1> infl, infd;
    bool s1, s2, triv;
    const IndexRange<1> orange(ob.mn[0], ob.mx[0]), irange(in.b.mn[0], in.b.mx[0]);
    if (D == 2)
      {
        const ArrayFilter2DUsingConvolution<float> f = empty ? ArrayFilter2DUsingConvolution<float>() : ArrayFilter2DUsingConvolution<float>(mk<2>(k));
        s1 = f.get_influencing_indices(infl, orange) == Succeeded::yes;
        s2 = f.get_influenced_indices(infd, irange) == Succeeded::yes;
        triv = f.is_trivial();
      }
    else
      {
        const ArrayFilter3DUsingConvolution<float> f = empty ? ArrayFilter3DUsingConvolution<float>() : ArrayFilter3DUsingConvolution<float>(mk<3>(k));
        s1 = f.get_influencing_indices(infl, orange) == Succeeded::yes;
        s2 = f.get_influenced_indices(infd, irange) == Succeeded::yes;
        triv = f.is_trivial();
      }
    c.emit("rng " + itos(D) + " K " + kstr + " I " + outer_str(in.b) + " O " + outer_str(ob), rng_answer(s1, infl, s2, infd, triv));
    c.check(s1 && s2, "influence-ranges ArrayFilter2D/3DUsingConvolution does not report its index ranges");
    if (s1 && s2 && !inplace)
      {
        auto apply = [&k, empty](const Arr& i2, const Box& o2) { return run_convnd<D>(k, empty, i2, o2, false); };
        range_oracle(c, apply, ke, in, ob, 0, infl.get_min_index(), infl.get_max_index(), infd.get_min_index(), infd.get_max_index(), got,
                     std::string("ArrayFilter") + (D == 2 ? "2D" : "3D") + "UsingConvolution K " + kstr + " X " + arr_str(in) + " O " + ob.str());
      }
  }
}

template <int D>
static void
convnd_cases(Ctx& c)
{
  // the fixed witness of the Lean theorems C19_conv2d_is_trivial_fails / C19_conv3d_is_trivial_fails, replayed on the implementation:
  // kernel [[2, 1, 3]] with outer extent(s) 0..0 and innermost range -1..1, input row [1, 2, 3, 4]
  {
    Arr k;
    k.b.d = D;
    Arr in;
    in.b.d = D;
    for (int q = 0; q < 3; ++q)
      k.b.mn[q] = k.b.mx[q] = in.b.mn[q] = in.b.mx[q] = 0;
    k.b.mn[D - 1] = -1;
    k.b.mx[D - 1] = 1;
    k.v = { 2, 1, 3 };
    in.b.mx[D - 1] = 3;
    in.v = { 1, 2, 3, 4 };
    convnd_case<D>(c, k, in, in.b);
  }
  const int ncases = c.thorough ? (D == 2 ? 2500 : 1200) : (D == 2 ? 300 : 160);
  for (int t = 0; t < ncases; ++t)
    {
      vh::Rng& r = c.rng;
      int kmn[3], klen[3], imn[3], ilen[3];
      for (int q = 0; q < D; ++q)
        {
          klen[q] = r.range(1, D == 2 ? 4 : 3);
          kmn[q] = r.range(-3, 2);
          ilen[q] = r.range(1, D == 2 ? 6 : 4);
          imn[q] = r.range(-4, 4);
        }
      if (klen[0] == 1 && kmn[0] == 0)
        // is_trivial() will read filter_coefficients[0][0]([0]): keep that inside the kernel's index range
        for (int q = 1; q < D; ++q)
          kmn[q] = -r.range(0, klen[q] - 1);
      Arr k = rand_arr(r, D, kmn, klen, -3, 3);
      const Arr in = rand_arr(r, D, imn, ilen, -8, 8);
      Box ob = in.b;
      for (int q = 0; q < D; ++q)
        {
          ob.mn[q] = in.b.mn[q] + r.range(-4, 3);
          ob.mx[q] = ob.mn[q] + r.range(1, D == 2 ? 8 : 5) - 1;
        }
      convnd_case<D>(c, k, in, ob, r.range(0, 4) == 0);
    }
  // the default-constructed filter (no kernel): the identity, out-of-place and in place
  {
    vh::Rng& r = c.rng;
    for (int v = 0; v < 2; ++v)
      {
        Arr k;
        k.b.d = D;
        for (int q = 0; q < 3; ++q)
          {
            k.b.mn[q] = 0;
            k.b.mx[q] = q < D ? -1 : 0;
          }
        int imn[3] = { r.range(-3, 3), r.range(-3, 3), r.range(-3, 3) }, ilen[3] = { r.range(1, 4), r.range(1, 4), r.range(1, 4) };
        const Arr in = rand_arr(r, D, imn, ilen, -8, 8);
        Box ob = in.b;
        for (int q = 0; q < D; ++q)
          {
            ob.mn[q] = in.b.mn[q] + r.range(-3, 2);
            ob.mx[q] = ob.mn[q] + r.range(1, 6) - 1;
          }
        convnd_case<D>(c, k, in, ob, v == 1);
      }
  }
  // the two deterministic members of the is_trivial class (finding), and a genuine delta kernel
  {
    vh::Rng& r = c.rng;
    for (int v = 0; v < 3; ++v)
      {
        int kmn[3] = { 0, v == 2 ? 0 : -1, v == 2 ? 0 : -1 }, klen[3] = { 1, v == 2 ? 1 : 3, v == 2 ? 1 : 3 };
        Arr k = rand_arr(r, D, kmn, klen, 2, 3);
        int z[3] = { 0, 0, 0 };
        k.v[k.b.flat(z)] = 1;
        int imn[3] = { 0, 0, 0 }, ilen[3] = { 2, 4, 4 };
        const Arr in = rand_arr(r, D, imn, ilen, 1, 8);
        convnd_case<D>(c, k, in, in.b);
      }
  }
}

// ---- padded-DFT route
static long
ipow2(int e)
{
  return 1L << e;
}


// the kernel in frequency space exactly as set_kernel() computes it: wrap-around copy to a 0-based array, real-data DFT
template <int D>
static Array<D, cf>
kernel_in_frequency_space(const Arr& k)
{
  BasicCoordinate<D, int> sizes;
  for (int q = 0; q < D; ++q)
    sizes[q + 1] = k.b.len(q);
  Array<D, float> k0{ IndexRange<D>(sizes) };
  transform_array_to_periodic_indices(k0, mk<D>(k));
  return fourier_for_real_data(k0);
}

static double
dft_tolerance(int D, const Arr& k, const Arr& in, const int* L)
{
  double k1 = 0, x2 = 0, NL = 1;
  for (double e : k.v)
    k1 += std::fabs(e);
  for (double e : in.v)
    x2 += e * e;
  for (int q = 0; q < D; ++q)
    NL *= L[q];
  return 32 * (std::log2(NL) + 2) * EPS * k1 * std::sqrt(x2) + 1e-30;
}

// Other ways of building / calling the same filter: the constructor taking the kernel in frequency space, the default
// constructor + set_kernel_in_frequency_space(), and the in-place operator().  ORACLE: each gives what the object constructed
// from the spatial kernel gives (`ans0` / `got0`, out-of-place call).
template <int D>
static void
dft_filter_variants(Ctx& c, const Arr& k, const Arr& in, const Box& ob, const int* L, const std::string& ans0, const std::vector<float>& got0)
{
  const int v = c.rng.range(0, 5);
  if (v > 2)
    return;
  const std::string kxo = " K " + arr_str(k) + " X " + arr_str(in);
  std::vector<float> got;
  std::string ans, op, what;
  const Box ob2 = v == 2 ? in.b : ob;
  try
    {
      if (v == 0)
        {
          op = "dftfq " + itos(D) + " c" + kxo + " O " + ob.str();
          what = "constructor(kernel in frequency space)";
          ArrayFilterUsingRealDFTWithPadding<D, float> f(kernel_in_frequency_space<D>(k));
          Array<D, float> o = mk_filled<D>(ob, 77.F);
          f(o, mk<D>(in));
          got = flat(o);
        }
      else if (v == 1)
        {
          op = "dftfq " + itos(D) + " s" + kxo + " O " + ob.str();
          what = "set_kernel_in_frequency_space";
          ArrayFilterUsingRealDFTWithPadding<D, float> f;
          const Array<D, cf> H = kernel_in_frequency_space<D>(k);
          if (f.set_kernel_in_frequency_space(H) != Succeeded::yes)
            throw 1;
          Array<D, float> o = mk_filled<D>(ob, 77.F);
          f(o, mk<D>(in));
          got = flat(o);
        }
      else
        {
          op = "dftfip " + itos(D) + kxo;
          what = "in-place operator()";
          ArrayFilterUsingRealDFTWithPadding<D, float> f(mk<D>(k));
          Array<D, float> a = mk<D>(in);
          f(a);
          got = flat(a);
        }
      ans = nums(got);
    }
  catch (...)
    {
      ans = "err";
    }
  c.emit(op, ans);
  if (v == 2)
    {
      // reference: the same object, out-of-place call onto the input's index range
      std::vector<float> ref;
      bool referr = false;
      try
        {
          ArrayFilterUsingRealDFTWithPadding<D, float> f(mk<D>(k));
          Array<D, float> o = mk_filled<D>(in.b, 77.F);
          f(o, mk<D>(in));
          ref = flat(o);
        }
      catch (...)
        {
          referr = true;
        }
      c.check(referr == (ans == "err") && (referr || maxdiff(got, ref) <= dft_tolerance(D, k, in, L)),
              "dft-filter-inplace ArrayFilterUsingRealDFTWithPadding: in-place operator() differs from the out-of-place call: K " + arr_str(k) + " X " + arr_str(in));
    }
  else
    c.check((ans0 == "err") == (ans == "err") && (ans == "err" || maxdiff(got, got0) <= dft_tolerance(D, k, in, L)),
            "dft-filter-frequency-kernel ArrayFilterUsingRealDFTWithPadding built by " + what + " from fourier_for_real_data(kernel) differs from the object built from the spatial kernel: K "
                + arr_str(k) + " X " + arr_str(in) + " O " + ob.str() + " spatial: " + (ans0 == "err" ? ans0 : nums(got0)) + " frequency: " + ans);
}

template <int D>
static void
dft_filter_case(Ctx& c, int mode)
{
  vh::Rng& r = c.rng;
  Arr k;
  k.b.d = D;
  int smin[3] = { 0, 0, 0 }, smax[3] = { 0, 0, 0 }; // support box of the kernel (inside its index range)
  int L[3] = { 1, 1, 1 };
  for (int q = 0; q < 3; ++q)
    k.b.mn[q] = k.b.mx[q] = 0;
  for (int q = 0; q < D; ++q)
    {
      const int emax = D == 1 ? (c.thorough ? 8 : 7) : (D == 2 ? 5 : 3);
      // last dimension: even length required by the real-data transform
      const int e = r.range(q == D - 1 ? 1 : 0, emax);
      L[q] = static_cast<int>(ipow2(e));
      const int pick = r.range(0, 5);
      int kmin = pick == 0 ? 0 : (pick <= 2 ? -(L[q] / 2) : (pick == 3 ? -(L[q] / 2) + 1 : r.range(-L[q] - 2, L[q] + 2)));
      if (mode == 0)
        kmin = -(L[q] / 2);
      if (q > 0 && k.b.mn[0] == 0 && k.b.mx[0] == 0 && (kmin > 0 || kmin + L[q] - 1 < 0))
        // ArrayFilter2D/3DUsingConvolution::is_trivial() (direct route of the oracle) reads filter_coefficients[0][0]([0]) unchecked
        kmin = -r.range(0, L[q] - 1);
      k.b.mn[q] = kmin;
      k.b.mx[q] = kmin + L[q] - 1;
      // support
      if (mode == 0 || r.range(0, 2) == 0)
        {
          smin[q] = k.b.mn[q];
          smax[q] = k.b.mx[q];
        }
      else
        {
          const int sl = r.range(1, std::max(1, std::min(L[q], 7)));
          smin[q] = k.b.mn[q] + r.range(0, L[q] - sl);
          smax[q] = smin[q] + sl - 1;
        }
    }
  k.v.assign(k.b.size(), 0.0);
  {
    int j[3];
    k.b.first(j);
    do
      {
        bool ins = true;
        for (int q = 0; q < D; ++q)
          ins = ins && j[q] >= smin[q] && j[q] <= smax[q];
        if (ins)
          k.v[k.b.flat(j)] = r.range(-4, 4);
    } while (k.b.next(j));
  }
  // input / output ranges
  int imn[3] = { 0, 0, 0 }, ilen[3] = { 1, 1, 1 };
  Box ob;
  ob.d = D;
  for (int q = 0; q < 3; ++q)
    ob.mn[q] = ob.mx[q] = 0;
  for (int q = 0; q < D; ++q)
    {
      if (mode == 0)
        { // the documented use: data (input and output) no longer than half the padded length, kernel centred
          ilen[q] = r.range(1, std::max(1, L[q] / 2));
          imn[q] = r.range(-6, 6);
          ob.mn[q] = imn[q];
          ob.mx[q] = imn[q] + ilen[q] - 1;
        }
      else if (mode == 1)
        { // no wrap-around by construction: every difference i-m stays within (smax-L, smin+L)
          // differences range over [omin-imax, omax-imin]; choose the input first, then fit the output
          ilen[q] = r.range(1, std::max(1, std::min(L[q], 10)));
          imn[q] = r.range(-6, 6);
          const int imax = imn[q] + ilen[q] - 1;
          const int lo = smax[q] - L[q] + 1 + imax; // omin >= lo
          const int hi = smin[q] + L[q] - 1 + imn[q]; // omax <= hi
          if (lo > hi)
            {
              ob.mn[q] = lo;
              ob.mx[q] = lo; // cannot happen (hi-lo = L-1-(smax-smin) + L-1-(ilen-1) >= 0 as ilen<=L), kept for safety
            }
          else
            {
              ob.mn[q] = r.range(lo, hi);
              ob.mx[q] = r.range(ob.mn[q], std::min(hi, ob.mn[q] + 11));
            }
        }
      else
        { // arbitrary: wrap-around of kernel and data may occur (correspondence with the model only)
          ilen[q] = r.range(1, std::min(2 * L[q] + 1, 12));
          imn[q] = r.range(-6, 6);
          ob.mn[q] = imn[q] + r.range(-5, 5);
          ob.mx[q] = ob.mn[q] + r.range(1, std::min(2 * L[q] + 2, 12)) - 1;
        }
    }
  const Arr in = rand_arr(r, D, imn, ilen, -8, 8);
  std::vector<float> got;
  std::string ans;
  try
    {
      ArrayFilterUsingRealDFTWithPadding<D, float> f(mk<D>(k));
      Array<D, float> o = mk_filled<D>(ob, 77.F);
      f(o, mk<D>(in));
      got = flat(o);
      ans = nums(got);
    }
  catch (...)
    {
      ans = "err";
    }
  c.emit("dftf " + itos(D) + " K " + arr_str(k) + " X " + arr_str(in) + " O " + ob.str(), ans);
  dft_filter_variants<D>(c, k, in, ob, L, ans, got);
  if (ans == "err")
    {
      if (L[D - 1] == 2)
        c.candidate(KEY_REAL2, "ArrayFilterUsingRealDFTWithPadding with a kernel of length 2 in the last dimension: inverse_fourier_for_real_data calls error() (guard tests "
                               "length/2 for evenness); K " + k.b.str());
      else
        c.check(false, "dft-filter unexpected error for power-of-two kernel K " + k.b.str());
      return;
    }
  // ORACLE: DFT route == direct route whenever no wrap-around can occur
  bool nowrap = true;
  for (int q = 0; q < D; ++q)
    {
      const int tmin = ob.mn[q] - in.b.mx[q], tmax = ob.mx[q] - in.b.mn[q];
      nowrap = nowrap && in.b.len(q) <= L[q] && tmin > smax[q] - L[q] && tmax < smin[q] + L[q];
    }
  if (nowrap)
    {
      std::vector<float> direct;
      if (D == 1)
        {
          VectorWithOffset<float> kv(k.b.mn[0], k.b.mx[0]);
          for (int j = k.b.mn[0]; j <= k.b.mx[0]; ++j)
            kv[j] = static_cast<float>(k.v[j - k.b.mn[0]]);
          ArrayFilter1DUsingConvolution<float> f(kv);
          Array<1, float> o = mk_filled<1>(ob, 77.F);
          f(o, mk<1>(in));
          direct = flat(o);
        }
      else if (D == 2)
        {
          ArrayFilter2DUsingConvolution<float> f(mk<2>(k));
          Array<2, float> o = mk_filled<2>(ob, 77.F);
          f(o, mk<2>(in));
          direct = flat(o);
        }
      else
        {
          ArrayFilter3DUsingConvolution<float> f(mk<3>(k));
          Array<3, float> o = mk_filled<3>(ob, 77.F);
          f(o, mk<3>(in));
          direct = flat(o);
        }
      const double tol = dft_tolerance(D, k, in, L);
      const double d = maxdiff(got, direct);
      int z[3] = { 0, 0, 0 };
      if (d > tol && D > 1 && k.b.mn[0] == 0 && k.b.mx[0] == 0 && k.b.contains(z) && k.v[k.b.flat(z)] == 1.0 && !is_delta_at_origin(k))
        c.candidate(KEY_TRIVIAL, "direct route (ArrayFilter2D/3DUsingConvolution) applied a non-delta kernel as the identity, DFT route did not: K " + arr_str(k));
      else
      c.check(d <= tol,
              "dft-vs-direct padded-DFT route != direct convolution although no wrap-around can occur: mode=" + itos(mode) + " K " + arr_str(k) + " X " + arr_str(in) + " O " + ob.str()
                  + " maxdiff=" + vh::hex(d) + " tol=" + vh::hex(tol));
    }
}

static void
dft_filter_cases(Ctx& c)
{
  // the fixed witness of the Lean theorem C19_twice_alone_insufficient, replayed on the implementation (correspondence only):
  // kernel [1,1,1,1] on 0..3 (not centred), data [1,1] on 0..1: wrap-around reaches k[3], the DFT route gives 2 at index 0
  {
    Arr k, in;
    k.b.d = in.b.d = 1;
    for (int q = 0; q < 3; ++q)
      k.b.mn[q] = k.b.mx[q] = in.b.mn[q] = in.b.mx[q] = 0;
    k.b.mx[0] = 3;
    k.v = { 1, 1, 1, 1 };
    in.b.mx[0] = 1;
    in.v = { 1, 1 };
    ArrayFilterUsingRealDFTWithPadding<1, float> f(mk<1>(k));
    Array<1, float> o = mk_filled<1>(in.b, 77.F);
    f(o, mk<1>(in));
    c.emit("dftf 1 K " + arr_str(k) + " X " + arr_str(in) + " O " + in.b.str(), nums(flat(o)));
  }
  const int n1 = c.thorough ? 1500 : 240, n2 = c.thorough ? 600 : 90, n3 = c.thorough ? 300 : 45;
  for (int t = 0; t < n1; ++t)
    dft_filter_case<1>(c, t % 3);
  for (int t = 0; t < n2; ++t)
    dft_filter_case<2>(c, t % 3);
  for (int t = 0; t < n3; ++t)
    dft_filter_case<3>(c, t % 3);
  // error branches: kernel lengths that the real-data transform cannot handle
  const int badlen[] = { 1, 3, 5, 6, 12 };
  for (int bl : badlen)
    {
      int mn[1] = { c.rng.range(-3, 3) }, len[1] = { bl };
      const Arr k = rand_arr(c.rng, 1, mn, len, -3, 3);
      int imn[1] = { 0 }, ilen[1] = { 3 };
      const Arr in = rand_arr(c.rng, 1, imn, ilen, -3, 3);
      std::string ans;
      try
        {
          ArrayFilterUsingRealDFTWithPadding<1, float> f(mk<1>(k));
          Array<1, float> o = mk_filled<1>(in.b, 77.F);
          f(o, mk<1>(in));
          ans = nums(flat(o));
        }
      catch (...)
        {
          ans = "err";
        }
      c.emit("dftf 1 K " + arr_str(k) + " X " + arr_str(in) + " O " + in.b.str(), ans);
    }
}


// ---- ArrayFilterUsingRealDFTWithPadding: kernels given in frequency space
static bool
pow2(int n)
{
  return n > 0 && (n & (n - 1)) == 0;
}

// set_kernel_in_frequency_space / the complex constructor / set_padding_range: which index ranges are accepted, and which padding
// range results (private: observed as the period of the response of the identity filter H = 1 to a unit impulse)
template <int D>
static void
padr_case(Ctx& c, int t)
{
  vh::Rng& r = c.rng;
  Box fb;
  fb.d = D;
  for (int q = 0; q < 3; ++q)
    fb.mn[q] = fb.mx[q] = 0;
  const int shifted = t % 4 == 1 ? r.range(0, D - 1) : -1;      // a dimension whose index range does not start at 0
  const bool irregular = D == 2 && t % 8 == 6;                   // rows of different lengths
  const int badsize = t % 8 == 3 ? r.range(0, D - 1) : -1;       // a dimension whose (padded) length is not a power of two
  for (int q = 0; q < D; ++q)
    {
      int len;
      if (q == D - 1)
        {
          const int n = q == badsize ? (r.coin() ? 3 : 6) : (1 << r.range(0, D == 1 ? 4 : 3));
          len = n + 1;
        }
      else
        len = q == badsize ? (r.coin() ? 3 : 6) : (1 << r.range(0, 3));
      if (irregular && q == 0)
        len = std::max(len, 2);
      fb.mn[q] = q == shifted ? (r.coin() ? 1 : -r.range(1, 3)) : 0;
      fb.mx[q] = fb.mn[q] + len - 1;
    }
  Array<D, cf> H(to_range<D>(fb));
  if constexpr (D == 2)
    {
      if (irregular)
        {
          VectorWithOffset<IndexRange<1>> rows(fb.mn[0], fb.mx[0]);
          for (int i = fb.mn[0]; i <= fb.mx[0]; ++i)
            rows[i] = IndexRange<1>(fb.mn[1], fb.mx[1] + (i == fb.mn[0] ? 1 : 0));
          H = Array<2, cf>(IndexRange<2>(rows));
        }
    }
  H.fill(cf(1.F, 0.F));
  ArrayFilterUsingRealDFTWithPadding<D, float> f;
  const bool yes = f.set_kernel_in_frequency_space(H) == Succeeded::yes;
  bool ctor_ok = true;
  try
    {
      ArrayFilterUsingRealDFTWithPadding<D, float> g(H);
    }
  catch (...)
    {
      ctor_ok = false;
    }
  const std::string what = std::string("frequency-space kernel with index range ") + fb.str() + (irregular ? " (irregular)" : "");
  c.check(yes == ctor_ok, "dft-filter-frequency-kernel constructor and set_kernel_in_frequency_space disagree on accepting a " + what);
  // documentation of set_kernel_in_frequency_space: "The kernel has to be given with index ranges starting from 0."
  c.check(yes == (!irregular && shifted < 0), std::string("dft-filter-frequency-kernel set_kernel_in_frequency_space ") + (yes ? "accepted" : "rejected") + " a " + what);
  std::string ans = "no";
  if (yes && (irregular || shifted >= 0))
    ans = "yes (not applied)"; // accepted although documented as not acceptable: reported above; applying it may crash
  else if (yes)
    {
      ans = "yes";
      bool identity = true;
      try
        {
          for (int q = 0; q < D; ++q)
            {
              Arr in;
              in.b.d = D;
              Box ob;
              ob.d = D;
              for (int w = 0; w < 3; ++w)
                in.b.mn[w] = in.b.mx[w] = ob.mn[w] = ob.mx[w] = 0;
              in.v.assign(1, 1.0);
              ob.mx[q] = 40;
              Array<D, float> o = mk_filled<D>(ob, 77.F);
              f(o, mk<D>(in));
              const std::vector<float> v = flat(o);
              int period = 0;
              for (int i = 0; i <= 40; ++i)
                {
                  const bool one = std::fabs(v[i] - 1.F) <= 1e-5F, zero = std::fabs(v[i]) <= 1e-5F;
                  identity = identity && (one || zero);
                  if (one && i > 0 && period == 0)
                    period = i;
                }
              ans += " " + itos(period);
            }
        }
      catch (...)
        {
          ans = "yes err";
        }
      bool good = true;
      for (int q = 0; q < D; ++q)
        good = good && pow2(q == D - 1 ? fb.len(q) - 1 : fb.len(q));
      if (ans == "yes err")
        {
          if (good && fb.len(D - 1) == 2)
            c.candidate(KEY_REAL2, "ArrayFilterUsingRealDFTWithPadding with a frequency-space kernel of 2 elements in the last dimension (padded length 2): "
                                   "inverse_fourier_for_real_data calls error(); F " + fb.str());
          else
            c.check(!good, "dft-filter-frequency-kernel applying the filter raised an error although all padded lengths are powers of two: " + what);
        }
      else
        c.check(identity, "dft-filter-frequency-kernel the kernel 1 in frequency space is not the identity filter (periodically repeated): " + what + " periods " + ans);
    }
  c.emit("padr " + itos(D) + " " + itos(irregular) + " F " + fb.str(), ans);
  // is_trivial and the (default) index-range queries through the base class
  {
    const ArrayFunctionObject<D, float>& base = f;
    IndexRange<D> a, b;
    const bool s1 = base.get_influencing_indices(a, to_range<D>(fb)) == Succeeded::yes, s2 = base.get_influenced_indices(b, to_range<D>(fb)) == Succeeded::yes;
    c.emit("rng d " + itos(long(H.size_all())) + " 1 0", std::string(s1 ? "yes" : "no") + " " + (s2 ? "yes" : "no") + " " + itos(f.is_trivial()));
  }
}

static void
dft_trivial_cases(Ctx& c)
{
  const ArrayFilterUsingRealDFTWithPadding<1, float> f0;
  c.emit("rng d 0 0 0", std::string("no no ") + itos(f0.is_trivial()));
  c.check(f0.is_trivial(), "dft-filter-trivial default-constructed ArrayFilterUsingRealDFTWithPadding is not trivial");
  for (int v = 0; v < 3; ++v)
    {
      Array<1, cf> H(IndexRange<1>(0, v == 2 ? 1 : 0));
      H.fill(cf(v == 1 ? 2.F : 1.F, 0.F));
      ArrayFilterUsingRealDFTWithPadding<1, float> f;
      f.set_kernel_in_frequency_space(H);
      c.emit("rng d " + itos(long(H.size_all())) + " " + num(H[0].real()) + " " + num(H[0].imag()), std::string("no no ") + itos(f.is_trivial()));
    }
}

// an arbitrary kernel H in frequency space (not necessarily the transform of a real kernel): out = IDFT(DFT(in) * H)
template <int D>
static void
dftfh_case(Ctx& c, int t)
{
  vh::Rng& r = c.rng;
  int L[3] = { 1, 1, 1 }, hn[3] = { 1, 1, 1 };
  for (int q = 0; q < D; ++q)
    {
      const int emax = D == 1 ? 5 : (D == 2 ? 4 : 3);
      L[q] = 1 << r.range(q == D - 1 ? 2 : 0, emax);
      hn[q] = q == D - 1 ? L[q] / 2 + 1 : L[q];
    }
  const Box hb = box_sizes(D, hn);
  std::vector<cf> h(hb.size());
  for (auto& e : h)
    e = cf(float(r.range(-3, 3)), float(r.range(-3, 3)));
  // 1-D, every other case: a spectrum that IS the transform of a real kernel (real at the two self-conjugate frequencies)
  const bool consistent = D == 1 && t % 2 == 0;
  if (consistent)
    {
      h.front() = cf(h.front().real(), 0.F);
      h.back() = cf(h.back().real(), 0.F);
    }
  // input / output ranges: equal to the padding range (direct branch of do_it) or arbitrary (wrap-around copies)
  int imn[3] = { 0, 0, 0 }, ilen[3] = { 1, 1, 1 };
  Box ob;
  ob.d = D;
  for (int q = 0; q < 3; ++q)
    ob.mn[q] = ob.mx[q] = 0;
  for (int q = 0; q < D; ++q)
    {
      if (t % 3 == 0)
        {
          imn[q] = 0;
          ilen[q] = L[q];
          ob.mn[q] = 0;
          ob.mx[q] = L[q] - 1;
        }
      else
        {
          imn[q] = r.range(-6, 6);
          ilen[q] = r.range(1, std::min(L[q] + 2, 10));
          ob.mn[q] = imn[q] + r.range(-5, 5);
          ob.mx[q] = ob.mn[q] + r.range(1, std::min(L[q] + 3, 10)) - 1;
        }
    }
  const Arr in = rand_arr(r, D, imn, ilen, -8, 8);
  const Array<D, cf> H = mkc<D>(hb, h);
  const bool use_ctor = r.coin();
  std::string ans;
  std::vector<float> got;
  try
    {
      ArrayFilterUsingRealDFTWithPadding<D, float> f0;
      if (!use_ctor && f0.set_kernel_in_frequency_space(H) != Succeeded::yes)
        throw 1;
      const ArrayFilterUsingRealDFTWithPadding<D, float> f = use_ctor ? ArrayFilterUsingRealDFTWithPadding<D, float>(H) : f0;
      Array<D, float> o = mk_filled<D>(ob, 77.F);
      f(o, mk<D>(in));
      got = flat(o);
      ans = nums(got);
    }
  catch (...)
    {
      ans = "err";
    }
  c.emit("dftfh " + itos(D) + " H " + hb.str() + " " + nums(h) + " X " + arr_str(in) + " O " + ob.str(), ans);
  c.check(ans != "err", "dft-filter-frequency-kernel unexpected error for a 0-based frequency-space kernel with power-of-two padded lengths H " + hb.str());
  // ORACLE: a spectrum that is the transform of a real kernel gives the same filter as that kernel (spatial constructor)
  if constexpr (D == 1)
    {
      if (consistent && ans != "err")
        {
          const Array<1, float> kreal = inverse_fourier_for_real_data(H);
          ArrayFilterUsingRealDFTWithPadding<1, float> fs(kreal);
          Array<1, float> o = mk_filled<1>(ob, 77.F);
          fs(o, mk<1>(in));
          double hmax = 0, x2 = 0;
          for (auto& e : h)
            hmax = std::max(hmax, (double)std::abs(cd(e)));
          for (double e : in.v)
            x2 += e * e;
          const double tol = 64 * (std::log2(double(L[0])) + 2) * EPS * hmax * std::sqrt(x2) + 1e-30;
          const double d = maxdiff(got, flat(o));
          c.check(d <= tol, "dft-filter-frequency-kernel filter built from the spectrum H differs from the filter built from the real kernel inverse_fourier_for_real_data(H): H "
                                + nums(h) + " X " + arr_str(in) + " O " + ob.str() + " maxdiff=" + vh::hex(d));
        }
    }
}

static void
dft_freq_cases(Ctx& c)
{
  const int n = c.thorough ? 96 : 24;
  for (int t = 0; t < n; ++t)
    {
      padr_case<1>(c, t);
      padr_case<2>(c, t);
      padr_case<3>(c, t);
    }
  dft_trivial_cases(c);
  const int m1 = c.thorough ? 300 : 45, m2 = c.thorough ? 150 : 24, m3 = c.thorough ? 90 : 15;
  for (int t = 0; t < m1; ++t)
    dftfh_case<1>(c, t);
  for (int t = 0; t < m2; ++t)
    dftfh_case<2>(c, t);
  for (int t = 0; t < m3; ++t)
    dftfh_case<3>(c, t);
}

// ---- separable filters
struct Filt1
{
  int type; // 0 conv zero bc, 1 conv constant bc, 2 symmetric kernel
  Arr k;
  shared_ptr<ArrayFunctionObject<1, float>> make() const
  {
    VectorWithOffset<float> kv(k.b.mn[0], k.b.mx[0]);
    for (int j = k.b.mn[0]; j <= k.b.mx[0]; ++j)
      kv[j] = static_cast<float>(k.v[j - k.b.mn[0]]);
    if (type == 2)
      return shared_ptr<ArrayFunctionObject<1, float>>(new ArrayFilter1DUsingConvolutionSymmetricKernel<float>(kv));
    return shared_ptr<ArrayFunctionObject<1, float>>(
        new ArrayFilter1DUsingConvolution<float>(kv, type == 1 ? BoundaryConditions::constant : BoundaryConditions::zero));
  }
  std::string str() const { return itos(type) + " " + arr_str(k); }
};

static Filt1
rand_filt1(vh::Rng& r)
{
  Filt1 f;
  f.type = r.range(0, 2);
  if (f.type == 2)
    {
      int mn[1] = { 0 }, len[1] = { r.range(1, 3) };
      f.k = rand_arr(r, 1, mn, len, -3, 3);
    }
  else
    {
      int mn[1] = { r.range(-3, 1) }, len[1] = { r.range(1, 4) };
      f.k = rand_arr(r, 1, mn, len, -3, 3);
    }
  if (r.range(0, 9) == 0)
    { // trivial filter on this axis
      int mn[1] = { 0 }, len[1] = { 1 };
      f.k = rand_arr(r, 1, mn, len, 1, 1);
    }
  return f;
}

// apply the REAL 1-D filter `f` along axis `ax` of a (flat, row-major) 3-D array
static void
apply_axis(std::vector<float>& v, const Box& b, int ax, const ArrayFunctionObject<1, float>& f)
{
  int idx[3];
  b.first(idx);
  do
    {
      if (idx[ax] != b.mn[ax])
        continue;
      Array<1, float> line(b.mn[ax], b.mx[ax]);
      int p[3] = { idx[0], idx[1], idx[2] };
      for (int i = b.mn[ax]; i <= b.mx[ax]; ++i)
        {
          p[ax] = i;
          line[i] = v[b.flat(p)];
        }
      f(line);
      for (int i = b.mn[ax]; i <= b.mx[ax]; ++i)
        {
          p[ax] = i;
          v[b.flat(p)] = line[i];
        }
  } while (b.next(idx));
}

static void
separable_cases(Ctx& c)
{
  const int ncases = c.thorough ? 1500 : 200;
  const int perms[6][3] = { { 0, 1, 2 }, { 0, 2, 1 }, { 1, 0, 2 }, { 1, 2, 0 }, { 2, 0, 1 }, { 2, 1, 0 } };
  for (int t = 0; t < ncases; ++t)
    {
      vh::Rng& r = c.rng;
      Filt1 fl[3] = { rand_filt1(r), rand_filt1(r), rand_filt1(r) };
      int imn[3], ilen[3];
      for (int q = 0; q < 3; ++q)
        {
          imn[q] = r.range(-4, 4);
          ilen[q] = r.range(1, 6);
        }
      const Arr in = rand_arr(r, 3, imn, ilen, -8, 8);
      VectorWithOffset<shared_ptr<ArrayFunctionObject<1, float>>> fs(3);
      for (int q = 0; q < 3; ++q)
        fs[q] = fl[q].make();
      SeparableArrayFunctionObject<3, float> sep(fs);
      Array<3, float> a = mk<3>(in);
      const bool twoarg = r.coin();
      if (twoarg)
        {
          Array<3, float> o = mk_filled<3>(in.b, 77.F);
          sep(o, a);
          a = o;
        }
      else
        sep(a);
      const std::vector<float> got = flat(a);
      c.emit("sep F " + fl[0].str() + " F " + fl[1].str() + " F " + fl[2].str() + " X " + arr_str(in), nums(got));
      // ORACLE: separable == the successive one-dimensional filters, in any axis order (exact: integer data)
      bool ok = true;
      int badperm = -1;
      for (int pi = 0; pi < 6 && ok; ++pi)
        {
          std::vector<float> v(in.v.begin(), in.v.end());
          for (int s = 0; s < 3; ++s)
            apply_axis(v, in.b, perms[pi][s], *fs[perms[pi][s]]);
          if (v != got)
            {
              ok = false;
              badperm = pi;
            }
        }
      c.check(ok, "separable SeparableArrayFunctionObject != successive 1-D filters in axis order #" + itos(badperm) + ": F " + fl[0].str() + " F " + fl[1].str() + " F " + fl[2].str()
                      + " X " + arr_str(in));
    }
  // default-constructed (all null pointers): trivial, identity
  {
    int imn[3] = { -1, 0, 2 }, ilen[3] = { 2, 3, 2 };
    const Arr in = rand_arr(c.rng, 3, imn, ilen, -8, 8);
    SeparableArrayFunctionObject<3, float> sep;
    Array<3, float> a = mk<3>(in);
    sep(a);
    c.emit("sepnull X " + arr_str(in), nums(flat(a)));
    c.check(sep.is_trivial() && flat(a) == std::vector<float>(in.v.begin(), in.v.end()), "separable default-constructed object is not the identity");
  }
}


// ---- apply_array_functions_on_each_index (ArrayFunction.inl:244): the out-of-place separable route, the library's consumer of
// get_influencing_indices (it filters only the rows of the input inside the influencing range of the output's rows).
// ORACLE only (no model): with zero-boundary convolution filters on every axis the result on the output box is the 3-D
// convolution with the outer product of the three kernels.  Restricted to the regime the function supports: no trivial
// filter on an axis where input and output ranges differ (those rows of the output are left untouched by design), and a
// non-empty intersection of influencing range and input range on the first two axes (otherwise it indexes an empty array).
static void
sepoo_cases(Ctx& c)
{
  const int ncases = c.thorough ? 1200 : 150;
  for (int t = 0; t < ncases; ++t)
    {
      vh::Rng& r = c.rng;
      Filt1 fl[3];
      for (int q = 0; q < 3; ++q)
        {
          fl[q].type = 0;
          int mn[1] = { r.range(-3, 1) }, len[1] = { r.range(1, 4) };
          fl[q].k = rand_arr(r, 1, mn, len, -3, 3);
          if (len[0] == 1 && mn[0] == 0 && fl[q].k.v[0] == 1.0)
            fl[q].k.v[0] = 2.0; // not the trivial filter
        }
      int imn[3], ilen[3];
      Box ob;
      ob.d = 3;
      for (int q = 0; q < 3; ++q)
        {
          imn[q] = r.range(-4, 4);
          ilen[q] = r.range(1, 6);
          // output range: overlaps the range influenced by the input (so that the influencing range meets the input range)
          const int lo = imn[q] + fl[q].k.b.mn[0], hi = imn[q] + ilen[q] - 1 + fl[q].k.b.mx[0];
          const int a = r.range(lo - 3, hi), b = r.range(std::max(a, lo), hi + 3);
          ob.mn[q] = a;
          ob.mx[q] = b;
        }
      const Arr in = rand_arr(r, 3, imn, ilen, -8, 8);
      VectorWithOffset<shared_ptr<ArrayFunctionObject<1, float>>> fs(3);
      for (int q = 0; q < 3; ++q)
        fs[q] = fl[q].make();
      const VectorWithOffset<shared_ptr<ArrayFunctionObject<1, float>>>& cfs = fs;
      Array<3, float> o = mk_filled<3>(ob, 77.F);
      apply_array_functions_on_each_index(o, mk<3>(in), cfs.begin(), cfs.end());
      const std::vector<float> got = flat(o);
      Arr k;
      k.b.d = 3;
      for (int q = 0; q < 3; ++q)
        {
          k.b.mn[q] = fl[q].k.b.mn[0];
          k.b.mx[q] = fl[q].k.b.mx[0];
        }
      k.v.resize(k.b.size());
      int j[3];
      k.b.first(j);
      do
        k.v[k.b.flat(j)] = fl[0].k.v[j[0] - k.b.mn[0]] * fl[1].k.v[j[1] - k.b.mn[1]] * fl[2].k.v[j[2] - k.b.mn[2]];
      while (k.b.next(j));
      c.check(same(got, conv_spec(k, in, ob, 0)), "separable-out-of-place apply_array_functions_on_each_index != 3-D convolution with the outer product of the kernels: F " + fl[0].str()
                                                       + " F " + fl[1].str() + " F " + fl[2].str() + " X " + arr_str(in) + " O " + ob.str() + " got " + nums(got));
    }
}

// ---- SeparableConvolutionImageFilter: kernels given as coefficient lists in a parameter text
static void
sci_cases(Ctx& c)
{
  const int ncases = c.thorough ? 300 : 60;
  for (int t = 0; t < ncases; ++t)
    {
      vh::Rng& r = c.rng;
      std::vector<int> co[3]; // z, y, x
      for (int q = 0; q < 3; ++q)
        {
          const int len = r.range(1, 5);
          for (int i = 0; i < len; ++i)
            co[q].push_back(r.range(-3, 3));
        }
      auto lst = [](const std::vector<int>& v) {
        std::string s = "{";
        for (std::size_t i = 0; i < v.size(); ++i)
          s += (i ? "," : "") + std::to_string(v[i]);
        return s + "}";
      };
      std::istringstream par("Separable Convolution Filter Parameters :=\n x-dir filter coefficients := " + lst(co[2]) + "\n y-dir filter coefficients := " + lst(co[1])
                             + "\n z-dir filter coefficients := " + lst(co[0]) + "\nEND Separable Convolution Filter Parameters :=\n");
      SeparableConvolutionImageFilter<float> filt;
      const bool parsed = filt.parse(par);
      int imn[3] = { 0, r.range(-4, 0), r.range(-4, 0) }, ilen[3] = { r.range(1, 5), r.range(1, 6), r.range(1, 6) };
      const Arr in = rand_arr(r, 3, imn, ilen, -8, 8);
      VoxelsOnCartesianGrid<float> image(to_range<3>(in.b), CartesianCoordinate3D<float>(0.F, 0.F, 0.F), CartesianCoordinate3D<float>(2.F, 3.F, 3.F));
      {
        Array<3, float>::full_iterator it = image.begin_all();
        for (double e : in.v)
          *it++ = static_cast<float>(e);
      }
      std::vector<float> got;
      const bool twoarg = r.coin();
      bool ok = parsed;
      if (ok)
        {
          if (twoarg)
            {
              VoxelsOnCartesianGrid<float> o(image);
              o.fill(77.F);
              ok = filt.apply(o, image) == Succeeded::yes;
              got = flat(static_cast<const Array<3, float>&>(o));
            }
          else
            {
              ok = filt.apply(image) == Succeeded::yes;
              got = flat(static_cast<const Array<3, float>&>(image));
            }
        }
      auto ints = [](const std::vector<int>& v) {
        std::string s = std::to_string(v.size());
        for (int e : v)
          s += " " + std::to_string(e);
        return s;
      };
      c.emit("sci Z " + ints(co[0]) + " Y " + ints(co[1]) + " X " + ints(co[2]) + " A " + arr_str(in), ok ? nums(got) : std::string("err"));
      // ORACLE: the image filter is the separable convolution with kernels centred at index size/2 of each list
      if (ok)
        {
          Arr k;
          k.b.d = 3;
          for (int q = 0; q < 3; ++q)
            {
              k.b.mn[q] = -static_cast<int>(co[q].size() / 2);
              k.b.mx[q] = k.b.mn[q] + static_cast<int>(co[q].size()) - 1;
            }
          k.v.resize(k.b.size());
          int j[3];
          k.b.first(j);
          do
            k.v[k.b.flat(j)] = double(co[0][j[0] - k.b.mn[0]]) * co[1][j[1] - k.b.mn[1]] * co[2][j[2] - k.b.mn[2]];
          while (k.b.next(j));
          c.check(same(got, conv_spec(k, in, in.b, 0)), "separable-image-filter SeparableConvolutionImageFilter != 3-D convolution with the outer product of the centred kernels: Z "
                                                             + ints(co[0]) + " Y " + ints(co[1]) + " X " + ints(co[2]) + " A " + arr_str(in));
        }
      else
        c.check(false, "separable-image-filter parse/apply failed");
    }
}

// ---- SeparableConvolutionImageFilter constructed from kernels (index ranges symmetric about 0: the constructor's copy of the
// coefficients into its parsing vectors is only in bounds for those)
static void
scic_cases(Ctx& c)
{
  const int ncases = c.thorough ? 200 : 40;
  for (int t = 0; t < ncases; ++t)
    {
      vh::Rng& r = c.rng;
      Arr ks[3];
      VectorWithOffset<VectorWithOffset<float>> kv(3);
      for (int q = 0; q < 3; ++q)
        {
          const int h = r.range(0, 2);
          int mn[1] = { -h }, len[1] = { 2 * h + 1 };
          ks[q] = rand_arr(r, 1, mn, len, -3, 3);
          kv[q] = VectorWithOffset<float>(-h, h);
          for (int j = -h; j <= h; ++j)
            kv[q][j] = static_cast<float>(ks[q].v[j + h]);
        }
      SeparableConvolutionImageFilter<float> filt(kv);
      int imn[3] = { 0, r.range(-4, 0), r.range(-4, 0) }, ilen[3] = { r.range(1, 5), r.range(1, 6), r.range(1, 6) };
      const Arr in = rand_arr(r, 3, imn, ilen, -8, 8);
      VoxelsOnCartesianGrid<float> image(to_range<3>(in.b), CartesianCoordinate3D<float>(0.F, 0.F, 0.F), CartesianCoordinate3D<float>(2.F, 3.F, 3.F));
      {
        Array<3, float>::full_iterator it = image.begin_all();
        for (double e : in.v)
          *it++ = static_cast<float>(e);
      }
      const bool ok = filt.apply(image) == Succeeded::yes;
      const std::vector<float> got = flat(static_cast<const Array<3, float>&>(image));
      c.emit("scic F 0 " + arr_str(ks[0]) + " F 0 " + arr_str(ks[1]) + " F 0 " + arr_str(ks[2]) + " X " + arr_str(in), ok ? nums(got) : std::string("err"));
      Arr k;
      k.b.d = 3;
      for (int q = 0; q < 3; ++q)
        {
          k.b.mn[q] = ks[q].b.mn[0];
          k.b.mx[q] = ks[q].b.mx[0];
        }
      k.v.resize(k.b.size());
      int j[3];
      k.b.first(j);
      do
        k.v[k.b.flat(j)] = ks[0].v[j[0] - k.b.mn[0]] * ks[1].v[j[1] - k.b.mn[1]] * ks[2].v[j[2] - k.b.mn[2]];
      while (k.b.next(j));
      c.check(ok && same(got, conv_spec(k, in, in.b, 0)),
              "separable-image-filter SeparableConvolutionImageFilter(kernels) != 3-D convolution with the outer product of the kernels: " + arr_str(ks[0]) + " / " + arr_str(ks[1]) + " / "
                  + arr_str(ks[2]) + " A " + arr_str(in));
    }
}

// ---- Gaussian and Metz: kernels observed through the response to a unit impulse
struct Lines
{
  std::vector<float> ax[3]; // response along each axis through the impulse position
  double sum;               // sum of the whole response
  std::vector<float> all;
};

static Lines
impulse_response(const ArrayFunctionObject<3, float>& f, const int* R)
{
  Box b;
  b.d = 3;
  for (int q = 0; q < 3; ++q)
    {
      b.mn[q] = -R[q];
      b.mx[q] = R[q];
    }
  Array<3, float> a = mk_filled<3>(b, 0.F);
  a[0][0][0] = 1.F;
  f(a);
  Lines l;
  for (int i = -R[0]; i <= R[0]; ++i)
    l.ax[0].push_back(a[i][0][0]);
  for (int i = -R[1]; i <= R[1]; ++i)
    l.ax[1].push_back(a[0][i][0]);
  for (int i = -R[2]; i <= R[2]; ++i)
    l.ax[2].push_back(a[0][0][i]);
  l.all = flat(a);
  l.sum = 0;
  for (float e : l.all)
    l.sum += e;
  return l;
}

// ORACLE helper: data equal to `cst` on the box [-h-1, h+1]^3-ish around the origin and random elsewhere:
// the output at every voxel whose kernel support lies inside the constant region must be cst * (sum of kernel)
static void
mean_preservation(Ctx& c, const ArrayFunctionObject<3, float>& f, const int* half, double ksum, double reltol, const std::string& what)
{
  Box b;
  b.d = 3;
  int inner[3];
  for (int q = 0; q < 3; ++q)
    {
      inner[q] = c.rng.range(0, 2);
      b.mn[q] = -(half[q] + inner[q] + 2);
      b.mx[q] = half[q] + inner[q] + c.rng.range(1, 3);
    }
  const float cst = 0.25F * c.rng.range(4, 40);
  Array<3, float> a(to_range<3>(b));
  int idx[3];
  b.first(idx);
  do
    {
      bool in_const = true;
      for (int q = 0; q < 3; ++q)
        in_const = in_const && std::abs(idx[q]) <= half[q] + inner[q];
      a[idx[0]][idx[1]][idx[2]] = in_const ? cst : 0.125F * c.rng.range(-80, 80);
  } while (b.next(idx));
  f(a);
  double worst = 0;
  b.first(idx);
  do
    {
      bool interior = true;
      for (int q = 0; q < 3; ++q)
        interior = interior && std::abs(idx[q]) <= inner[q];
      if (interior)
        worst = std::max(worst, std::fabs(double(a[idx[0]][idx[1]][idx[2]]) - cst * ksum));
  } while (b.next(idx));
  c.check(worst <= reltol * cst * std::max(1.0, std::fabs(ksum)),
          "mean-preservation output differs from constant*sum(kernel) where the data are constant over the kernel support: " + what + " worst=" + vh::hex(worst)
              + " const=" + vh::hex(cst) + " kernel-sum=" + vh::hex(ksum));
}

static int
half_length(const std::vector<float>& line)
{
  // largest |i| with a non-zero response (line has odd length, centre in the middle)
  const int R = static_cast<int>(line.size() / 2);
  int h = 0;
  for (int i = -R; i <= R; ++i)
    if (line[i + R] != 0.F)
      h = std::max(h, std::abs(i));
  return h;
}

static void
gauss_cases(Ctx& c)
{
  const int ncases = c.thorough ? 300 : 50;
  for (int t = 0; t < ncases; ++t)
    {
      vh::Rng& r = c.rng;
      BasicCoordinate<3, float> fw;
      BasicCoordinate<3, int> mk_;
      int R[3];
      for (int q = 0; q < 3; ++q)
        {
          // FWHM in units of the sampling distance (fwhm / voxel size): 0 (no filtering) or 0.3 .. 5.5
          fw[q + 1] = r.range(0, 11) == 0 ? 0.F : static_cast<float>(r.range(300, 5500)) / 1000.F;
          const int pk = r.range(0, 3);
          mk_[q + 1] = pk == 0 ? -1 : r.range(1, 21);
          R[q] = 14;
          if (t % 3 == 1)
            { // automatic kernel length (max_kernel_size = -1), narrow (0.001 .. 0.3) or wide (5.5 .. 8) FWHM
              mk_[q + 1] = -1;
              const int w = r.range(0, 3);
              fw[q + 1] = w == 0 ? static_cast<float>(r.range(5500, 8000)) / 1000.F : static_cast<float>(r.range(1, 300)) / (w == 1 ? 1000.F : 100000.F);
              R[q] = 22;
            }
        }
      const bool normalise = t % 3 == 1 ? r.range(0, 5) != 0 : r.range(0, 3) != 0;
      if (t % 12 == 5)
        { // max_kernel_size == 0 is documented as an error ("use -1 for auto-length")
          mk_[r.range(1, 3)] = 0;
          bool threw = false;
          try
            {
              SeparableGaussianArrayFilter<3, float> f0(fw, mk_, normalise);
            }
          catch (...)
            {
              threw = true;
            }
          c.emit("gauss " + vh::hex(fw[1]) + " " + vh::hex(fw[2]) + " " + vh::hex(fw[3]) + " " + itos(mk_[1]) + " " + itos(mk_[2]) + " " + itos(mk_[3]) + " " + itos(normalise) + " "
                     + itos(R[0]),
                 threw ? std::string("err") : std::string("accepted"));
          c.check(threw, "gaussian-max-kernel-size-0 SeparableGaussianArrayFilter accepted max_kernel_size == 0");
          continue;
        }
      SeparableGaussianArrayFilter<3, float> f(fw, mk_, normalise);
      const Lines l = impulse_response(f, R);
      c.emit("gauss " + vh::hex(fw[1]) + " " + vh::hex(fw[2]) + " " + vh::hex(fw[3]) + " " + itos(mk_[1]) + " " + itos(mk_[2]) + " " + itos(mk_[3]) + " " + itos(normalise) + " "
                 + itos(R[0]),
             nums(l.ax[0]) + " | " + nums(l.ax[1]) + " | " + nums(l.ax[2]));
      const std::string what = "Gaussian fwhm=(" + vh::hex(fw[1]) + "," + vh::hex(fw[2]) + "," + vh::hex(fw[3]) + ") max_kernel_sizes=(" + itos(mk_[1]) + "," + itos(mk_[2]) + ","
                               + itos(mk_[3]) + ") normalise=" + itos(normalise);
      int half[3];
      bool covered = true;
      for (int q = 0; q < 3; ++q)
        {
          half[q] = half_length(l.ax[q]);
          covered = covered && half[q] < R[q];
        }
      // ORACLE: normalised Gaussian kernels sum to one; symmetric; non-negative
      if (normalise && covered)
        c.check(std::fabs(l.sum - 1.0) <= 4e-6, "kernel-sum Gaussian kernel (normalise=1) does not sum to 1: " + what + " sum=" + vh::hex(l.sum));
      bool sym = true;
      for (int q = 0; q < 3; ++q)
        for (int i = 0; i <= R[q]; ++i)
          sym = sym && l.ax[q][R[q] + i] == l.ax[q][R[q] - i] && l.ax[q][R[q] + i] >= 0.F;
      c.check(sym, "kernel-symmetry Gaussian kernel not symmetric / negative: " + what);
      // ORACLE: mean preserved where data are constant over the kernel support
      if (covered)
        mean_preservation(c, f, half, l.sum, 8e-6, what);
    }
  // the scalar constructor (same fwhm / max kernel size in all directions)
  {
    SeparableGaussianArrayFilter<3, float> f(2.5F, 9.F, true);
    int R[3] = { 6, 6, 6 };
    const Lines l = impulse_response(f, R);
    c.emit("gauss " + vh::hex(2.5F) + " " + vh::hex(2.5F) + " " + vh::hex(2.5F) + " 9 9 9 1 6", nums(l.ax[0]) + " | " + nums(l.ax[1]) + " | " + nums(l.ax[2]));
    c.check(std::fabs(l.sum - 1.0) <= 4e-6, "kernel-sum Gaussian (scalar constructor) does not sum to 1 sum=" + vh::hex(l.sum));
  }
}

static void
metz_cases(Ctx& c)
{
  const int ncases = c.thorough ? 40 : 8;
  // silence the constructor's printf of every kernel coefficient
  std::fflush(stdout);
  const int saved = dup(1);
  const int devnull = open("/dev/null", O_WRONLY);
  dup2(devnull, 1);
  for (int t = 0; t < ncases; ++t)
    {
      vh::Rng& r = c.rng;
      VectorWithOffset<float> fw(1, 3), pw(1, 3);
      VectorWithOffset<int> mk_(1, 3);
      BasicCoordinate<3, float> sd;
      const bool power0 = t % 2 == 0;
      int R[3];
      for (int q = 1; q <= 3; ++q)
        {
          sd[q] = static_cast<float>(r.range(1000, 4500)) / 1000.F;                     // voxel size (mm)
          // FWHM (mm): 1.2 .. 4 voxels; at power 0 half of the directions have a kernel narrower than 1.5 voxels, where build_metz
          // samples the kernel 3 or more times per voxel and the band limit at the voxel Nyquist frequency is what keeps the sum at 1
          const int ratio = (power0 && r.range(0, 1) == 0) ? r.range(1000, 1500) : r.range(1200, 4000);
          fw[q] = r.range(0, 9) == 0 ? 0.F : sd[q] * static_cast<float>(ratio) / 1000.F;
          pw[q] = power0 ? 0.F : static_cast<float>(r.range(0, 3));
          mk_[q] = r.range(0, 2) == 0 ? r.range(3, 15) : -1;
          R[q - 1] = 20;
        }
      SeparableMetzArrayFilter<3, float> f(fw, pw, sd, mk_);
      const Lines l = impulse_response(f, R);
      std::string op = "metz";
      for (int q = 1; q <= 3; ++q)
        op += " " + vh::hex(fw[q]) + " " + vh::hex(pw[q]) + " " + vh::hex(sd[q]) + " " + itos(mk_[q]);
      op += " " + itos(R[0]);
      c.emit(op, nums(l.ax[0]) + " | " + nums(l.ax[1]) + " | " + nums(l.ax[2]));
      const std::string what = "Metz " + op;
      int half[3];
      bool covered = true, untruncated = true;
      for (int q = 0; q < 3; ++q)
        {
          half[q] = half_length(l.ax[q]);
          covered = covered && half[q] < R[q];
          untruncated = untruncated && mk_[q + 1] < 0;
        }
      bool sym = true;
      for (int q = 0; q < 3; ++q)
        for (int i = 0; i <= R[q]; ++i)
          sym = sym && l.ax[q][R[q] + i] == l.ax[q][R[q] - i];
      c.check(sym, "kernel-symmetry Metz kernel not symmetric: " + what);
      // ORACLE: Metz kernels (any power) have unit DC gain; exactly the library's own test tolerances (1e-3 at power 0, 1e-2 otherwise)
      if (covered && untruncated)
        c.check(std::fabs(l.sum - 1.0) <= (power0 ? 2e-3 : 1e-2), "kernel-sum Metz kernel does not sum to 1: " + what + " sum=" + vh::hex(l.sum));
      if (covered)
        mean_preservation(c, f, half, l.sum, 2e-5, what);
    }
  std::fflush(stdout);
  dup2(saved, 1);
  close(saved);
  close(devnull);
}

int
main(int argc, char** argv)
{
  if (argc < 5)
    {
      std::fprintf(stderr, "usage: c19_fourier_filters <seed> <quick|thorough> <opsfile> <implfile>\n");
      return 2;
    }
  Verbosity::set(0);
  Ctx c(std::strtoull(argv[1], nullptr, 10) * 0x100000001B3ULL + 0xC19);
  c.thorough = std::string(argv[2]) == "thorough";
  c.ops = std::fopen(argv[3], "w");
  c.out = std::fopen(argv[4], "w");
  c.orc = std::fopen((std::string(argv[4]) + ".oracle").c_str(), "w");
  if (!c.ops || !c.out || !c.orc)
    return 2;
  c.emit(std::string("cfg C19 ") + argv[2], "ok");
  fourier_part(c);
  conv1_cases(c);
  csym_cases(c);
  convnd_cases<2>(c);
  convnd_cases<3>(c);
  dft_filter_cases(c);
  dft_freq_cases(c);
  separable_cases(c);
  sepoo_cases(c);
  sci_cases(c);
  scic_cases(c);
  gauss_cases(c);
  metz_cases(c);
  std::fprintf(c.orc, "ORACLE-DONE checks=%ld fails=%ld\n", c.checks, c.fails);
  std::fclose(c.ops);
  std::fclose(c.out);
  std::fclose(c.orc);
  return 0;
}
