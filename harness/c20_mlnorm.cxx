// C20 — implementation side.  Component-based normalisation (stir/ML_norm.h): conversions projection data <-> fan data,
// applying efficiencies / geometric / block factors, the three ML iterations, KL.
// Drives the REAL free functions of stir/ML_norm.h on generated cylindrical scanners (without virtual crystals, with
// transaxial virtual crystals [type Siemens_mMR], with transaxial+axial virtual crystals [type E1080]; STIR hard-wires the
// number of virtual crystals to the scanner type, so the generated scanners carry those types with generated sizes).
//
// Usage: c20_mlnorm <seed> <quick|thorough> <opsfile> <implfile>
//   <opsfile>  : one operation per line (answered by the Lean model, lean/Driver/C20.lean)
//   <implfile> : what the real code answered, same order
//   <implfile>.oracle : verdicts of the property's own statement evaluated on the implementation.
#include "stir_fixtures.h"
#include "common.h"
#include "stir/ML_norm.h"
#include "stir/ProjDataInMemory.h"
#include "stir/ExamInfo.h"
#include "stir/DetectionPositionPair.h"
#include "stir/IndexRange2D.h"
#include "stir/SegmentBySinogram.h"
#include "stir/multiply_crystal_factors.h"
#include "stir/recon_buildblock/ML_estimate_component_based_normalisation.h"
#include "stir/recon_buildblock/BinNormalisationPETFromComponents.h"
#include "stir/stream.h"
#include <algorithm>
#include <cstdarg>
#include <cmath>
#include <map>
#include <set>
#include <tuple>

using namespace stir;

typedef std::tuple<int, int, int, int> C4;

static FILE *g_ops, *g_out, *g_orc;
static long g_checks = 0, g_fails = 0;
static std::map<std::string, long> g_fail_kinds;

static void
emit(const std::string& op, const std::string& ans)
{
  std::fprintf(g_ops, "%s\n", op.c_str());
  std::fprintf(g_out, "%s\n", ans.c_str());
}

// one oracle verdict; at most 3 lines per kind are written
static void
oracle(bool ok, const std::string& kind, const std::string& text)
{
  ++g_checks;
  if (ok)
    return;
  ++g_fails;
  if (++g_fail_kinds[kind] <= 3)
    std::fprintf(g_orc, "ORACLE-FAIL %s %s\n", kind.c_str(), text.c_str());
}

static long g_candidates = 0;
// a failure of the property in a class of inputs that is a known candidate defect of the implementation: one line per key
static void
candidate(bool ok, const std::string& key, const std::string& text)
{
  ++g_checks;
  if (ok)
    return;
  ++g_candidates;
  if (++g_fail_kinds[key] <= 1)
    std::fprintf(g_orc, "KNOWN-CANDIDATE %s %s\n", key.c_str(), text.c_str());
}

static const char* const KEY_KL = "kl-descent:library-KL-counts-in-ring-LORs-twice";

static std::string
str(const char* fmt, ...)
{
  char buf[512];
  va_list ap;
  va_start(ap, fmt);
  std::vsnprintf(buf, sizeof buf, fmt, ap);
  va_end(ap);
  return buf;
}

// ---------------------------------------------------------------------------------------------------------------------
// generated scanners

struct Cfg
{
  int type; // 0: no virtual crystals, 1: transaxial virtual crystal (mMR), 2: transaxial+axial (E1080)
  int ntb, tcpb_phys, nab, acpb_phys;
  int max_delta, num_tang;
};

static Scanner::Type
scanner_type(int t)
{
  return t == 0 ? Scanner::User_defined_scanner : t == 1 ? Scanner::Siemens_mMR : Scanner::E1080;
}

static shared_ptr<Scanner>
make_block_scanner(const Cfg& c, int tof_bins = -1)
{
  const Scanner::Type type = scanner_type(c.type);
  const int vt = c.type >= 1 ? 1 : 0, va = c.type == 2 ? 1 : 0;
  const int tcpb = c.tcpb_phys + vt, acpb = c.acpb_phys + va;
  const int N = c.ntb * tcpb, R = c.nab * acpb - va;
  shared_ptr<Scanner> s(new Scanner(type, std::string("verif_c20"), N, R, N - 1, N - 1, 100.F + N / 4.F, 5.F, 4.F, 2.F, 0.F,
                                    /*axial blocks per bucket*/ 1, /*transaxial blocks per bucket*/ 1, acpb, tcpb,
                                    /*singles units*/ 1, 1, /*layers*/ 1, 0.1F, 511.F, static_cast<short>(tof_bins),
                                    tof_bins > 0 ? 100.F : -1.F, tof_bins > 0 ? 400.F : -1.F, "Cylindrical"));
  return s;
}

// independent inverse of the gap removal: index (virtual crystals included) of the y-th physical crystal
static int
with_gaps(int y, int cpb, int v)
{
  int phys = -1;
  for (int x = 0;; ++x)
    {
      if (x % cpb < cpb - v)
        ++phys;
      if (phys == y)
        return x;
    }
}

// independent gap removal: number of physical crystals before x
static int
phys_index(int x, int cpb, int v)
{
  int n = 0;
  for (int y = 0; y < x; ++y)
    if (y % cpb < cpb - v)
      ++n;
  return n;
}

static bool
is_virtual(int x, int cpb, int v)
{
  return x % cpb >= cpb - v;
}

// ---------------------------------------------------------------------------------------------------------------------
// loops over fan data through the public interface

template <class F>
static void
for_canon(const FanProjData& fan, F f)
{
  for (int ra = fan.get_min_ra(); ra <= fan.get_max_ra(); ++ra)
    for (int a = fan.get_min_a(); a <= fan.get_max_a(); ++a)
      for (int rb = std::max(ra, fan.get_min_rb(ra)); rb <= fan.get_max_rb(ra); ++rb)
        for (int b = fan.get_min_b(a); b <= fan.get_max_b(a); ++b)
          f(ra, a, rb, b);
}

// every logical (ra,a,rb,b) of the fan / ring-difference window, b reduced
template <class F>
static void
for_logical(const FanProjData& fan, F f)
{
  const int N = fan.get_num_detectors_per_ring();
  for (int ra = fan.get_min_ra(); ra <= fan.get_max_ra(); ++ra)
    for (int a = fan.get_min_a(); a <= fan.get_max_a(); ++a)
      for (int rb = fan.get_min_rb(ra); rb <= fan.get_max_rb(ra); ++rb)
        for (int b = fan.get_min_b(a); b <= fan.get_max_b(a); ++b)
          f(ra, a, rb, b % N);
}

// symmetric fill: LOR (ra,a,rb,b) == LOR (rb,b,ra,a); for rb==ra the two orders are two storage entries
template <class G>
static void
fill_sym(FanProjData& fan, G gen)
{
  const int N = fan.get_num_detectors_per_ring();
  for_canon(fan, [&](int ra, int a, int rb, int b) {
    if (rb > ra)
      fan(ra, a, rb, b) = gen();
    else if (a < b % N)
      {
        const float v = gen();
        fan(ra, a, ra, b % N) = v;
        fan(ra, b % N, ra, a) = v;
      }
  });
}

static std::string
dump_fan(const FanProjData& fan)
{
  std::string s;
  for_canon(fan, [&](int ra, int a, int rb, int b) {
    s += ' ';
    s += vh::hex(fan(ra, a, rb, b));
  });
  return s;
}

static std::string
dump_tab(const Array<2, float>& t)
{
  std::string s;
  for (int r = t.get_min_index(); r <= t.get_max_index(); ++r)
    for (int a = t[r].get_min_index(); a <= t[r].get_max_index(); ++a)
      {
        s += ' ';
        s += vh::hex(t[r][a]);
      }
  return s;
}

// loop nest over geometric factors (as in apply_geo_norm)
template <class F>
static void
for_geo(const FanProjData& fan, const GeoData3D& geo, F f)
{
  for (int ra = 0; ra < geo.get_num_axial_crystals_per_block(); ++ra)
    for (int a = 0; a < geo.get_half_num_transaxial_crystals_per_block(); ++a)
      for (int rb = std::max(ra, fan.get_min_rb(ra)); rb <= fan.get_max_rb(ra); ++rb)
        for (int b = fan.get_min_b(a); b <= fan.get_max_b(a); ++b)
          f(ra, a, rb, b);
}

static std::string
dump_geo(const FanProjData& fan, const GeoData3D& geo)
{
  std::string s;
  for_geo(fan, geo, [&](int ra, int a, int rb, int b) {
    s += ' ';
    s += vh::hex(geo(ra, a, rb, b));
  });
  return s;
}

static bool
close_rel(double x, double y, double rel, double abs_tol = 0)
{
  return std::fabs(x - y) <= rel * std::max(std::fabs(x), std::fabs(y)) + abs_tol;
}

// Poisson sample (Knuth / normal approximation for larger means), deterministic from rng
static float
poisson(vh::Rng& rng, double mean)
{
  if (mean <= 0)
    return 0.F;
  if (mean < 30)
    {
      const double L = std::exp(-mean);
      int k = 0;
      double p = 1;
      do
        {
          ++k;
          p *= rng.unit();
        }
      while (p > L);
      return static_cast<float>(k - 1);
    }
  const double u1 = std::max(rng.unit(), 1e-12), u2 = rng.unit();
  const double g = std::sqrt(-2 * std::log(u1)) * std::cos(6.283185307179586 * u2);
  return static_cast<float>(std::max(0., std::floor(mean + std::sqrt(mean) * g + 0.5)));
}

// KL over every unordered detector pair ONCE (the objective the efficiency update maximises), with the library's scalar KL
static double
kl_pairs(const FanProjData& data, const FanProjData& est, double thr)
{
  const int N = data.get_num_detectors_per_ring();
  double sum = 0;
  for_canon(data, [&](int ra, int a, int rb, int b) {
    if (rb == ra && !(a < b % N))
      return;
    sum += KL(static_cast<double>(data(ra, a, rb, b)), static_cast<double>(est(ra, a, rb, b)), thr);
  });
  return sum;
}

// ---------------------------------------------------------------------------------------------------------------------

struct Stats
{
  long configs = 0, gap_configs = 0, bins = 0, entries = 0, block_skipped = 0, geo_skipped = 0, kl_runs = 0;
} g_stats;

static void
run_error_config(vh::Rng& rng, int kind)
{
  // malformed stream: data the conversion must refuse (get_fan_info / make_fan_data_remove_gaps error branches)
  Cfg c{ 0, 4, 2, 1, 3, 2, 5 };
  shared_ptr<Scanner> sc = make_block_scanner(c, kind == 2 ? 5 : -1);
  const int N = sc->get_num_detectors_per_ring();
  shared_ptr<ProjDataInfo> pdi;
  if (kind == 0) // view mashing
    pdi = vh::make_pdi(sc, 1, 2, N / 4, 5, false);
  else if (kind == 1) // axial compression
    pdi = vh::make_pdi(sc, 3, 2, N / 2, 5, false);
  else // TOF
    pdi = vh::make_pdi(sc, 1, 2, N / 2, 5, false, 1);
  auto& cyl = dynamic_cast<const ProjDataInfoCylindrical&>(*pdi);
  std::string op = str("cfg %d %d %d %d %d %d %d %d %d %d %d 1 %d %d %d", N, sc->get_num_rings(),
                       sc->get_num_transaxial_crystals_per_block(), sc->get_num_axial_crystals_per_block(),
                       sc->get_num_virtual_transaxial_crystals_per_block(), sc->get_num_virtual_axial_crystals_per_block(),
                       sc->get_num_transaxial_blocks(), sc->get_num_axial_blocks(), pdi->get_min_tangential_pos_num(),
                       pdi->get_max_tangential_pos_num(), pdi->get_max_segment_num(), cyl.get_view_mashing_factor(),
                       cyl.get_max_ring_difference(0), pdi->is_tof_data() ? 1 : 0);
  ProjDataInMemory pd(std::make_shared<ExamInfo>(), pdi);
  pd.fill(1.F);
  std::string ans;
  try
    {
      FanProjData fan;
      make_fan_data_remove_gaps(fan, pd);
      ans = str("%d %d %d %d", fan.get_num_rings(), fan.get_num_detectors_per_ring(), fan.get_max_delta(),
                (fan.get_max_b(0) - fan.get_min_b(0)) / 2);
    }
  catch (...)
    {
      ans = "err";
    }
  emit(op, ans);
  // get_fan_info itself
  std::string ans2;
  try
    {
      int nr, nd, mrd, fs;
      get_fan_info(nr, nd, mrd, fs, *pdi);
      ans2 = str("%d %d %d %d", nr, nd, mrd, fs);
    }
  catch (...)
    {
      ans2 = "err";
    }
  emit("fi", ans2);
  // the property's statement for such data: the conversion is refused (not silently wrong)
  oracle(ans == "err", "refuse", str("make_fan_data_remove_gaps accepted data of kind %d (0 mashed, 1 span>1, 2 TOF)", kind));
}

static void
run_config(vh::Rng& rng, const Cfg& c, bool thorough)
{
  shared_ptr<Scanner> sc = make_block_scanner(c);
  const int N = sc->get_num_detectors_per_ring(), R = sc->get_num_rings();
  const int tcpb = sc->get_num_transaxial_crystals_per_block(), acpb = sc->get_num_axial_crystals_per_block();
  const int vt = sc->get_num_virtual_transaxial_crystals_per_block(), va = sc->get_num_virtual_axial_crystals_per_block();
  const int ntb = sc->get_num_transaxial_blocks(), nab = sc->get_num_axial_blocks();
  shared_ptr<ProjDataInfo> pdi = vh::make_pdi(sc, 1, c.max_delta, N / 2, c.num_tang, false);
  const auto& cyl = dynamic_cast<const ProjDataInfoCylindricalNoArcCorr&>(*pdi);
  const std::string ctx = str("[type=%d ntb=%d tcpb=%d nab=%d acpb=%d vt=%d va=%d max_delta=%d num_tang=%d]", c.type, ntb, tcpb,
                              nab, acpb, vt, va, c.max_delta, c.num_tang);
  ++g_stats.configs;
  if (vt || va)
    ++g_stats.gap_configs;

  // -------------------------------------------------------------------------------------------- projection data, distinct
  shared_ptr<ExamInfo> ex = std::make_shared<ExamInfo>();
  ProjDataInMemory pd(ex, pdi);
  {
    const long P = 1000003; // prime > number of bins, < 2^24: values are exact floats
    const long K = 1 + static_cast<long>(rng.next() % (P - 1));
    long idx = 0;
    for (int s = pd.get_min_segment_num(); s <= pd.get_max_segment_num(); ++s)
      {
        SegmentBySinogram<float> seg = pd.get_empty_segment_by_sinogram(s);
        for (int ax = seg.get_min_axial_pos_num(); ax <= seg.get_max_axial_pos_num(); ++ax)
          for (int v = seg.get_min_view_num(); v <= seg.get_max_view_num(); ++v)
            for (int tp = seg.get_min_tangential_pos_num(); tp <= seg.get_max_tangential_pos_num(); ++tp)
              seg[ax][v][tp] = static_cast<float>(1 + ((++idx) * K) % P);
        pd.set_segment(seg);
      }
  }
  const int h = std::min(pdi->get_max_tangential_pos_num(), -pdi->get_min_tangential_pos_num()); // the fan window

  FanProjData fan;
  make_fan_data_remove_gaps(fan, pd);
  const int Rp = fan.get_num_rings(), Np = fan.get_num_detectors_per_ring();
  const int hp = (fan.get_max_b(0) - fan.get_min_b(0)) / 2;

  emit(str("cfg %d %d %d %d %d %d %d %d %d %d %d 1 %d %d %d", N, R, tcpb, acpb, vt, va, ntb, nab,
           pdi->get_min_tangential_pos_num(), pdi->get_max_tangential_pos_num(), pdi->get_max_segment_num(),
           cyl.get_view_mashing_factor(), cyl.get_max_ring_difference(0), pdi->is_tof_data() ? 1 : 0),
       str("%d %d %d %d", Rp, Np, fan.get_max_delta(), hp));
  {
    int nr, nd, mrd, fs;
    get_fan_info(nr, nd, mrd, fs, *pdi);
    emit("fi", str("%d %d %d %d", nr, nd, mrd, fs));
  }

  // -------------------------------------------------------------------------------------------- where did each bin go?
  std::map<float, std::vector<C4>> where;
  for_logical(fan, [&](int ra, int a, int rb, int b) {
    const float v = fan(ra, a, rb, b);
    if (v != 0)
      where[v].push_back(C4(ra, a, rb, b));
    ++g_stats.entries;
  });

  ProjDataInMemory pd2(ex, pdi);
  pd2.fill(-7.F);
  const float gap_value = -3.F;
  set_fan_data_add_gaps(pd2, fan, gap_value);

  // fan data with a distinct id in every storage entry, and its conversion back
  FanProjData fan_ids = fan;
  std::map<float, C4> id_name;
  {
    float id = 0;
    for_canon(fan_ids, [&](int ra, int a, int rb, int b) {
      id += 1.F;
      fan_ids(ra, a, rb, b) = id;
      id_name[id] = C4(ra, a, rb, b);
    });
  }
  ProjDataInMemory pd3(ex, pdi);
  set_fan_data_add_gaps(pd3, fan_ids, -1.F);

  for (int s = pd.get_min_segment_num(); s <= pd.get_max_segment_num(); ++s)
    for (int ax = pd.get_min_axial_pos_num(s); ax <= pd.get_max_axial_pos_num(s); ++ax)
      for (int v = 0; v < N / 2; ++v)
        for (int tp = pdi->get_min_tangential_pos_num(); tp <= pdi->get_max_tangential_pos_num(); ++tp)
          {
            Bin bin(s, v, ax, tp);
            if (std::abs(tp) > h)
              continue; // outside the fan window: not covered by the property
            ++g_stats.bins;
            DetectionPositionPair<> dp;
            cyl.get_det_pos_pair_for_bin(dp, bin);
            const int a = dp.pos1().tangential_coord(), ra = dp.pos1().axial_coord();
            const int b = dp.pos2().tangential_coord(), rb = dp.pos2().axial_coord();
            const float x = pd.get_bin_value(bin);
            const bool in_gap = is_virtual(a, tcpb, vt) || is_virtual(b, tcpb, vt) || is_virtual(ra, acpb, va)
                                || is_virtual(rb, acpb, va);
            // correspondence: the fan entries that received this bin
            {
              std::string ans;
              auto it = where.find(x);
              if (it == where.end())
                ans = "gap";
              else
                {
                  std::vector<C4> l = it->second;
                  std::sort(l.begin(), l.end());
                  for (auto& q : l)
                    ans += str("%s%d,%d,%d,%d", ans.empty() ? "" : " ", std::get<0>(q), std::get<1>(q), std::get<2>(q),
                               std::get<3>(q));
                }
              emit(str("pair %d %d %d %d", a, ra, b, rb), ans);
            }
            // correspondence: the fan entry this bin is read from
            {
              const float y3 = pd3.get_bin_value(bin);
              std::string ans = "gap";
              if (y3 != -1.F)
                {
                  auto it = id_name.find(y3);
                  if (it == id_name.end())
                    ans = "unknown";
                  else
                    ans = str("%d %d %d %d", std::get<0>(it->second), std::get<1>(it->second), std::get<2>(it->second),
                              std::get<3>(it->second));
                }
              emit(str("unpair %d %d %d %d", a, ra, b, rb), ans);
            }
            // ORACLE (lossless round trip, gaps filled as requested)
            const float y = pd2.get_bin_value(bin);
            if (in_gap)
              oracle(y == gap_value, "gapfill",
                     ctx + str(" bin(seg=%d ax=%d view=%d tang=%d) of a virtual crystal: %g after the round trip, requested gap value %g",
                               s, ax, v, tp, y, gap_value));
            else
              oracle(y == x, "roundtrip",
                     ctx + str(" bin(seg=%d ax=%d view=%d tang=%d) dets (%d,%d)-(%d,%d): %g before, %g after proj->fan->proj", s, ax,
                               v, tp, ra, a, rb, b, x, y));
          }

  // ORACLE: each fan entry is the value of the bin the geometry assigns to that detector pair
  for_logical(fan, [&](int ra, int a, int rb, int b) {
    const int ga = with_gaps(a, tcpb, vt), gb = with_gaps(b, tcpb, vt), gra = with_gaps(ra, acpb, va),
              grb = with_gaps(rb, acpb, va);
    DetectionPositionPair<> dp(DetectionPosition<>(ga, gra, 0), DetectionPosition<>(gb, grb, 0));
    Bin bin;
    float expected = 0.F;
    if (cyl.get_bin_for_det_pos_pair(bin, dp) == Succeeded::yes && bin.segment_num() >= pdi->get_min_segment_num()
        && bin.segment_num() <= pdi->get_max_segment_num() && std::abs(bin.tangential_pos_num()) <= h
        && bin.axial_pos_num() >= pdi->get_min_axial_pos_num(bin.segment_num())
        && bin.axial_pos_num() <= pdi->get_max_axial_pos_num(bin.segment_num()))
      expected = pd.get_bin_value(bin);
    oracle(fan(ra, a, rb, b) == expected, "entry",
           ctx + str(" fan(%d,%d,%d,%d)=%g but the bin of detectors (%d,%d)-(%d,%d) holds %g", ra, a, rb, b, fan(ra, a, rb, b),
                     gra, ga, grb, gb, expected));
  });

  // -------------------------------------------------------------------------------------------- accessor / window
  for (int k = 0; k < (thorough ? 400 : 150); ++k)
    {
      const int ra = rng.range(0, Rp - 1), a = rng.range(0, Np - 1);
      const int rb = rng.range(fan.get_min_rb(ra), fan.get_max_rb(ra));
      const int b = rng.range(fan.get_min_b(a), fan.get_max_b(a)) % Np;
      const float id = static_cast<const FanProjData&>(fan_ids)(ra, a, rb, b);
      auto it = id_name.find(id);
      std::string nm = it == id_name.end() ? std::string("unknown")
                                           : str("%d %d %d %d", std::get<0>(it->second), std::get<1>(it->second),
                                                 std::get<2>(it->second), std::get<3>(it->second));
      emit(str("ent %d %d %d %d", ra, a, rb, b), str("%d %s", fan_ids.is_in_data(ra, a, rb, b) ? 1 : 0, nm.c_str()));
      // ORACLE: a LOR is the same whichever detector is named first (different rings: one storage entry)
      if (ra != rb)
        oracle(id == static_cast<const FanProjData&>(fan_ids)(rb, b, ra, a), "symmetric-storage",
               ctx + str(" fan(%d,%d,%d,%d) and fan(%d,%d,%d,%d) are different entries", ra, a, rb, b, rb, b, ra, a));
    }
  for (int k = 0; k < (thorough ? 200 : 60); ++k)
    { // is_in_data also outside the window
      const int ra = rng.range(0, Rp - 1), a = rng.range(0, Np - 1), rb = rng.range(-1, Rp), b = rng.range(0, Np - 1);
      emit(str("isin %d %d %d %d", ra, a, rb, b), str("%d", fan.is_in_data(ra, a, rb, b) ? 1 : 0));
    }

  // -------------------------------------------------------------------------------------------- factors
  const int acpb_p = acpb - va, tcpb_p = tcpb - vt;
  FanProjData model(Rp, Np, fan.get_max_delta(), 2 * hp + 1);
  fill_sym(model, [&]() { return static_cast<float>(rng.range(1, 200)); });
  DetectorEfficiencies eff(IndexRange2D(Rp, Np));
  for (int r = 0; r < Rp; ++r)
    for (int a = 0; a < Np; ++a)
      eff[r][a] = rng.range(4, 12) / 8.F;

  emit("fan" + dump_fan(model), "ok");
  emit("eff" + dump_tab(eff), "ok");

  auto check_apply = [&](const char* what, const FanProjData& before, const FanProjData& applied, const FanProjData& restored) {
    for_canon(before, [&](int ra, int a, int rb, int b) {
      oracle(close_rel(restored(ra, a, rb, b), before(ra, a, rb, b), 4 * 2 * 5.97e-8), std::string("unapply-") + what,
             ctx + str(" entry (%d,%d,%d,%d): %g, after apply %g, after un-apply %g", ra, a, rb, b % Np, before(ra, a, rb, b),
                       applied(ra, a, rb, b), restored(ra, a, rb, b)));
    });
  };

  // efficiencies
  FanProjData data_eff = model;
  apply_efficiencies(data_eff, eff, true);
  emit("appeff 1", dump_fan(data_eff).substr(1));
  {
    FanProjData back = data_eff;
    apply_efficiencies(back, eff, false);
    emit("fan" + dump_fan(data_eff), "ok");
    emit("appeff 0", dump_fan(back).substr(1));
    emit("fan" + dump_fan(model), "ok");
    check_apply("eff", model, data_eff, back);
    // ORACLE: each entry is multiplied by the product of the factors of its two detectors
    for_logical(model, [&](int ra, int a, int rb, int b) {
      const double expected = static_cast<double>(model(ra, a, rb, b)) * eff[ra][a] * eff[rb][b];
      oracle(close_rel(data_eff(ra, a, rb, b), expected, 4 * 2 * 5.97e-8), "apply-eff-product",
             ctx + str(" entry (%d,%d,%d,%d): %g * eff %g * eff %g gave %g", ra, a, rb, b, model(ra, a, rb, b), eff[ra][a],
                       eff[rb][b], data_eff(ra, a, rb, b)));
    });
  }
  // the normalisation object built from components: the efficiency of a bin is the product of its two detectors' factors,
  // 0 in the gaps
  {
    BinNormalisationPETFromComponents norm;
    norm.allocate(pdi, /*do_eff*/ true, /*do_geo*/ false, /*do_block*/ false, /*do_symmetry_per_block*/ true);
    norm.crystal_efficiencies() = eff;
    if (norm.set_up(ex, pdi) != Succeeded::yes)
      oracle(false, "norm-from-components", ctx + " BinNormalisationPETFromComponents::set_up failed");
    else
      for (int s = pd.get_min_segment_num(); s <= pd.get_max_segment_num(); ++s)
        for (int ax = pd.get_min_axial_pos_num(s); ax <= pd.get_max_axial_pos_num(s); ++ax)
          for (int v = 0; v < N / 2; ++v)
            for (int tp = -h; tp <= h; ++tp)
              {
                Bin bin(s, v, ax, tp);
                DetectionPositionPair<> dp;
                cyl.get_det_pos_pair_for_bin(dp, bin);
                const int a = dp.pos1().tangential_coord(), ra = dp.pos1().axial_coord();
                const int b = dp.pos2().tangential_coord(), rb = dp.pos2().axial_coord();
                const bool in_gap = is_virtual(a, tcpb, vt) || is_virtual(b, tcpb, vt) || is_virtual(ra, acpb, va)
                                    || is_virtual(rb, acpb, va);
                const double expected = in_gap ? 0.
                                               : static_cast<double>(eff[phys_index(ra, acpb, va)][phys_index(a, tcpb, vt)])
                                                     * eff[phys_index(rb, acpb, va)][phys_index(b, tcpb, vt)];
                const float got = norm.get_bin_efficiency(bin);
                oracle(close_rel(got, expected, 4 * 2 * 5.97e-8), "norm-from-components",
                       ctx + str(" bin(seg=%d ax=%d view=%d tang=%d) dets (%d,%d)-(%d,%d): bin efficiency %g, product of the two crystal efficiencies %g",
                                 s, ax, v, tp, ra, a, rb, b, got, expected));
              }
  }
  // multiply_crystal_factors (projection-data side) agrees with apply_efficiencies (fan side) for gap-free scanners
  if (vt == 0 && va == 0)
    {
      ProjDataInMemory pdm(ex, pdi);
      pdm.fill(0.F);
      multiply_crystal_factors(pdm, eff, 2.F);
      FanProjData fm;
      make_fan_data_remove_gaps(fm, pdm);
      for_logical(fm, [&](int ra, int a, int rb, int b) {
        const double expected = 2. * eff[ra][a] * eff[rb][b];
        oracle(close_rel(fm(ra, a, rb, b), expected, 4 * 3 * 5.97e-8), "multiply-crystal-factors",
               ctx + str(" LOR (%d,%d)-(%d,%d): multiply_crystal_factors gave %g, 2*eff*eff = %g", ra, a, rb, b, fm(ra, a, rb, b),
                         expected));
      });
    }

  // fan sums
  Array<2, float> sums(IndexRange2D(Rp, Np));
  make_fan_sum_data(sums, data_eff);
  emit("fan" + dump_fan(data_eff), "ok");
  emit("fansums", dump_tab(sums).substr(1));
  {
    // ORACLE: fan sum of a detector = sum over its LORs inside the window
    for (int ra = 0; ra < Rp; ++ra)
      for (int a = 0; a < Np; ++a)
        {
          double e = 0;
          int n = 0;
          for (int rb = std::max(0, ra - fan.get_max_delta()); rb <= std::min(Rp - 1, ra + fan.get_max_delta()); ++rb)
            for (int o = -hp; o <= hp; ++o)
              {
                e += static_cast<const FanProjData&>(data_eff)(ra, a, rb, (a + Np / 2 + o) % Np);
                ++n;
              }
          oracle(close_rel(sums[ra][a], e, 4 * n * 5.97e-8), "fansum",
                 ctx + str(" detector (%d,%d): fan sum %g, sum over its LORs %g", ra, a, sums[ra][a], e));
        }
    if (vt == 0 && va == 0)
      { // the projection-data overload agrees
        ProjDataInMemory pdd(ex, pdi);
        set_fan_data_add_gaps(pdd, data_eff, 0.F);
        Array<2, float> sums2(IndexRange2D(Rp, Np));
        make_fan_sum_data(sums2, pdd);
        const int nterms = (2 * fan.get_max_delta() + 1) * (2 * hp + 1);
        for (int ra = 0; ra < Rp; ++ra)
          for (int a = 0; a < Np; ++a)
            oracle(close_rel(sums2[ra][a], sums[ra][a], 8 * nterms * 5.97e-8), "fansum-projdata",
                   ctx + str(" detector (%d,%d): fan sum from projection data %g, from fan data %g", ra, a, sums2[ra][a],
                             sums[ra][a]));
      }
  }

  // ------------------------------------------------------------------------ efficiencies: fixed point, one step, KL descent
  {
    // data generated exactly from the model (products are exact in float) => eff is a fixed point
    DetectorEfficiencies e2 = eff;
    iterate_efficiencies(e2, sums, model);
    const int nterms = (2 * fan.get_max_delta() + 1) * (2 * hp + 1);
    for (int ra = 0; ra < Rp; ++ra)
      for (int a = 0; a < Np; ++a)
        oracle(close_rel(e2[ra][a], eff[ra][a], 4. * (Rp * Np) * (nterms + 3) * 5.97e-8), "fixed-point-eff",
               ctx + str(" detector (%d,%d): efficiency %g became %g although data = eff*eff*model", ra, a, eff[ra][a],
                         e2[ra][a]));
    // correspondence: one iteration from a perturbed start, with a dead detector (fan sum 0)
    DetectorEfficiencies e3(IndexRange2D(Rp, Np));
    for (int r = 0; r < Rp; ++r)
      for (int a = 0; a < Np; ++a)
        e3[r][a] = rng.range(4, 12) / 8.F;
    Array<2, float> sums3 = sums;
    const int zr = rng.range(0, Rp - 1), za = rng.range(0, Np - 1);
    sums3[zr][za] = 0.F;
    emit("fan" + dump_fan(model), "ok");
    emit("eff" + dump_tab(e3), "ok");
    emit("sums" + dump_tab(sums3), "ok");
    DetectorEfficiencies e4 = e3;
    iterate_efficiencies(e4, sums3, model);
    emit(Rp * Np <= 9 ? "itereff rat" : "itereff flt", dump_tab(e4).substr(1));
    oracle(e4[zr][za] == 0.F, "dead-detector", ctx + str(" fan sum 0 must give efficiency 0, got %g", e4[zr][za]));
  }
  {
    // Poisson data, symmetric; KL(data || eff*eff*model) over all detector pairs must not increase
    ++g_stats.kl_runs;
    FanProjData mean = model;
    apply_efficiencies(mean, eff, true);
    FanProjData data(Rp, Np, fan.get_max_delta(), 2 * hp + 1);
    {
      std::vector<float> vals;
      for_canon(mean, [&](int ra, int a, int rb, int b) {
        if (rb > ra || a < b % Np)
          vals.push_back(poisson(rng, 0.25 * mean(ra, a, rb, b)));
      });
      std::size_t k = 0;
      fill_sym(data, [&]() { return vals[k++]; });
    }
    Array<2, float> psums(IndexRange2D(Rp, Np));
    make_fan_sum_data(psums, data);
    DetectorEfficiencies e(IndexRange2D(Rp, Np));
    e.fill(std::sqrt(psums.sum() / model.sum()));
    const bool one_ring_diff = fan.get_max_delta() == 0; // then the library's KL is exactly twice the pair sum
    double prev = -1, prev_lib = -1;
    for (int it = 0; it <= 5; ++it)
      {
        FanProjData est = model;
        apply_efficiencies(est, e, true);
        const double kl = kl_pairs(data, est, 0.);
        const double kl_lib = KL(data, est, 0.);
        if (it > 0)
          {
            oracle(kl <= prev * (1 + 1e-5) + 1e-6, "kl-descent",
                   ctx + str(" efficiency iteration %d: KL over detector pairs went from %.9g to %.9g", it, prev, kl));
            const std::string t = ctx + str(" efficiency iteration %d: KL(FanProjData) went from %.9g to %.9g", it, prev_lib, kl_lib);
            if (one_ring_diff)
              oracle(kl_lib <= prev_lib * (1 + 1e-5) + 1e-6, "kl-descent-library", t);
            else // KL(FanProjData) counts LORs within a ring twice and LORs between rings once: not the objective of the update
              candidate(kl_lib <= prev_lib * (1 + 1e-5) + 1e-6, KEY_KL, t);
          }
        if (it == 1)
          { // correspondence of KL itself (model at binary64)
            emit("fan" + dump_fan(data), "ok");
            emit("fan2" + dump_fan(est), "ok");
            emit("kl 0x0p+0", vh::hex(kl_lib));
            emit("kl 0x1p+2", vh::hex(KL(data, est, 4.)));
          }
        prev = kl;
        prev_lib = kl_lib;
        iterate_efficiencies(e, psums, model);
      }
  }

  // ------------------------------------------------------------------------------------------------------- block factors
  if (hp <= Np / 2 - tcpb_p && ntb >= 2)
    {
      BlockData3D blk(nab, ntb, nab - 1, ntb - 1);
      fill_sym(blk, [&]() { return rng.range(4, 12) / 8.F; });
      emit(str("bdims %d %d %d %d", nab, ntb, nab - 1, ntb - 1), "ok");
      emit("blk" + dump_fan(blk), "ok");
      emit("fan" + dump_fan(model), "ok");
      FanProjData d2 = model;
      apply_block_norm(d2, blk, true);
      emit("appblk 1", dump_fan(d2).substr(1));
      FanProjData back = d2;
      apply_block_norm(back, blk, false);
      emit("fan" + dump_fan(d2), "ok");
      emit("appblk 0", dump_fan(back).substr(1));
      check_apply("block", model, d2, back);
      // ORACLE: the factor of an entry depends only on the two blocks
      {
        std::map<C4, double> factor;
        for_logical(model, [&](int ra, int a, int rb, int b) {
          const double f = static_cast<double>(d2(ra, a, rb, b)) / model(ra, a, rb, b);
          C4 cls(ra / acpb_p, a / tcpb_p, rb / acpb_p, b / tcpb_p);
          auto it = factor.find(cls);
          if (it == factor.end())
            factor[cls] = f;
          else
            oracle(close_rel(it->second, f, 8 * 5.97e-8), "block-class",
                   ctx + str(" entry (%d,%d,%d,%d) has block factor %g, another entry of the same block pair %g", ra, a, rb, b, f,
                             it->second));
          const double expected = static_cast<const BlockData3D&>(blk)(ra / acpb_p, a / tcpb_p, rb / acpb_p, b / tcpb_p);
          oracle(close_rel(f, expected, 8 * 5.97e-8), "apply-block-factor",
                 ctx + str(" entry (%d,%d,%d,%d): factor %g, block factor %g", ra, a, rb, b, f, expected));
        });
      }
      // measured block data, iteration, fixed point
      BlockData3D mb(nab, ntb, nab - 1, ntb - 1), eb(nab, ntb, nab - 1, ntb - 1);
      make_block_data(mb, d2);
      emit("mkblk", dump_fan(mb).substr(1));
      iterate_block_norm(eb, mb, model);
      emit("blk2" + dump_fan(mb), "ok");
      emit("fan" + dump_fan(model), "ok");
      emit("iterblk", dump_fan(eb).substr(1));
      for_canon(blk, [&](int ra, int a, int rb, int b) {
        if (mb(ra, a, rb, b) == 0)
          return; // no LOR between these blocks inside the window
        oracle(close_rel(eb(ra, a, rb, b), blk(ra, a, rb, b), 4. * (2 * acpb_p * acpb_p * tcpb_p * tcpb_p + 3) * 5.97e-8),
               "fixed-point-block",
               ctx + str(" block pair (%d,%d,%d,%d): factor %g became %g although data = block*model", ra, a, rb, b % ntb,
                         blk(ra, a, rb, b), eb(ra, a, rb, b)));
      });
    }
  else
    ++g_stats.block_skipped;

  // --------------------------------------------------------------------------------------------------- geometric factors
  if (tcpb_p % 2 == 0 && tcpb_p >= 2)
    {
      GeoData3D g0(acpb_p, tcpb_p / 2, Rp, Np);
      for_geo(model, g0, [&](int ra, int a, int rb, int b) { g0(ra, a, rb, b) = rng.range(4, 12) / 8.F; });
      emit(str("gdims %d %d %d %d", acpb_p, tcpb_p / 2, Rp, Np), "ok");
      emit("geo" + dump_geo(model, g0), "ok");
      emit("fan" + dump_fan(model), "ok");
      FanProjData d3 = model;
      apply_geo_norm(d3, g0, true);
      emit("appgeo 1", dump_fan(d3).substr(1));
      FanProjData back = d3;
      apply_geo_norm(back, g0, false);
      emit("fan" + dump_fan(d3), "ok");
      emit("appgeo 0", dump_fan(back).substr(1));
      check_apply("geo", model, d3, back);
      // measured geo data and one iteration (correspondence)
      GeoData3D mg(acpb_p, tcpb_p / 2, Rp, Np), eg(acpb_p, tcpb_p / 2, Rp, Np);
      make_geo_data(mg, d3);
      emit("mkgeo", dump_geo(model, mg).substr(1));
      iterate_geo_norm(eg, mg, model);
      emit("geo2" + dump_geo(model, mg), "ok");
      emit("fan" + dump_fan(model), "ok");
      emit("itergeo", dump_geo(model, eg).substr(1));
      // ORACLE: fixed point.  The geometric factors overlap (several of them describe the same LOR class), so a consistent
      // parameter set is needed: the ML estimate `eg` itself.  Data generated from it must reproduce it.
      FanProjData d4 = model;
      apply_geo_norm(d4, eg, true);
      // ORACLE: geometric class: entries related by block translation get the same factor
      {
        for_canon(model, [&](int ra, int a, int rb, int b) {
          const int a2 = (a + tcpb_p) % Np, b2 = (b + tcpb_p) % Np;
          const double f1 = static_cast<double>(d4(ra, a, rb, b)) / model(ra, a, rb, b);
          const double f2
              = static_cast<double>(static_cast<const FanProjData&>(d4)(ra, a2, rb, b2)) / static_cast<const FanProjData&>(model)(ra, a2, rb, b2);
          oracle(close_rel(f1, f2, 16 * 5.97e-8), "geo-class",
                 ctx + str(" entries (%d,%d,%d,%d) and (%d,%d,%d,%d) differ by one block but get geometric factors %g and %g", ra,
                           a, rb, b % Np, ra, a2, rb, b2, f1, f2));
        });
      }
      GeoData3D mg2(acpb_p, tcpb_p / 2, Rp, Np), eg2(acpb_p, tcpb_p / 2, Rp, Np);
      make_geo_data(mg2, d4);
      iterate_geo_norm(eg2, mg2, model);
      // (regression guard: before commit 58079aa5c make_geo_data dropped the axially mirrored LORs when exactly one ring of
      // the LOR was the central ring, which broke this for odd ring counts >= 5)
      for_geo(model, eg, [&](int ra, int a, int rb, int b) {
        oracle(close_rel(eg2(ra, a, rb, b), eg(ra, a, rb, b), 4. * (2 * 4 * nab * ntb + 6) * 5.97e-8), "fixed-point-geo",
               ctx + str(" geometric factor (%d,%d,%d,%d): %g became %g although data = geo*model", ra, a, rb, b % Np,
                         eg(ra, a, rb, b), eg2(ra, a, rb, b)));
      });
    }
  else
    ++g_stats.geo_skipped;
}


// ---------------------------------------------------------------------------------------------------------------------
// end to end: ML_estimate_component_based_normalisation on a tiny scanner, output files under <implfile>_ml*

template <class A>
static bool
read_array(A& a, const std::string& filename)
{
  std::ifstream in(filename.c_str());
  if (!in)
    return false;
  in >> a;
  return static_cast<bool>(in);
}

static void
run_end_to_end(vh::Rng& rng, const Cfg& c, const std::string& prefix, bool poisson_data)
{
  shared_ptr<Scanner> sc = make_block_scanner(c);
  const int N = sc->get_num_detectors_per_ring();
  shared_ptr<ProjDataInfo> pdi = vh::make_pdi(sc, 1, c.max_delta, N / 2, c.num_tang, false);
  shared_ptr<ExamInfo> ex = std::make_shared<ExamInfo>();
  const std::string ctx = str("[ML_estimate type=%d ntb=%d tcpb_phys=%d nab=%d acpb_phys=%d max_delta=%d num_tang=%d %s]", c.type, c.ntb,
                              c.tcpb_phys, c.nab, c.acpb_phys, c.max_delta, c.num_tang, poisson_data ? "Poisson" : "exact");
  const int vt = sc->get_num_virtual_transaxial_crystals_per_block(), va = sc->get_num_virtual_axial_crystals_per_block();
  const int acpb_p = sc->get_num_axial_crystals_per_block() - va, tcpb_p = sc->get_num_transaxial_crystals_per_block() - vt;
  const int nab = sc->get_num_axial_blocks(), ntb = sc->get_num_transaxial_blocks();

  // model projection data: positive everywhere
  ProjDataInMemory model_pd(ex, pdi);
  for (int s = model_pd.get_min_segment_num(); s <= model_pd.get_max_segment_num(); ++s)
    {
      SegmentBySinogram<float> seg = model_pd.get_empty_segment_by_sinogram(s);
      for (auto it = seg.begin_all(); it != seg.end_all(); ++it)
        *it = static_cast<float>(rng.range(20, 60));
      model_pd.set_segment(seg);
    }
  FanProjData model_fan;
  make_fan_data_remove_gaps(model_fan, model_pd);
  const int Rp = model_fan.get_num_rings(), Np = model_fan.get_num_detectors_per_ring();
  DetectorEfficiencies true_eff(IndexRange2D(Rp, Np));
  for (int r = 0; r < Rp; ++r)
    for (int a = 0; a < Np; ++a)
      true_eff[r][a] = rng.range(6, 10) / 8.F;
  FanProjData mean_fan = model_fan;
  apply_efficiencies(mean_fan, true_eff, true);
  if (poisson_data)
    {
      std::vector<float> vals;
      for_canon(mean_fan, [&](int ra, int a, int rb, int b) {
        if (rb > ra || a < b % Np)
          vals.push_back(poisson(rng, mean_fan(ra, a, rb, b)));
      });
      std::size_t k = 0;
      fill_sym(mean_fan, [&]() { return vals[k++]; });
    }
  ProjDataInMemory measured_pd(ex, pdi);
  set_fan_data_add_gaps(measured_pd, mean_fan, 0.F);

  const int num_eff = 6, num_iter = 2;
  const bool do_geo = tcpb_p % 2 == 0, do_block = true;
  ML_estimate_component_based_normalisation(prefix, measured_pd, model_pd, num_eff, num_iter, do_geo, do_block,
                                            /*do_symmetry_per_block*/ true, /*do_KL*/ false, /*do_display*/ false);

  // the same computation from the building blocks (each of them checked above), step by step as documented
  FanProjData measured_fan, fan;
  make_fan_data_remove_gaps(measured_fan, measured_pd);
  for_canon(model_fan, [&](int ra, int a, int rb, int b) {
    if (model_fan(ra, a, rb, b) == 0)
      measured_fan(ra, a, rb, b) = 0;
  });
  DetectorEfficiencies sums(IndexRange2D(Rp, Np)), eff(IndexRange2D(Rp, Np));
  GeoData3D measured_geo(acpb_p, tcpb_p / 2, Rp, Np), norm_geo(acpb_p, tcpb_p / 2, Rp, Np);
  BlockData3D measured_block(nab, ntb, nab - 1, ntb - 1), norm_block(nab, ntb, nab - 1, ntb - 1);
  make_fan_sum_data(sums, measured_fan);
  make_geo_data(measured_geo, measured_fan);
  make_block_data(measured_block, measured_fan);
  auto cmp2 = [&](const Array<2, float>& x, const Array<2, float>& y, const std::string& what) {
    bool ok = x.get_length() == y.get_length();
    if (ok)
      for (int r = x.get_min_index(); r <= x.get_max_index() && ok; ++r)
        for (int a = x[r].get_min_index(); a <= x[r].get_max_index(); ++a)
          if (!close_rel(x[r][a], y[r][a], 1e-5))
            {
              ok = false;
              break;
            }
    oracle(ok, "ml-estimate-eff", ctx + " file " + what + " differs from the documented sequence of iterate_* steps");
  };
  double prev_kl = -1;
  for (int iter = 1; iter <= num_iter; ++iter)
    {
      if (iter == 1)
        {
          eff.fill(std::sqrt(sums.sum() / model_fan.sum()));
          norm_geo.fill(1);
          norm_block.fill(1);
        }
      fan = model_fan;
      apply_geo_norm(fan, norm_geo);
      apply_block_norm(fan, norm_block);
      // The descent statement is about a symmetric product model.  Estimated block / geometric factors give the two stored
      // copies (ra,a,ra,b), (ra,b,ra,a) of an in-ring LOR different values (they belong to different block pairs), so from
      // the second outer iteration on the model in use need not be symmetric: the oracle is evaluated only when it is.
      double asym = 0;
      for_canon(fan, [&](int ra, int a, int rb, int b) {
        if (rb == ra)
          asym = std::max(asym, std::fabs(static_cast<double>(fan(ra, a, ra, b % Np)) - fan(ra, b % Np, ra, a))
                                    / std::max(1e-30, static_cast<double>(fan(ra, a, ra, b % Np))));
      });
      const bool model_symmetric = asym <= 1e-6;
      for (int e = 1; e <= num_eff; ++e)
        {
          // KL between the data and (model*geo*block)*eff*eff before this step
          FanProjData est = fan;
          apply_efficiencies(est, eff, true);
          const double kl_before = kl_pairs(measured_fan, est, 0.);
          iterate_efficiencies(eff, sums, fan);
          DetectorEfficiencies from_file;
          const std::string fn = str("%s_eff_%d_%d.out", prefix.c_str(), iter, e);
          if (!read_array(from_file, fn))
            oracle(false, "ml-estimate-output", ctx + " cannot read " + fn);
          else
            {
              cmp2(from_file, eff, str("eff_%d_%d", iter, e));
              // ORACLE through the top-level function: the efficiencies it wrote do not increase the KL distance
              FanProjData est2 = fan;
              apply_efficiencies(est2, from_file, true);
              const double kl_after = kl_pairs(measured_fan, est2, 0.);
              if (model_symmetric)
                oracle(kl_after <= kl_before * (1 + 1e-5) + 1e-6, "ml-estimate-kl-descent",
                     ctx + str(" outer iteration %d efficiency iteration %d: KL over detector pairs went from %.9g to %.9g", iter, e,
                               kl_before, kl_after));
              prev_kl = kl_after;
            }
        }
      fan = model_fan;
      apply_efficiencies(fan, eff);
      apply_block_norm(fan, norm_block);
      if (do_geo)
        iterate_geo_norm(norm_geo, measured_geo, fan);
      {
        GeoData3D from_file;
        const std::string fn = str("%s_geo_%d.out", prefix.c_str(), iter);
        if (!read_array(from_file, fn))
          oracle(false, "ml-estimate-output", ctx + " cannot read " + fn);
        else
          {
            bool ok = true;
            for_geo(model_fan, norm_geo, [&](int ra, int a, int rb, int b) {
              if (!close_rel(from_file(ra, a, rb, b), norm_geo(ra, a, rb, b), 1e-5))
                ok = false;
            });
            oracle(ok, "ml-estimate-geo", ctx + str(" file geo_%d differs from the documented sequence of iterate_* steps", iter));
          }
      }
      fan = model_fan;
      apply_efficiencies(fan, eff);
      apply_geo_norm(fan, norm_geo);
      if (do_block)
        iterate_block_norm(norm_block, measured_block, fan);
      {
        BlockData3D from_file;
        const std::string fn = str("%s_block_%d.out", prefix.c_str(), iter);
        if (!read_array(from_file, fn))
          oracle(false, "ml-estimate-output", ctx + " cannot read " + fn);
        else
          {
            bool ok = from_file.get_num_rings() == norm_block.get_num_rings()
                      && from_file.get_num_detectors_per_ring() == norm_block.get_num_detectors_per_ring();
            if (ok)
              for_canon(norm_block, [&](int ra, int a, int rb, int b) {
                if (!close_rel(from_file(ra, a, rb, b), norm_block(ra, a, rb, b), 1e-5))
                  ok = false;
              });
            oracle(ok, "ml-estimate-block", ctx + str(" file block_%d differs from the documented sequence of iterate_* steps", iter));
          }
      }
    }
  if (!poisson_data)
    { // data generated exactly from model*eff*eff: after the iterations the fan sums of the estimate reproduce those of the data
      FanProjData est = model_fan;
      apply_geo_norm(est, norm_geo);
      apply_block_norm(est, norm_block);
      apply_efficiencies(est, eff, true);
      const double kl0 = kl_pairs(measured_fan, model_fan, 0.);
      const double kl = kl_pairs(measured_fan, est, 0.);
      oracle(kl <= 1e-3 * kl0, "ml-estimate-fit",
             ctx + str(" data generated exactly from the model: KL of the estimate %.6g is not small against KL of the bare model %.6g", kl, kl0));
    }
  (void)prev_kl;
}

// Fixed (seed-independent) minimal cases, directly on FanProjData: the geometric fixed point with an odd number of rings
// (regression case of the defect repaired by commit 58079aa5c, strict) and the known finding about KL(FanProjData).
static void
run_known_reproductions()
{
  { // geometric factors: 5 rings of 8 detectors, blocks of 1x2 crystals, ring differences <= 2, half fan 2
    const int Rp = 5, Np = 8, md = 2, fs = 5, acpb = 1, tcpb = 2;
    vh::Rng rng(3);
    FanProjData model(Rp, Np, md, fs), noisy(Rp, Np, md, fs);
    fill_sym(model, [&]() { return static_cast<float>(1 + rng.range(0, 7)); });
    noisy = model;
    for_canon(noisy, [&](int ra, int a, int rb, int b) { noisy(ra, a, rb, b) *= (4 + ((ra * 7 + rb * 3 + a + (b % Np)) % 9)) / 8.F; });
    GeoData3D meas(acpb, tcpb / 2, Rp, Np), ghat(acpb, tcpb / 2, Rp, Np), meas2(acpb, tcpb / 2, Rp, Np), est(acpb, tcpb / 2, Rp, Np);
    make_geo_data(meas, noisy);
    iterate_geo_norm(ghat, meas, model); // the ML estimate: a consistent set of geometric factors
    FanProjData data = model;
    apply_geo_norm(data, ghat, true); // data generated exactly from it
    make_geo_data(meas2, data);
    iterate_geo_norm(est, meas2, model);
    for_geo(model, ghat, [&](int ra, int a, int rb, int b) {
      oracle(close_rel(est(ra, a, rb, b), ghat(ra, a, rb, b), 1e-5), "fixed-point-geo",
             str("[FanProjData(5 rings, 8 detectors, max ring diff 2, fan 5), GeoData3D(1, 1, 5, 8)] geometric factor (%d,%d,%d,%d): "
                    "%g became %g under iterate_geo_norm although data = apply_geo_norm(model, factors)",
                    ra, a, rb, b % Np, ghat(ra, a, rb, b), est(ra, a, rb, b)));
    });
  }
  { // KL: 3 rings of 6 detectors, all ring differences, half fan 1
    const int Rp = 3, Np = 6, md = 2, h = 1;
    vh::Rng rng(2);
    for (int skip = 0; skip < 4; ++skip)
      rng.next(); // (the stream position at which this data set was found)
    FanProjData model(Rp, Np, md, 2 * h + 1), data(Rp, Np, md, 2 * h + 1);
    fill_sym(model, [&]() { return static_cast<float>(rng.range(1, 20)); });
    fill_sym(data, [&]() { return static_cast<float>(rng.range(0, 12)); });
    Array<2, float> sums(IndexRange2D(Rp, Np));
    make_fan_sum_data(sums, data);
    DetectorEfficiencies e(IndexRange2D(Rp, Np));
    e.fill(std::sqrt(sums.sum() / model.sum()));
    double prev = -1, prev_lib = -1;
    for (int it = 0; it <= 6; ++it)
      {
        FanProjData est = model;
        apply_efficiencies(est, e, true);
        const double kl = kl_pairs(data, est, 0.), kl_lib = KL(data, est, 0.);
        if (it > 0)
          {
            oracle(kl <= prev * (1 + 1e-5) + 1e-6, "kl-descent",
                   str("[3 rings x 6 detectors] efficiency iteration %d: KL over detector pairs went from %.9g to %.9g", it, prev, kl));
            candidate(kl_lib <= prev_lib * (1 + 1e-5) + 1e-6, KEY_KL,
                      str("[FanProjData(3 rings, 6 detectors, max ring diff 2, fan 3), symmetric data] iterate_efficiencies step %d: "
                          "KL(FanProjData) went UP from %.9g to %.9g while the KL summed once per detector pair went down from %.9g to %.9g",
                          it, prev_lib, kl_lib, prev, kl));
          }
        prev = kl;
        prev_lib = kl_lib;
        iterate_efficiencies(e, sums, model);
      }
  }
}

int
main(int argc, char** argv)
{
  if (argc < 5)
    return 2;
  vh::quiet();
  vh::Rng rng(std::strtoull(argv[1], nullptr, 10) * 1315423911ULL + 20);
  const bool thorough = std::string(argv[2]) == "thorough";
  g_ops = std::fopen(argv[3], "w");
  g_out = std::fopen(argv[4], "w");
  g_orc = std::fopen((std::string(argv[4]) + ".oracle").c_str(), "w");
  if (!g_ops || !g_out || !g_orc)
    return 2;

  std::vector<Cfg> cfgs;
  // fixed tiny configurations (exact rational sweep on the model side) and one of each kind
  cfgs.push_back(Cfg{ 0, 3, 2, 1, 1, 0, 3 });  // 1 ring, 6 detectors
  cfgs.push_back(Cfg{ 0, 2, 2, 2, 1, 1, 3 });  // 2 rings, 4 detectors
  cfgs.push_back(Cfg{ 1, 4, 2, 1, 1, 0, 7 });  // transaxial gaps, 1 ring, 8 physical detectors
  cfgs.push_back(Cfg{ 2, 4, 2, 2, 2, 3, 7 });  // gaps both ways
  cfgs.push_back(Cfg{ 0, 4, 4, 2, 2, 3, 9 });
  cfgs.push_back(Cfg{ 2, 4, 4, 2, 2, 4, 11 });
  // generated
  const int want = thorough ? 160 : 14;
  int guard = 0;
  while (static_cast<int>(cfgs.size()) < want + 6 && ++guard < 100000)
    {
      Cfg c;
      c.type = rng.range(0, 2);
      c.ntb = rng.range(2, thorough ? 8 : 6);
      c.tcpb_phys = rng.range(1, thorough ? 6 : 4);
      c.nab = rng.range(1, 3);
      c.acpb_phys = rng.range(1, 3);
      const int vt = c.type >= 1, va = c.type == 2;
      const int N = c.ntb * (c.tcpb_phys + vt), Np = c.ntb * c.tcpb_phys, R = c.nab * (c.acpb_phys + va) - va;
      if (N % 2 || Np % 2 || N < 4 || Np < 4)
        continue;
      c.max_delta = rng.range(0, R - 1);
      c.num_tang = rng.range(3, N - 1);
      // the fan (after gap removal) must be smaller than the ring (assert in FanProjData's constructor)
      const int h = c.num_tang % 2 ? c.num_tang / 2 : c.num_tang / 2 - 1;
      const int fan_size = 2 * h + 1;
      const int new_fan = fan_size - (fan_size / (c.tcpb_phys + vt)) * vt;
      if (h < 1 || 2 * (new_fan / 2) + 1 >= Np)
        continue;
      // keep the amount of data per configuration bounded
      const long entries = static_cast<long>(R) * N * (c.max_delta + 1) * fan_size;
      if (entries > (thorough ? 60000 : 9000))
        continue;
      cfgs.push_back(c);
    }

  run_known_reproductions();
  for (std::size_t i = 0; i < cfgs.size(); ++i)
    {
      run_config(rng, cfgs[i], thorough);
      std::fflush(g_ops);
      std::fflush(g_out);
      std::fflush(g_orc);
    }
  for (int kind = 0; kind < 3; ++kind)
    run_error_config(rng, kind);
  {
    const std::string prefix = std::string(argv[4]) + "_ml";
    run_end_to_end(rng, Cfg{ 0, 4, 2, 2, 2, 3, 5 }, prefix + "0", false);
    run_end_to_end(rng, Cfg{ 0, 4, 2, 2, 2, 3, 5 }, prefix + "1", true);
    run_end_to_end(rng, Cfg{ 2, 4, 2, 2, 2, 4, 5 }, prefix + "2", true);
    if (thorough)
      {
        run_end_to_end(rng, Cfg{ 1, 6, 2, 1, 2, 1, 7 }, prefix + "3", true);
        run_end_to_end(rng, Cfg{ 0, 6, 4, 3, 1, 2, 9 }, prefix + "4", false);
      }
  }

  std::fprintf(g_orc,
               "INFO configs=%ld with_gaps=%ld window_bins=%ld fan_entries=%ld block_skipped=%ld geo_skipped=%ld kl_runs=%ld\n",
               g_stats.configs, g_stats.gap_configs, g_stats.bins, g_stats.entries, g_stats.block_skipped, g_stats.geo_skipped,
               g_stats.kl_runs);
  std::fprintf(g_orc, "ORACLE-DONE checks=%ld fails=%ld candidates=%ld\n", g_checks, g_fails, g_candidates);
  std::fclose(g_ops);
  std::fclose(g_out);
  std::fclose(g_orc);
  return 0;
}
