// C20 — implementation side.  Component-based normalisation (stir/ML_norm.h): conversions projection data <-> fan data,
// applying efficiencies / geometric / block factors, the three ML iterations, KL.
// Drives the REAL free functions of stir/ML_norm.h on generated cylindrical scanners (without virtual crystals, with
// transaxial virtual crystals [type Siemens_mMR], with transaxial+axial virtual crystals [type E1080]; STIR hard-wires the
// number of virtual crystals to the scanner type, so the generated scanners carry those types with generated sizes).
//
// Usage: c20_mlnorm <seed> <quick|thorough> <opsfile> <implfile>
//   <opsfile>  : one operation per line (answered by the Lean model, lean/Driver/C20.lean)
//   <implfile> : what the real code answered, same order
//   <implfile>.oracle : verdicts of the property's own statement evaluated on the implementation.
#include "stir_fixtures.h"
#include "common.h"
#include "stir/ML_norm.h"
#include "stir/ProjDataInMemory.h"
#include "stir/ExamInfo.h"
#include "stir/DetectionPositionPair.h"
#include "stir/IndexRange2D.h"
#include "stir/SegmentBySinogram.h"
#include "stir/multiply_crystal_factors.h"
#include "stir/recon_buildblock/ML_estimate_component_based_normalisation.h"
#include "stir/recon_buildblock/BinNormalisationPETFromComponents.h"
#include "stir/stream.h"
#include "stir/Sinogram.h"
#include "stir/IndexRange.h"
#include <algorithm>
#include <cstdarg>
#include <cmath>
#include <map>
#include <set>
#include <tuple>
#include <sys/types.h>
#include <sys/wait.h>
#include <unistd.h>

using namespace stir;

typedef std::tuple<int, int, int, int> C4;

static FILE *g_ops, *g_out, *g_orc;
static long g_checks = 0, g_fails = 0;
static std::map<std::string, long> g_fail_kinds;

static void
emit(const std::string& op, const std::string& ans)
{
  std::fprintf(g_ops, "%s\n", op.c_str());
  std::fprintf(g_out, "%s\n", ans.c_str());
}

// one oracle verdict; at most 3 lines per kind are written
static void
oracle(bool ok, const std::string& kind, const std::string& text)
{
  ++g_checks;
  if (ok)
    return;
  ++g_fails;
  if (++g_fail_kinds[kind] <= 3)
    std::fprintf(g_orc, "ORACLE-FAIL %s %s\n", kind.c_str(), text.c_str());
}

static long g_candidates = 0;
// a failure of the property in a class of inputs that is a known candidate defect of the implementation: one line per key
static void
candidate(bool ok, const std::string& key, const std::string& text)
{
  ++g_checks;
  if (ok)
    return;
  ++g_candidates;
  if (++g_fail_kinds[key] <= 1)
    std::fprintf(g_orc, "KNOWN-CANDIDATE %s %s\n", key.c_str(), text.c_str());
}

static const char* const KEY_KL = "kl-descent:library-KL-counts-in-ring-LORs-twice";
static const char* const KEY_BLOCK = "block-norm:fan-holds-two-crystals-of-one-block:BlockData3D-indexed-out-of-range";
static const char* const KEY_GEO_ODD = "geo-norm:odd-number-of-transaxial-crystals-per-block";
static const char* const KEY_ML_KL = "ml-estimate:do_KL-aborts";
static const char* const KEY_GEO_ONE = "geo-norm:one-transaxial-crystal-per-block:division-by-zero";

static std::string
str(const char* fmt, ...)
{
  char buf[512];
  va_list ap;
  va_start(ap, fmt);
  std::vsnprintf(buf, sizeof buf, fmt, ap);
  va_end(ap);
  return buf;
}

// ---------------------------------------------------------------------------------------------------------------------
// generated scanners

struct Cfg
{
  int type; // 0: no virtual crystals, 1: transaxial virtual crystal (mMR), 2: transaxial+axial (E1080)
  int ntb, tcpb_phys, nab, acpb_phys;
  int max_delta, num_tang;
  int abpb = 1, tbpb = 1; // axial / transaxial blocks per bucket
};

static Scanner::Type
scanner_type(int t)
{
  return t == 0 ? Scanner::User_defined_scanner : t == 1 ? Scanner::Siemens_mMR : Scanner::E1080;
}

static shared_ptr<Scanner>
make_block_scanner(const Cfg& c, int tof_bins = -1)
{
  const Scanner::Type type = scanner_type(c.type);
  const int vt = c.type >= 1 ? 1 : 0, va = c.type == 2 ? 1 : 0;
  const int tcpb = c.tcpb_phys + vt, acpb = c.acpb_phys + va;
  const int N = c.ntb * tcpb, R = c.nab * acpb - va;
  shared_ptr<Scanner> s(new Scanner(type, std::string("verif_c20"), N, R, N - 1, N - 1, 100.F + N / 4.F, 5.F, 4.F, 2.F, 0.F,
                                    /*axial blocks per bucket*/ c.abpb, /*transaxial blocks per bucket*/ c.tbpb, acpb, tcpb,
                                    /*singles units*/ 1, 1, /*layers*/ 1, 0.1F, 511.F, static_cast<short>(tof_bins),
                                    tof_bins > 0 ? 100.F : -1.F, tof_bins > 0 ? 400.F : -1.F, "Cylindrical"));
  return s;
}

// independent inverse of the gap removal: index (virtual crystals included) of the y-th physical crystal
static int
with_gaps(int y, int cpb, int v)
{
  int phys = -1;
  for (int x = 0;; ++x)
    {
      if (x % cpb < cpb - v)
        ++phys;
      if (phys == y)
        return x;
    }
}

// independent gap removal: number of physical crystals before x
static int
phys_index(int x, int cpb, int v)
{
  int n = 0;
  for (int y = 0; y < x; ++y)
    if (y % cpb < cpb - v)
      ++n;
  return n;
}

static bool
is_virtual(int x, int cpb, int v)
{
  return x % cpb >= cpb - v;
}

// ---------------------------------------------------------------------------------------------------------------------
// loops over fan data through the public interface

template <class F>
static void
for_canon(const FanProjData& fan, F f)
{
  for (int ra = fan.get_min_ra(); ra <= fan.get_max_ra(); ++ra)
    for (int a = fan.get_min_a(); a <= fan.get_max_a(); ++a)
      for (int rb = std::max(ra, fan.get_min_rb(ra)); rb <= fan.get_max_rb(ra); ++rb)
        for (int b = fan.get_min_b(a); b <= fan.get_max_b(a); ++b)
          f(ra, a, rb, b);
}

// every logical (ra,a,rb,b) of the fan / ring-difference window, b reduced
template <class F>
static void
for_logical(const FanProjData& fan, F f)
{
  const int N = fan.get_num_detectors_per_ring();
  for (int ra = fan.get_min_ra(); ra <= fan.get_max_ra(); ++ra)
    for (int a = fan.get_min_a(); a <= fan.get_max_a(); ++a)
      for (int rb = fan.get_min_rb(ra); rb <= fan.get_max_rb(ra); ++rb)
        for (int b = fan.get_min_b(a); b <= fan.get_max_b(a); ++b)
          f(ra, a, rb, b % N);
}

// symmetric fill: LOR (ra,a,rb,b) == LOR (rb,b,ra,a); for rb==ra the two orders are two storage entries
template <class G>
static void
fill_sym(FanProjData& fan, G gen)
{
  const int N = fan.get_num_detectors_per_ring();
  for_canon(fan, [&](int ra, int a, int rb, int b) {
    if (rb > ra)
      fan(ra, a, rb, b) = gen();
    else if (a < b % N)
      {
        const float v = gen();
        fan(ra, a, ra, b % N) = v;
        fan(ra, b % N, ra, a) = v;
      }
  });
}

static std::string
dump_fan(const FanProjData& fan)
{
  std::string s;
  for_canon(fan, [&](int ra, int a, int rb, int b) {
    s += ' ';
    s += vh::hex(fan(ra, a, rb, b));
  });
  return s;
}

static std::string
dump_tab(const Array<2, float>& t)
{
  std::string s;
  for (int r = t.get_min_index(); r <= t.get_max_index(); ++r)
    for (int a = t[r].get_min_index(); a <= t[r].get_max_index(); ++a)
      {
        s += ' ';
        s += vh::hex(t[r][a]);
      }
  return s;
}

// loop nest over geometric factors (as in apply_geo_norm)
template <class F>
static void
for_geo(const FanProjData& fan, const GeoData3D& geo, F f)
{
  for (int ra = 0; ra < geo.get_num_axial_crystals_per_block(); ++ra)
    for (int a = 0; a < geo.get_half_num_transaxial_crystals_per_block(); ++a)
      for (int rb = std::max(ra, fan.get_min_rb(ra)); rb <= fan.get_max_rb(ra); ++rb)
        for (int b = fan.get_min_b(a); b <= fan.get_max_b(a); ++b)
          f(ra, a, rb, b);
}

static std::string
dump_geo(const FanProjData& fan, const GeoData3D& geo)
{
  std::string s;
  for_geo(fan, geo, [&](int ra, int a, int rb, int b) {
    s += ' ';
    s += vh::hex(geo(ra, a, rb, b));
  });
  return s;
}

static bool
close_rel(double x, double y, double rel, double abs_tol = 0)
{
  return std::fabs(x - y) <= rel * std::max(std::fabs(x), std::fabs(y)) + abs_tol;
}

// Poisson sample (Knuth / normal approximation for larger means), deterministic from rng
static float
poisson(vh::Rng& rng, double mean)
{
  if (mean <= 0)
    return 0.F;
  if (mean < 30)
    {
      const double L = std::exp(-mean);
      int k = 0;
      double p = 1;
      do
        {
          ++k;
          p *= rng.unit();
        }
      while (p > L);
      return static_cast<float>(k - 1);
    }
  const double u1 = std::max(rng.unit(), 1e-12), u2 = rng.unit();
  const double g = std::sqrt(-2 * std::log(u1)) * std::cos(6.283185307179586 * u2);
  return static_cast<float>(std::max(0., std::floor(mean + std::sqrt(mean) * g + 0.5)));
}

// KL over every unordered detector pair ONCE (the objective the efficiency update maximises), with the library's scalar KL
static double
kl_pairs(const FanProjData& data, const FanProjData& est, double thr)
{
  const int N = data.get_num_detectors_per_ring();
  double sum = 0;
  for_canon(data, [&](int ra, int a, int rb, int b) {
    if (rb == ra && !(a < b % N))
      return;
    sum += KL(static_cast<double>(data(ra, a, rb, b)), static_cast<double>(est(ra, a, rb, b)), thr);
  });
  return sum;
}

// ---------------------------------------------------------------------------------------------------------------------

struct Stats
{
  long configs = 0, gap_configs = 0, bins = 0, entries = 0, block_skipped = 0, geo_skipped = 0, kl_runs = 0;
  long dp_sinograms_oblique = 0;
  long wide_configs = 0, wide_block = 0, wide_geo = 0, wide_below_threshold = 0, wide_big = 0, dp_wide = 0;
  long dp_configs = 0, dp_sinograms = 0, dp_entries = 0, mcf_configs = 0, mcf_bins = 0, ml_runs = 0, block_same_block = 0, geo_odd = 0;
} g_stats;

static void
run_error_config(vh::Rng& rng, int kind)
{
  // malformed stream: data the conversion must refuse (get_fan_info / make_fan_data_remove_gaps error branches)
  Cfg c{ 0, 4, 2, 1, 3, 2, 5 };
  shared_ptr<Scanner> sc = make_block_scanner(c, kind == 2 ? 5 : -1);
  const int N = sc->get_num_detectors_per_ring();
  shared_ptr<ProjDataInfo> pdi;
  if (kind == 0) // view mashing
    pdi = vh::make_pdi(sc, 1, 2, N / 4, 5, false);
  else if (kind == 1) // axial compression
    pdi = vh::make_pdi(sc, 3, 2, N / 2, 5, false);
  else // TOF
    pdi = vh::make_pdi(sc, 1, 2, N / 2, 5, false, 1);
  auto& cyl = dynamic_cast<const ProjDataInfoCylindrical&>(*pdi);
  std::string op = str("cfg %d %d %d %d %d %d %d %d %d %d %d 1 %d %d %d", N, sc->get_num_rings(),
                       sc->get_num_transaxial_crystals_per_block(), sc->get_num_axial_crystals_per_block(),
                       sc->get_num_virtual_transaxial_crystals_per_block(), sc->get_num_virtual_axial_crystals_per_block(),
                       sc->get_num_transaxial_blocks(), sc->get_num_axial_blocks(), pdi->get_min_tangential_pos_num(),
                       pdi->get_max_tangential_pos_num(), pdi->get_max_segment_num(), cyl.get_view_mashing_factor(),
                       cyl.get_max_ring_difference(0), pdi->is_tof_data() ? 1 : 0);
  ProjDataInMemory pd(std::make_shared<ExamInfo>(), pdi);
  pd.fill(1.F);
  std::string ans;
  try
    {
      FanProjData fan;
      make_fan_data_remove_gaps(fan, pd);
      ans = str("%d %d %d %d", fan.get_num_rings(), fan.get_num_detectors_per_ring(), fan.get_max_delta(),
                (fan.get_max_b(0) - fan.get_min_b(0)) / 2);
    }
  catch (...)
    {
      ans = "err";
    }
  emit(op, ans);
  // get_fan_info itself
  std::string ans2;
  try
    {
      int nr, nd, mrd, fs;
      get_fan_info(nr, nd, mrd, fs, *pdi);
      ans2 = str("%d %d %d %d", nr, nd, mrd, fs);
    }
  catch (...)
    {
      ans2 = "err";
    }
  emit("fi", ans2);
  // the property's statement for such data: the conversion is refused (not silently wrong)
  oracle(ans == "err", "refuse", str("make_fan_data_remove_gaps accepted data of kind %d (0 mashed, 1 span>1, 2 TOF)", kind));
}

static void
run_config(vh::Rng& rng, const Cfg& c, bool thorough)
{
  shared_ptr<Scanner> sc = make_block_scanner(c);
  const int N = sc->get_num_detectors_per_ring(), R = sc->get_num_rings();
  const int tcpb = sc->get_num_transaxial_crystals_per_block(), acpb = sc->get_num_axial_crystals_per_block();
  const int vt = sc->get_num_virtual_transaxial_crystals_per_block(), va = sc->get_num_virtual_axial_crystals_per_block();
  const int ntb = sc->get_num_transaxial_blocks(), nab = sc->get_num_axial_blocks();
  shared_ptr<ProjDataInfo> pdi = vh::make_pdi(sc, 1, c.max_delta, N / 2, c.num_tang, false);
  const auto& cyl = dynamic_cast<const ProjDataInfoCylindricalNoArcCorr&>(*pdi);
  const std::string ctx = str("[type=%d ntb=%d tcpb=%d nab=%d acpb=%d vt=%d va=%d max_delta=%d num_tang=%d]", c.type, ntb, tcpb,
                              nab, acpb, vt, va, c.max_delta, c.num_tang);
  ++g_stats.configs;
  if (vt || va)
    ++g_stats.gap_configs;

  // -------------------------------------------------------------------------------------------- projection data, distinct
  shared_ptr<ExamInfo> ex = std::make_shared<ExamInfo>();
  ProjDataInMemory pd(ex, pdi);
  {
    const long P = 1000003; // prime > number of bins, < 2^24: values are exact floats
    const long K = 1 + static_cast<long>(rng.next() % (P - 1));
    long idx = 0;
    for (int s = pd.get_min_segment_num(); s <= pd.get_max_segment_num(); ++s)
      {
        SegmentBySinogram<float> seg = pd.get_empty_segment_by_sinogram(s);
        for (int ax = seg.get_min_axial_pos_num(); ax <= seg.get_max_axial_pos_num(); ++ax)
          for (int v = seg.get_min_view_num(); v <= seg.get_max_view_num(); ++v)
            for (int tp = seg.get_min_tangential_pos_num(); tp <= seg.get_max_tangential_pos_num(); ++tp)
              seg[ax][v][tp] = static_cast<float>(1 + ((++idx) * K) % P);
        pd.set_segment(seg);
      }
  }
  const int h = std::min(pdi->get_max_tangential_pos_num(), -pdi->get_min_tangential_pos_num()); // the fan window

  FanProjData fan;
  make_fan_data_remove_gaps(fan, pd);
  const int Rp = fan.get_num_rings(), Np = fan.get_num_detectors_per_ring();
  const int hp = (fan.get_max_b(0) - fan.get_min_b(0)) / 2;

  emit(str("cfg %d %d %d %d %d %d %d %d %d %d %d 1 %d %d %d", N, R, tcpb, acpb, vt, va, ntb, nab,
           pdi->get_min_tangential_pos_num(), pdi->get_max_tangential_pos_num(), pdi->get_max_segment_num(),
           cyl.get_view_mashing_factor(), cyl.get_max_ring_difference(0), pdi->is_tof_data() ? 1 : 0),
       str("%d %d %d %d", Rp, Np, fan.get_max_delta(), hp));
  {
    int nr, nd, mrd, fs;
    get_fan_info(nr, nd, mrd, fs, *pdi);
    emit("fi", str("%d %d %d %d", nr, nd, mrd, fs));
  }

  // -------------------------------------------------------------------------------------------- where did each bin go?
  std::map<float, std::vector<C4>> where;
  for_logical(fan, [&](int ra, int a, int rb, int b) {
    const float v = fan(ra, a, rb, b);
    if (v != 0)
      where[v].push_back(C4(ra, a, rb, b));
    ++g_stats.entries;
  });

  ProjDataInMemory pd2(ex, pdi);
  pd2.fill(-7.F);
  const float gap_value = -3.F;
  set_fan_data_add_gaps(pd2, fan, gap_value);

  // fan data with a distinct id in every storage entry, and its conversion back
  FanProjData fan_ids = fan;
  std::map<float, C4> id_name;
  {
    float id = 0;
    for_canon(fan_ids, [&](int ra, int a, int rb, int b) {
      id += 1.F;
      fan_ids(ra, a, rb, b) = id;
      id_name[id] = C4(ra, a, rb, b);
    });
  }
  ProjDataInMemory pd3(ex, pdi);
  set_fan_data_add_gaps(pd3, fan_ids, -1.F);

  for (int s = pd.get_min_segment_num(); s <= pd.get_max_segment_num(); ++s)
    for (int ax = pd.get_min_axial_pos_num(s); ax <= pd.get_max_axial_pos_num(s); ++ax)
      for (int v = 0; v < N / 2; ++v)
        for (int tp = pdi->get_min_tangential_pos_num(); tp <= pdi->get_max_tangential_pos_num(); ++tp)
          {
            Bin bin(s, v, ax, tp);
            if (std::abs(tp) > h)
              continue; // outside the fan window: not covered by the property
            ++g_stats.bins;
            DetectionPositionPair<> dp;
            cyl.get_det_pos_pair_for_bin(dp, bin);
            const int a = dp.pos1().tangential_coord(), ra = dp.pos1().axial_coord();
            const int b = dp.pos2().tangential_coord(), rb = dp.pos2().axial_coord();
            const float x = pd.get_bin_value(bin);
            const bool in_gap = is_virtual(a, tcpb, vt) || is_virtual(b, tcpb, vt) || is_virtual(ra, acpb, va)
                                || is_virtual(rb, acpb, va);
            // correspondence: the fan entries that received this bin
            {
              std::string ans;
              auto it = where.find(x);
              if (it == where.end())
                ans = "gap";
              else
                {
                  std::vector<C4> l = it->second;
                  std::sort(l.begin(), l.end());
                  for (auto& q : l)
                    ans += str("%s%d,%d,%d,%d", ans.empty() ? "" : " ", std::get<0>(q), std::get<1>(q), std::get<2>(q),
                               std::get<3>(q));
                }
              emit(str("pair %d %d %d %d", a, ra, b, rb), ans);
            }
            // correspondence: the fan entry this bin is read from
            {
              const float y3 = pd3.get_bin_value(bin);
              std::string ans = "gap";
              if (y3 != -1.F)
                {
                  auto it = id_name.find(y3);
                  if (it == id_name.end())
                    ans = "unknown";
                  else
                    ans = str("%d %d %d %d", std::get<0>(it->second), std::get<1>(it->second), std::get<2>(it->second),
                              std::get<3>(it->second));
                }
              emit(str("unpair %d %d %d %d", a, ra, b, rb), ans);
            }
            // ORACLE (lossless round trip, gaps filled as requested)
            const float y = pd2.get_bin_value(bin);
            if (in_gap)
              oracle(y == gap_value, "gapfill",
                     ctx + str(" bin(seg=%d ax=%d view=%d tang=%d) of a virtual crystal: %g after the round trip, requested gap value %g",
                               s, ax, v, tp, y, gap_value));
            else
              oracle(y == x, "roundtrip",
                     ctx + str(" bin(seg=%d ax=%d view=%d tang=%d) dets (%d,%d)-(%d,%d): %g before, %g after proj->fan->proj", s, ax,
                               v, tp, ra, a, rb, b, x, y));
          }

  // ORACLE: each fan entry is the value of the bin the geometry assigns to that detector pair
  for_logical(fan, [&](int ra, int a, int rb, int b) {
    const int ga = with_gaps(a, tcpb, vt), gb = with_gaps(b, tcpb, vt), gra = with_gaps(ra, acpb, va),
              grb = with_gaps(rb, acpb, va);
    DetectionPositionPair<> dp(DetectionPosition<>(ga, gra, 0), DetectionPosition<>(gb, grb, 0));
    Bin bin;
    float expected = 0.F;
    if (cyl.get_bin_for_det_pos_pair(bin, dp) == Succeeded::yes && bin.segment_num() >= pdi->get_min_segment_num()
        && bin.segment_num() <= pdi->get_max_segment_num() && std::abs(bin.tangential_pos_num()) <= h
        && bin.axial_pos_num() >= pdi->get_min_axial_pos_num(bin.segment_num())
        && bin.axial_pos_num() <= pdi->get_max_axial_pos_num(bin.segment_num()))
      expected = pd.get_bin_value(bin);
    oracle(fan(ra, a, rb, b) == expected, "entry",
           ctx + str(" fan(%d,%d,%d,%d)=%g but the bin of detectors (%d,%d)-(%d,%d) holds %g", ra, a, rb, b, fan(ra, a, rb, b),
                     gra, ga, grb, gb, expected));
  });

  // -------------------------------------------------------------------------------------------- accessor / window
  for (int k = 0; k < (thorough ? 400 : 150); ++k)
    {
      const int ra = rng.range(0, Rp - 1), a = rng.range(0, Np - 1);
      const int rb = rng.range(fan.get_min_rb(ra), fan.get_max_rb(ra));
      const int b = rng.range(fan.get_min_b(a), fan.get_max_b(a)) % Np;
      const float id = static_cast<const FanProjData&>(fan_ids)(ra, a, rb, b);
      auto it = id_name.find(id);
      std::string nm = it == id_name.end() ? std::string("unknown")
                                           : str("%d %d %d %d", std::get<0>(it->second), std::get<1>(it->second),
                                                 std::get<2>(it->second), std::get<3>(it->second));
      emit(str("ent %d %d %d %d", ra, a, rb, b), str("%d %s", fan_ids.is_in_data(ra, a, rb, b) ? 1 : 0, nm.c_str()));
      // ORACLE: a LOR is the same whichever detector is named first (different rings: one storage entry)
      if (ra != rb)
        oracle(id == static_cast<const FanProjData&>(fan_ids)(rb, b, ra, a), "symmetric-storage",
               ctx + str(" fan(%d,%d,%d,%d) and fan(%d,%d,%d,%d) are different entries", ra, a, rb, b, rb, b, ra, a));
    }
  for (int k = 0; k < (thorough ? 200 : 60); ++k)
    { // is_in_data also outside the window
      const int ra = rng.range(0, Rp - 1), a = rng.range(0, Np - 1), rb = rng.range(-1, Rp), b = rng.range(0, Np - 1);
      emit(str("isin %d %d %d %d", ra, a, rb, b), str("%d", fan.is_in_data(ra, a, rb, b) ? 1 : 0));
    }

  // -------------------------------------------------------------------------------------------- factors
  const int acpb_p = acpb - va, tcpb_p = tcpb - vt;
  FanProjData model(Rp, Np, fan.get_max_delta(), 2 * hp + 1);
  fill_sym(model, [&]() { return static_cast<float>(rng.range(1, 200)); });
  DetectorEfficiencies eff(IndexRange2D(Rp, Np));
  for (int r = 0; r < Rp; ++r)
    for (int a = 0; a < Np; ++a)
      eff[r][a] = rng.range(4, 12) / 8.F;

  emit("fan" + dump_fan(model), "ok");
  emit("eff" + dump_tab(eff), "ok");

  auto check_apply = [&](const char* what, const FanProjData& before, const FanProjData& applied, const FanProjData& restored) {
    for_canon(before, [&](int ra, int a, int rb, int b) {
      oracle(close_rel(restored(ra, a, rb, b), before(ra, a, rb, b), 4 * 2 * 5.97e-8), std::string("unapply-") + what,
             ctx + str(" entry (%d,%d,%d,%d): %g, after apply %g, after un-apply %g", ra, a, rb, b % Np, before(ra, a, rb, b),
                       applied(ra, a, rb, b), restored(ra, a, rb, b)));
    });
  };

  // efficiencies
  FanProjData data_eff = model;
  apply_efficiencies(data_eff, eff, true);
  emit("appeff 1", dump_fan(data_eff).substr(1));
  {
    FanProjData back = data_eff;
    apply_efficiencies(back, eff, false);
    emit("fan" + dump_fan(data_eff), "ok");
    emit("appeff 0", dump_fan(back).substr(1));
    emit("fan" + dump_fan(model), "ok");
    check_apply("eff", model, data_eff, back);
    // ORACLE: each entry is multiplied by the product of the factors of its two detectors
    for_logical(model, [&](int ra, int a, int rb, int b) {
      const double expected = static_cast<double>(model(ra, a, rb, b)) * eff[ra][a] * eff[rb][b];
      oracle(close_rel(data_eff(ra, a, rb, b), expected, 4 * 2 * 5.97e-8), "apply-eff-product",
             ctx + str(" entry (%d,%d,%d,%d): %g * eff %g * eff %g gave %g", ra, a, rb, b, model(ra, a, rb, b), eff[ra][a],
                       eff[rb][b], data_eff(ra, a, rb, b)));
    });
  }
  // the normalisation object built from components: the efficiency of a bin is the product of its two detectors' factors,
  // 0 in the gaps
  {
    BinNormalisationPETFromComponents norm;
    norm.allocate(pdi, /*do_eff*/ true, /*do_geo*/ false, /*do_block*/ false, /*do_symmetry_per_block*/ true);
    norm.crystal_efficiencies() = eff;
    if (norm.set_up(ex, pdi) != Succeeded::yes)
      oracle(false, "norm-from-components", ctx + " BinNormalisationPETFromComponents::set_up failed");
    else
      for (int s = pd.get_min_segment_num(); s <= pd.get_max_segment_num(); ++s)
        for (int ax = pd.get_min_axial_pos_num(s); ax <= pd.get_max_axial_pos_num(s); ++ax)
          for (int v = 0; v < N / 2; ++v)
            for (int tp = -h; tp <= h; ++tp)
              {
                Bin bin(s, v, ax, tp);
                DetectionPositionPair<> dp;
                cyl.get_det_pos_pair_for_bin(dp, bin);
                const int a = dp.pos1().tangential_coord(), ra = dp.pos1().axial_coord();
                const int b = dp.pos2().tangential_coord(), rb = dp.pos2().axial_coord();
                const bool in_gap = is_virtual(a, tcpb, vt) || is_virtual(b, tcpb, vt) || is_virtual(ra, acpb, va)
                                    || is_virtual(rb, acpb, va);
                const double expected = in_gap ? 0.
                                               : static_cast<double>(eff[phys_index(ra, acpb, va)][phys_index(a, tcpb, vt)])
                                                     * eff[phys_index(rb, acpb, va)][phys_index(b, tcpb, vt)];
                const float got = norm.get_bin_efficiency(bin);
                oracle(close_rel(got, expected, 4 * 2 * 5.97e-8), "norm-from-components",
                       ctx + str(" bin(seg=%d ax=%d view=%d tang=%d) dets (%d,%d)-(%d,%d): bin efficiency %g, product of the two crystal efficiencies %g",
                                 s, ax, v, tp, ra, a, rb, b, got, expected));
              }
  }
  // multiply_crystal_factors (projection-data side, factors indexed by crystal number INCLUDING virtual crystals) agrees with
  // apply_efficiencies (fan side, physical crystals only); the factor of a virtual crystal is irrelevant after gap removal
  {
    Array<2, float> eff_full(IndexRange2D(R, N));
    for (int r = 0; r < R; ++r)
      for (int a = 0; a < N; ++a)
        eff_full[r][a] = (is_virtual(r, acpb, va) || is_virtual(a, tcpb, vt)) ? rng.range(4, 12) / 8.F
                                                                             : eff[phys_index(r, acpb, va)][phys_index(a, tcpb, vt)];
    ProjDataInMemory pdm(ex, pdi);
    pdm.fill(0.F);
    multiply_crystal_factors(pdm, eff_full, 2.F);
    FanProjData fm;
    make_fan_data_remove_gaps(fm, pdm);
    for_logical(fm, [&](int ra, int a, int rb, int b) {
      // (entries of the fan whose bin lies outside the tangential window of the projection data stay 0, as in the "entry" oracle)
      const int ga = with_gaps(a, tcpb, vt), gb = with_gaps(b, tcpb, vt), gra = with_gaps(ra, acpb, va), grb = with_gaps(rb, acpb, va);
      DetectionPositionPair<> dp(DetectionPosition<>(ga, gra, 0), DetectionPosition<>(gb, grb, 0));
      Bin bin;
      const bool in_window = cyl.get_bin_for_det_pos_pair(bin, dp) == Succeeded::yes && bin.segment_num() >= pdi->get_min_segment_num()
                             && bin.segment_num() <= pdi->get_max_segment_num() && std::abs(bin.tangential_pos_num()) <= h
                             && bin.axial_pos_num() >= pdi->get_min_axial_pos_num(bin.segment_num())
                             && bin.axial_pos_num() <= pdi->get_max_axial_pos_num(bin.segment_num());
      const double expected = in_window ? 2. * eff[ra][a] * eff[rb][b] : 0.;
      oracle(close_rel(fm(ra, a, rb, b), expected, 4 * 3 * 5.97e-8), "multiply-crystal-factors",
             ctx + str(" LOR (ring %d, det %d)-(ring %d, det %d) [with gaps (%d,%d)-(%d,%d)]: multiply_crystal_factors then gap removal gave %g, 2*eff*eff = %g", ra,
                       a, rb, b, gra, ga, grb, gb, fm(ra, a, rb, b), expected));
    });
  }

  // fan sums
  Array<2, float> sums(IndexRange2D(Rp, Np));
  make_fan_sum_data(sums, data_eff);
  emit("fan" + dump_fan(data_eff), "ok");
  emit("fansums", dump_tab(sums).substr(1));
  {
    // ORACLE: fan sum of a detector = sum over its LORs inside the window
    for (int ra = 0; ra < Rp; ++ra)
      for (int a = 0; a < Np; ++a)
        {
          double e = 0;
          int n = 0;
          for (int rb = std::max(0, ra - fan.get_max_delta()); rb <= std::min(Rp - 1, ra + fan.get_max_delta()); ++rb)
            for (int o = -hp; o <= hp; ++o)
              {
                e += static_cast<const FanProjData&>(data_eff)(ra, a, rb, (a + Np / 2 + o) % Np);
                ++n;
              }
          oracle(close_rel(sums[ra][a], e, 4 * n * 5.97e-8), "fansum",
                 ctx + str(" detector (%d,%d): fan sum %g, sum over its LORs %g", ra, a, sums[ra][a], e));
        }
    if (vt == 0 && va == 0)
      { // the projection-data overload agrees
        ProjDataInMemory pdd(ex, pdi);
        set_fan_data_add_gaps(pdd, data_eff, 0.F);
        Array<2, float> sums2(IndexRange2D(Rp, Np));
        make_fan_sum_data(sums2, pdd);
        const int nterms = (2 * fan.get_max_delta() + 1) * (2 * hp + 1);
        for (int ra = 0; ra < Rp; ++ra)
          for (int a = 0; a < Np; ++a)
            oracle(close_rel(sums2[ra][a], sums[ra][a], 8 * nterms * 5.97e-8), "fansum-projdata",
                   ctx + str(" detector (%d,%d): fan sum from projection data %g, from fan data %g", ra, a, sums2[ra][a],
                             sums[ra][a]));
      }
  }

  // ------------------------------------------------------------------------ efficiencies: fixed point, one step, KL descent
  {
    // data generated exactly from the model (products are exact in float) => eff is a fixed point
    DetectorEfficiencies e2 = eff;
    iterate_efficiencies(e2, sums, model);
    const int nterms = (2 * fan.get_max_delta() + 1) * (2 * hp + 1);
    for (int ra = 0; ra < Rp; ++ra)
      for (int a = 0; a < Np; ++a)
        oracle(close_rel(e2[ra][a], eff[ra][a], 4. * (Rp * Np) * (nterms + 3) * 5.97e-8), "fixed-point-eff",
               ctx + str(" detector (%d,%d): efficiency %g became %g although data = eff*eff*model", ra, a, eff[ra][a],
                         e2[ra][a]));
    // correspondence: one iteration from a perturbed start, with a dead detector (fan sum 0)
    DetectorEfficiencies e3(IndexRange2D(Rp, Np));
    for (int r = 0; r < Rp; ++r)
      for (int a = 0; a < Np; ++a)
        e3[r][a] = rng.range(4, 12) / 8.F;
    Array<2, float> sums3 = sums;
    const int zr = rng.range(0, Rp - 1), za = rng.range(0, Np - 1);
    sums3[zr][za] = 0.F;
    emit("fan" + dump_fan(model), "ok");
    emit("eff" + dump_tab(e3), "ok");
    emit("sums" + dump_tab(sums3), "ok");
    DetectorEfficiencies e4 = e3;
    iterate_efficiencies(e4, sums3, model);
    emit(Rp * Np <= 9 ? "itereff rat" : "itereff flt", dump_tab(e4).substr(1));
    oracle(e4[zr][za] == 0.F, "dead-detector", ctx + str(" fan sum 0 must give efficiency 0, got %g", e4[zr][za]));
  }
  // ------------------------------------------------------------------------ the versions without model (uniform model)
  {
    const int md = fan.get_max_delta();
    const int nterms = (2 * md + 1) * (2 * hp + 1);
    Array<2, float> s_nm(IndexRange2D(Rp, Np));
    make_fan_sum_data(s_nm, eff, md, hp);
    emit("eff" + dump_tab(eff), "ok");
    emit("fansumsnm", dump_tab(s_nm).substr(1));
    // ORACLE: they are the fan sums of the data generated from a model that is 1 on every LOR of the window
    FanProjData ones(Rp, Np, md, 2 * hp + 1);
    for_canon(ones, [&](int ra, int a, int rb, int b) { ones(ra, a, rb, b) = 1.F; });
    FanProjData ones_eff = ones;
    apply_efficiencies(ones_eff, eff, true);
    Array<2, float> s_ones(IndexRange2D(Rp, Np));
    make_fan_sum_data(s_ones, ones_eff);
    for (int ra = 0; ra < Rp; ++ra)
      for (int a = 0; a < Np; ++a)
        oracle(close_rel(s_nm[ra][a], s_ones[ra][a], 8 * (nterms + 2) * 5.97e-8), "fansum-no-model",
               ctx + str(" detector (%d,%d): make_fan_sum_data(efficiencies, %d, %d) gives %g, the fan sum of apply_efficiencies on a model of ones %g",
                         ra, a, md, hp, s_nm[ra][a], s_ones[ra][a]));
    // ORACLE: fixed point
    DetectorEfficiencies e2 = eff;
    iterate_efficiencies(e2, s_nm, md, hp);
    for (int ra = 0; ra < Rp; ++ra)
      for (int a = 0; a < Np; ++a)
        oracle(close_rel(e2[ra][a], eff[ra][a], 4. * (Rp * Np) * (nterms + 3) * 5.97e-8), "fixed-point-eff-no-model",
               ctx + str(" detector (%d,%d): efficiency %g became %g under the model-free iterate_efficiencies although the fan sums were made from it",
                         ra, a, eff[ra][a], e2[ra][a]));
    // correspondence + ORACLE: one iteration from a perturbed start = the iteration with the model of ones; dead detector
    DetectorEfficiencies e3(IndexRange2D(Rp, Np));
    for (int r = 0; r < Rp; ++r)
      for (int a = 0; a < Np; ++a)
        e3[r][a] = rng.range(4, 12) / 8.F;
    Array<2, float> sums3 = s_nm;
    const int zr = rng.range(0, Rp - 1), za = rng.range(0, Np - 1);
    sums3[zr][za] = 0.F;
    emit("eff" + dump_tab(e3), "ok");
    emit("sums" + dump_tab(sums3), "ok");
    DetectorEfficiencies e4 = e3, e5 = e3;
    iterate_efficiencies(e4, sums3, md, hp);
    emit(Rp * Np <= 9 ? "itereffnm rat" : "itereffnm flt", dump_tab(e4).substr(1));
    iterate_efficiencies(e5, sums3, ones);
    for (int ra = 0; ra < Rp; ++ra)
      for (int a = 0; a < Np; ++a)
        oracle(close_rel(e4[ra][a], e5[ra][a], 8. * (Rp * Np) * (nterms + 3) * 5.97e-8), "iterate-eff-no-model",
               ctx + str(" detector (%d,%d): model-free iterate_efficiencies gives %g, iterate_efficiencies with a model of ones %g", ra, a,
                         e4[ra][a], e5[ra][a]));
    oracle(e4[zr][za] == 0.F, "dead-detector-no-model", ctx + str(" fan sum 0 must give efficiency 0, got %g", e4[zr][za]));
    // ORACLE: KL descent with the uniform model, symmetric Poisson data
    FanProjData data(Rp, Np, md, 2 * hp + 1);
    {
      std::vector<float> vals;
      for_canon(ones_eff, [&](int ra, int a, int rb, int b) {
        if (rb > ra || a < b % Np)
          vals.push_back(poisson(rng, 8. * ones_eff(ra, a, rb, b)));
      });
      std::size_t k = 0;
      fill_sym(data, [&]() { return vals[k++]; });
    }
    Array<2, float> psums(IndexRange2D(Rp, Np));
    make_fan_sum_data(psums, data);
    DetectorEfficiencies e(IndexRange2D(Rp, Np));
    e.fill(std::sqrt(psums.sum() / ones.sum()));
    double prev = -1;
    for (int it = 0; it <= 4; ++it)
      {
        FanProjData est = ones;
        apply_efficiencies(est, e, true);
        const double kl = kl_pairs(data, est, 0.);
        if (it > 0)
          oracle(kl <= prev * (1 + 1e-5) + 1e-6, "kl-descent-no-model",
                 ctx + str(" model-free efficiency iteration %d: KL over detector pairs went from %.9g to %.9g", it, prev, kl));
        prev = kl;
        iterate_efficiencies(e, psums, md, hp);
      }
  }
  {
    // Poisson data, symmetric; KL(data || eff*eff*model) over all detector pairs must not increase
    ++g_stats.kl_runs;
    FanProjData mean = model;
    apply_efficiencies(mean, eff, true);
    FanProjData data(Rp, Np, fan.get_max_delta(), 2 * hp + 1);
    {
      std::vector<float> vals;
      for_canon(mean, [&](int ra, int a, int rb, int b) {
        if (rb > ra || a < b % Np)
          vals.push_back(poisson(rng, 0.25 * mean(ra, a, rb, b)));
      });
      std::size_t k = 0;
      fill_sym(data, [&]() { return vals[k++]; });
    }
    Array<2, float> psums(IndexRange2D(Rp, Np));
    make_fan_sum_data(psums, data);
    DetectorEfficiencies e(IndexRange2D(Rp, Np));
    e.fill(std::sqrt(psums.sum() / model.sum()));
    const bool one_ring_diff = fan.get_max_delta() == 0; // then the library's KL is exactly twice the pair sum
    double prev = -1, prev_lib = -1;
    for (int it = 0; it <= 5; ++it)
      {
        FanProjData est = model;
        apply_efficiencies(est, e, true);
        const double kl = kl_pairs(data, est, 0.);
        const double kl_lib = KL(data, est, 0.);
        if (it > 0)
          {
            oracle(kl <= prev * (1 + 1e-5) + 1e-6, "kl-descent",
                   ctx + str(" efficiency iteration %d: KL over detector pairs went from %.9g to %.9g", it, prev, kl));
            const std::string t = ctx + str(" efficiency iteration %d: KL(FanProjData) went from %.9g to %.9g", it, prev_lib, kl_lib);
            if (one_ring_diff)
              oracle(kl_lib <= prev_lib * (1 + 1e-5) + 1e-6, "kl-descent-library", t);
            else // KL(FanProjData) counts LORs within a ring twice and LORs between rings once: not the objective of the update
              candidate(kl_lib <= prev_lib * (1 + 1e-5) + 1e-6, KEY_KL, t);
          }
        if (it == 1)
          { // correspondence of KL itself (model at binary64)
            emit("fan" + dump_fan(data), "ok");
            emit("fan2" + dump_fan(est), "ok");
            emit("kl 0x0p+0", vh::hex(kl_lib));
            emit("kl 0x1p+2", vh::hex(KL(data, est, 4.)));
          }
        prev = kl;
        prev_lib = kl_lib;
        iterate_efficiencies(e, psums, model);
      }
  }

  // ------------------------------------------------------------------------------------------------------- block factors
  // The block data are made as ML_estimate_component_based_normalisation makes them.  When the fan holds two crystals of one block
  // (and the number of blocks is even) the pair (block, same block) has no entry in them: apply_block_norm / make_block_data would
  // index BlockData3D out of range (undefined behaviour; asked here through the implementation's own is_in_data, not executed).
  bool block_in_range = true;
  {
    const BlockData3D probe(nab, ntb, nab - 1, ntb - 1);
    int bad[4] = { 0, 0, 0, 0 };
    for_canon(model, [&](int ra, int a, int rb, int b) {
      if (block_in_range && !probe.is_in_data(ra / acpb_p, a / tcpb_p, rb / acpb_p, b / tcpb_p))
        {
          block_in_range = false;
          bad[0] = ra, bad[1] = a, bad[2] = rb, bad[3] = b;
        }
    });
    candidate(block_in_range, KEY_BLOCK,
              ctx + str(" FanProjData(%d,%d,%d,%d) with BlockData3D(%d,%d,%d,%d): detectors (%d,%d) and (%d,%d) of the fan lie in blocks (%d,%d) and (%d,%d), "
                        "BlockData3D::is_in_data(%d,%d,%d,%d) is false, so apply_block_norm / make_block_data / iterate_block_norm read and write outside the array",
                        Rp, Np, fan.get_max_delta(), 2 * hp + 1, nab, ntb, nab - 1, ntb - 1, bad[0], bad[1], bad[2], bad[3] % Np, bad[0] / acpb_p,
                        bad[1] / tcpb_p, bad[2] / acpb_p, (bad[3] / tcpb_p) % ntb, bad[0] / acpb_p, bad[1] / tcpb_p, bad[2] / acpb_p, bad[3] / tcpb_p));
    if (!block_in_range)
      ++g_stats.block_same_block;
  }
  if (block_in_range)
    {
      BlockData3D blk(nab, ntb, nab - 1, ntb - 1);
      fill_sym(blk, [&]() { return rng.range(4, 12) / 8.F; });
      emit(str("bdims %d %d %d %d", nab, ntb, nab - 1, ntb - 1), "ok");
      emit("blk" + dump_fan(blk), "ok");
      emit("fan" + dump_fan(model), "ok");
      FanProjData d2 = model;
      apply_block_norm(d2, blk, true);
      emit("appblk 1", dump_fan(d2).substr(1));
      FanProjData back = d2;
      apply_block_norm(back, blk, false);
      emit("fan" + dump_fan(d2), "ok");
      emit("appblk 0", dump_fan(back).substr(1));
      check_apply("block", model, d2, back);
      // ORACLE: the factor of an entry depends only on the two blocks
      {
        std::map<C4, double> factor;
        for_logical(model, [&](int ra, int a, int rb, int b) {
          const double f = static_cast<double>(d2(ra, a, rb, b)) / model(ra, a, rb, b);
          C4 cls(ra / acpb_p, a / tcpb_p, rb / acpb_p, b / tcpb_p);
          auto it = factor.find(cls);
          if (it == factor.end())
            factor[cls] = f;
          else
            oracle(close_rel(it->second, f, 8 * 5.97e-8), "block-class",
                   ctx + str(" entry (%d,%d,%d,%d) has block factor %g, another entry of the same block pair %g", ra, a, rb, b, f,
                             it->second));
          const double expected = static_cast<const BlockData3D&>(blk)(ra / acpb_p, a / tcpb_p, rb / acpb_p, b / tcpb_p);
          oracle(close_rel(f, expected, 8 * 5.97e-8), "apply-block-factor",
                 ctx + str(" entry (%d,%d,%d,%d): factor %g, block factor %g", ra, a, rb, b, f, expected));
        });
      }
      // measured block data, iteration, fixed point
      BlockData3D mb(nab, ntb, nab - 1, ntb - 1), eb(nab, ntb, nab - 1, ntb - 1);
      make_block_data(mb, d2);
      emit("mkblk", dump_fan(mb).substr(1));
      iterate_block_norm(eb, mb, model);
      emit("blk2" + dump_fan(mb), "ok");
      emit("fan" + dump_fan(model), "ok");
      emit("iterblk", dump_fan(eb).substr(1));
      for_canon(blk, [&](int ra, int a, int rb, int b) {
        if (mb(ra, a, rb, b) == 0)
          return; // no LOR between these blocks inside the window
        oracle(close_rel(eb(ra, a, rb, b), blk(ra, a, rb, b), 4. * (2 * acpb_p * acpb_p * tcpb_p * tcpb_p + 3) * 5.97e-8),
               "fixed-point-block",
               ctx + str(" block pair (%d,%d,%d,%d): factor %g became %g although data = block*model", ra, a, rb, b % ntb,
                         blk(ra, a, rb, b), eb(ra, a, rb, b)));
      });
    }
  else
    ++g_stats.block_skipped;

  // --------------------------------------------------------------------------------------------------- geometric factors
  // The geometric data are made as ML_estimate_component_based_normalisation makes them: GeoData3D(.., tcpb/2, ..).  With an odd
  // number of crystals per block the functions work with blocks of 2*(tcpb/2) crystals: the oracles that need the block structure
  // are reported under one key; with 1 crystal per block they divide by zero (evaluated in a child process).
  const bool geo_odd = tcpb_p % 2 != 0;
  if (tcpb_p == 1)
    {
      std::fflush(g_ops);
      std::fflush(g_out);
      std::fflush(g_orc);
      const pid_t pid = fork();
      if (pid == 0)
        {
          GeoData3D mg(acpb_p, tcpb_p / 2, Rp, Np);
          make_geo_data(mg, model);
          _exit(0);
        }
      int status = 0;
      waitpid(pid, &status, 0);
      candidate(WIFEXITED(status) && WEXITSTATUS(status) == 0, KEY_GEO_ONE,
                ctx + str(" make_geo_data(GeoData3D(%d,%d,%d,%d), FanProjData) as called by ML_estimate_component_based_normalisation for 1 transaxial crystal per "
                          "block terminates the process (%s %d): num_transaxial_detectors / (2*0)",
                          acpb_p, tcpb_p / 2, Rp, Np, WIFSIGNALED(status) ? "signal" : "exit", WIFSIGNALED(status) ? WTERMSIG(status) : WEXITSTATUS(status)));
      ++g_stats.geo_skipped;
    }
  else
    {
      if (geo_odd)
        ++g_stats.geo_odd;
      auto geo_oracle = [&](bool ok, const std::string& kind, const std::string& text) {
        if (geo_odd)
          candidate(ok, KEY_GEO_ODD, "[" + kind + "] " + text);
        else
          oracle(ok, kind, text);
      };
      GeoData3D g0(acpb_p, tcpb_p / 2, Rp, Np);
      for_geo(model, g0, [&](int ra, int a, int rb, int b) { g0(ra, a, rb, b) = rng.range(4, 12) / 8.F; });
      emit(str("gdims %d %d %d %d", acpb_p, tcpb_p / 2, Rp, Np), "ok");
      emit("geo" + dump_geo(model, g0), "ok");
      emit("fan" + dump_fan(model), "ok");
      FanProjData d3 = model;
      apply_geo_norm(d3, g0, true);
      emit("appgeo 1", dump_fan(d3).substr(1));
      FanProjData back = d3;
      apply_geo_norm(back, g0, false);
      emit("fan" + dump_fan(d3), "ok");
      emit("appgeo 0", dump_fan(back).substr(1));
      if (!geo_odd)
        check_apply("geo", model, d3, back);
      else // (blocks of 2*(tcpb/2) crystals need not tile the ring: entries outside get the factor 0 and cannot be restored)
        for_canon(model, [&](int ra, int a, int rb, int b) {
          geo_oracle(close_rel(back(ra, a, rb, b), model(ra, a, rb, b), 4 * 2 * 5.97e-8), "unapply-geo",
                     ctx + str(" entry (%d,%d,%d,%d): %g, after apply_geo_norm %g, after un-apply %g", ra, a, rb, b % Np, model(ra, a, rb, b),
                               d3(ra, a, rb, b), back(ra, a, rb, b)));
        });
      // measured geo data and one iteration (correspondence)
      GeoData3D mg(acpb_p, tcpb_p / 2, Rp, Np), eg(acpb_p, tcpb_p / 2, Rp, Np);
      make_geo_data(mg, d3);
      emit("mkgeo", dump_geo(model, mg).substr(1));
      iterate_geo_norm(eg, mg, model);
      emit("geo2" + dump_geo(model, mg), "ok");
      emit("fan" + dump_fan(model), "ok");
      emit("itergeo", dump_geo(model, eg).substr(1));
      // ORACLE: fixed point.  The geometric factors overlap (several of them describe the same LOR class), so a consistent
      // parameter set is needed: the ML estimate `eg` itself.  Data generated from it must reproduce it.
      FanProjData d4 = model;
      apply_geo_norm(d4, eg, true);
      // ORACLE: geometric class: entries related by block translation get the same factor
      {
        for_canon(model, [&](int ra, int a, int rb, int b) {
          const int a2 = (a + tcpb_p) % Np, b2 = (b + tcpb_p) % Np;
          const double f1 = static_cast<double>(d4(ra, a, rb, b)) / model(ra, a, rb, b);
          const double f2
              = static_cast<double>(static_cast<const FanProjData&>(d4)(ra, a2, rb, b2)) / static_cast<const FanProjData&>(model)(ra, a2, rb, b2);
          geo_oracle(close_rel(f1, f2, 16 * 5.97e-8), "geo-class",
                 ctx + str(" entries (%d,%d,%d,%d) and (%d,%d,%d,%d) differ by one block but get geometric factors %g and %g", ra,
                           a, rb, b % Np, ra, a2, rb, b2, f1, f2));
        });
      }
      GeoData3D mg2(acpb_p, tcpb_p / 2, Rp, Np), eg2(acpb_p, tcpb_p / 2, Rp, Np);
      make_geo_data(mg2, d4);
      iterate_geo_norm(eg2, mg2, model);
      // (regression guard: before commit 58079aa5c make_geo_data dropped the axially mirrored LORs when exactly one ring of
      // the LOR was the central ring, which broke this for odd ring counts >= 5)
      for_geo(model, eg, [&](int ra, int a, int rb, int b) {
        geo_oracle(close_rel(eg2(ra, a, rb, b), eg(ra, a, rb, b), 4. * (2 * 4 * nab * ntb + 6) * 5.97e-8), "fixed-point-geo",
               ctx + str(" geometric factor (%d,%d,%d,%d): %g became %g although data = geo*model", ra, a, rb, b % Np,
                         eg(ra, a, rb, b), eg2(ra, a, rb, b)));
      });
    }

  // ------------------------------------------------------------------------------------ wide dynamic range (round-4 extension)
  // The cases above use flat models (1..200) and factors of order 1: there the `find_max()/10000` threshold of iterate_geo_norm /
  // iterate_block_norm never decides anything.  Here: a compact source (model decaying by 2^-step per tangential offset from the fan
  // centre and by 4 per ring difference: 1e5..1e8 between classes; optionally exactly 0 at the fan edge), factors k/8 * 2^-e with
  // e = 0..26 (exponentially decaying), some factors exactly 0 (measured class sum 0 with a positive model sum), and - for block
  // factors - sometimes one factor >= 16384 on a class far below the threshold (the one case in which the guard returns 0).
  // All scalings are powers of two: the data are still exactly factor * model.
  {
    const int md = fan.get_max_delta();
    ++g_stats.wide_configs;
    const int step = std::max(1, (rng.range(0, 2) == 0 ? 18 : rng.coin() ? 26 : 40) / std::max(hp, 1));
    const bool zero_edge = hp >= 1 && rng.range(0, 2) == 0;
    FanProjData model_w = model;
    for_canon(model, [&](int ra, int a, int rb, int b) {
      const int o = std::abs(b - a - Np / 2);
      const float v = (zero_edge && o == hp) ? 0.F : std::ldexp(model(ra, a, rb, b), -(o * step + 2 * (rb - ra)));
      model_w(ra, a, rb, b) = v;
    });
    auto wide_factor = [&]() -> float {
      if (rng.range(0, 7) == 0)
        return 0.F;
      return std::ldexp(rng.range(4, 12) / 8.F, -rng.range(0, 26));
    };
    const std::string wctx = ctx + str(" [wide: model * 2^-(%d*|tang offset| + 2*ring diff)%s]", step, zero_edge ? ", 0 at the fan edge" : "");

    // efficiencies (iterate_efficiencies has no threshold, only `fan sum == 0 -> 0`): fixed point with efficiencies k/8 * 2^-e
    {
      DetectorEfficiencies eff_w(IndexRange2D(Rp, Np));
      for (int r = 0; r < Rp; ++r)
        for (int a = 0; a < Np; ++a)
          eff_w[r][a] = std::ldexp(rng.range(4, 12) / 8.F, -rng.range(0, 13));
      FanProjData dw = model_w;
      apply_efficiencies(dw, eff_w, true);
      Array<2, float> sw(IndexRange2D(Rp, Np));
      make_fan_sum_data(sw, dw);
      DetectorEfficiencies e2 = eff_w;
      iterate_efficiencies(e2, sw, model_w);
      const int nterms = (2 * md + 1) * (2 * hp + 1);
      for (int ra = 0; ra < Rp; ++ra)
        for (int a = 0; a < Np; ++a)
          oracle(close_rel(e2[ra][a], eff_w[ra][a], 4. * (Rp * Np) * (nterms + 3) * 5.97e-8), "fixed-point-eff-wide",
                 wctx + str(" detector (%d,%d): efficiency %g became %g although data = eff*eff*model", ra, a, eff_w[ra][a], e2[ra][a]));
      emit("fan" + dump_fan(model_w), "ok");
      emit("eff" + dump_tab(eff_w), "ok");
      emit("sums" + dump_tab(sw), "ok");
      emit(Rp * Np <= 9 ? "itereff rat" : "itereff flt", dump_tab(e2).substr(1));
    }

    if (block_in_range)
      {
        BlockData3D blk_w(nab, ntb, nab - 1, ntb - 1), mbw(nab, ntb, nab - 1, ntb - 1), ebw(nab, ntb, nab - 1, ntb - 1);
        fill_sym(blk_w, wide_factor);
        FanProjData dw = model_w;
        apply_block_norm(dw, blk_w, true);
        make_block_data(mbw, dw);
        // sometimes one factor >= 16384 on a class whose measured sum stays far below find_max()/10000 (the largest model class gets
        // a factor of order 1): the one case in which the guard must return 0 (correspondence with the model)
        bool big = false;
        if (mbw.find_max() > 0 && rng.coin())
          {
            BlockData3D mmw(nab, ntb, nab - 1, ntb - 1);
            make_block_data(mmw, model_w);
            const float mmx = mmw.find_max();
            std::vector<C4> low, top;
            for_canon(blk_w, [&](int ra, int a, int rb, int b) {
              if (!(rb > ra || a < b % ntb))
                return;
              if (mmw(ra, a, rb, b) == mmx)
                top.push_back(C4(ra, a, rb, b));
              else if (mmw(ra, a, rb, b) > 0 && mmw(ra, a, rb, b) * 49152.F * 4.0e4F < mmx * 0.5F)
                low.push_back(C4(ra, a, rb, b));
            });
            auto set_blk = [&](const C4& q, float f) {
              blk_w(std::get<0>(q), std::get<1>(q), std::get<2>(q), std::get<3>(q)) = f;
              if (std::get<0>(q) == std::get<2>(q))
                blk_w(std::get<0>(q), std::get<3>(q) % ntb, std::get<0>(q), std::get<1>(q)) = f;
            };
            if (!low.empty() && !top.empty())
              {
                set_blk(top[0], rng.range(4, 12) / 8.F);
                set_blk(low[rng.range(0, static_cast<int>(low.size()) - 1)], rng.range(4, 12) / 8.F * 32768.F);
                big = true;
                dw = model_w;
                apply_block_norm(dw, blk_w, true);
                make_block_data(mbw, dw);
              }
          }
        if (mbw.find_max() > 0)
          {
            ++g_stats.wide_block;
            emit(str("bdims %d %d %d %d", nab, ntb, nab - 1, ntb - 1), "ok");
            emit("blk" + dump_fan(blk_w), "ok");
            emit("fan" + dump_fan(model_w), "ok");
            emit("appblk 1", dump_fan(dw).substr(1));
            emit("fan" + dump_fan(dw), "ok");
            emit("mkblk", dump_fan(mbw).substr(1));
            iterate_block_norm(ebw, mbw, model_w);
            emit("blk2" + dump_fan(mbw), "ok");
            emit("fan" + dump_fan(model_w), "ok");
            emit("iterblk", dump_fan(ebw).substr(1));
            // ORACLE (fixed point): measured class sum 0 -> 0 (the factor is 0, or the model has no counts in this class);
            // otherwise the factor itself, provided it is below the hard-wired 10000 (C20_class_ratio_fixed_point)
            const float thr = mbw.find_max() / 10000.F;
            for_canon(blk_w, [&](int ra, int a, int rb, int b) {
              const float m = mbw(ra, a, rb, b), f = blk_w(ra, a, rb, b), e = ebw(ra, a, rb, b);
              if (m < thr)
                ++g_stats.wide_below_threshold;
              if (m == 0)
                oracle(e == 0.F, "fixed-point-block-wide-zero-class",
                       wctx + str(" block pair (%d,%d,%d,%d): measured block sum 0 but iterate_block_norm returned %g", ra, a, rb, b % ntb, e));
              else if (f < 10000.F)
                oracle(close_rel(e, f, 4. * (2 * acpb_p * acpb_p * tcpb_p * tcpb_p + 3) * 5.97e-8), "fixed-point-block-wide",
                       wctx + str(" block pair (%d,%d,%d,%d): factor %g became %g although data = block*model (measured block sum %g, largest %g)",
                                  ra, a, rb, b % ntb, f, e, m, mbw.find_max()));
              else
                oracle(e == 0.F || close_rel(e, f, 1e-5), "block-wide-factor-above-10000",
                       wctx + str(" block pair (%d,%d,%d,%d): factor %g >= 10000 must come back as itself or as 0, got %g", ra, a, rb, b % ntb, f, e));
            });
            if (big)
              ++g_stats.wide_big;
          }
      }

    if (tcpb_p >= 2)
      {
        auto geo_oracle = [&](bool ok, const std::string& kind, const std::string& text) {
          if (geo_odd)
            candidate(ok, KEY_GEO_ODD, "[" + kind + "] " + text);
          else
            oracle(ok, kind, text);
        };
        GeoData3D g0w(acpb_p, tcpb_p / 2, Rp, Np), mgw(acpb_p, tcpb_p / 2, Rp, Np), egw(acpb_p, tcpb_p / 2, Rp, Np);
        for_geo(model_w, g0w, [&](int ra, int a, int rb, int b) { g0w(ra, a, rb, b) = wide_factor(); });
        FanProjData d3w = model_w;
        apply_geo_norm(d3w, g0w, true);
        make_geo_data(mgw, d3w);
        if (mgw.find_max() > 0)
          {
            ++g_stats.wide_geo;
            emit(str("gdims %d %d %d %d", acpb_p, tcpb_p / 2, Rp, Np), "ok");
            emit("geo" + dump_geo(model_w, g0w), "ok");
            emit("fan" + dump_fan(model_w), "ok");
            emit("appgeo 1", dump_fan(d3w).substr(1));
            emit("fan" + dump_fan(d3w), "ok");
            emit("mkgeo", dump_geo(model_w, mgw).substr(1));
            iterate_geo_norm(egw, mgw, model_w);
            emit("geo2" + dump_geo(model_w, mgw), "ok");
            emit("fan" + dump_fan(model_w), "ok");
            emit("itergeo", dump_geo(model_w, egw).substr(1));
            // the ML estimate egw is a consistent parameter set: data generated from it must reproduce it
            FanProjData d4w = model_w;
            apply_geo_norm(d4w, egw, true);
            GeoData3D mg2w(acpb_p, tcpb_p / 2, Rp, Np), eg2w(acpb_p, tcpb_p / 2, Rp, Np);
            make_geo_data(mg2w, d4w);
            if (mg2w.find_max() > 0)
              {
                emit("geo" + dump_geo(model_w, egw), "ok");
                emit("appgeo 1", dump_fan(d4w).substr(1));
                emit("fan" + dump_fan(d4w), "ok");
                emit("mkgeo", dump_geo(model_w, mg2w).substr(1));
                iterate_geo_norm(eg2w, mg2w, model_w);
                emit("geo2" + dump_geo(model_w, mg2w), "ok");
                emit("fan" + dump_fan(model_w), "ok");
                emit("itergeo", dump_geo(model_w, eg2w).substr(1));
                const float thr = mg2w.find_max() / 10000.F;
                for_geo(model_w, egw, [&](int ra, int a, int rb, int b) {
                  const float m = mg2w(ra, a, rb, b), f = egw(ra, a, rb, b), e = eg2w(ra, a, rb, b);
                  if (m < thr)
                    ++g_stats.wide_below_threshold;
                  if (m == 0)
                    geo_oracle(e == 0.F, "fixed-point-geo-wide-zero-class",
                               wctx + str(" geometric factor (%d,%d,%d,%d): measured class sum 0 but iterate_geo_norm returned %g", ra, a, rb, b % Np, e));
                  else
                    geo_oracle(close_rel(e, f, 4. * (2 * 4 * nab * ntb + 6) * 5.97e-8), "fixed-point-geo-wide",
                               wctx + str(" geometric factor (%d,%d,%d,%d): %g became %g although data = geo*model (measured class sum %g, largest %g)",
                                          ra, a, rb, b % Np, f, e, m, mg2w.find_max()));
                });
              }
          }
      }
  }
}



// ---------------------------------------------------------------------------------------------------------------------
// the DetPairData family (one sinogram pair as detector pairs of a ring; virtual crystals are ordinary detectors here)

static void
fill_distinct(ProjDataInMemory& pd, vh::Rng& rng)
{
  const long P = 1000003; // prime > number of bins, < 2^24: values are exact floats
  const long K = 1 + static_cast<long>(rng.next() % (P - 1));
  long idx = 0;
  for (int s = pd.get_min_segment_num(); s <= pd.get_max_segment_num(); ++s)
    {
      SegmentBySinogram<float> seg = pd.get_empty_segment_by_sinogram(s);
      for (int ax = seg.get_min_axial_pos_num(); ax <= seg.get_max_axial_pos_num(); ++ax)
        for (int v = seg.get_min_view_num(); v <= seg.get_max_view_num(); ++v)
          for (int tp = seg.get_min_tangential_pos_num(); tp <= seg.get_max_tangential_pos_num(); ++tp)
            seg[ax][v][tp] = static_cast<float>(1 + ((++idx) * K) % P);
      pd.set_segment(seg);
    }
}

template <class F>
static void
for_dp(const DetPairData& dp, F f)
{
  for (int a = dp.get_min_index(); a <= dp.get_max_index(); ++a)
    for (int b = dp.get_min_index(a); b <= dp.get_max_index(a); ++b)
      f(a, b);
}

static std::string
dump_dp(const DetPairData& dp)
{
  std::string s;
  for_dp(dp, [&](int a, int b) {
    s += ' ';
    s += vh::hex(dp(a, b));
  });
  return s;
}

static std::string
dump_vec(const Array<1, float>& v)
{
  std::string s;
  for (int a = v.get_min_index(); a <= v.get_max_index(); ++a)
    {
      s += ' ';
      s += vh::hex(v[a]);
    }
  return s;
}

// symmetric fill: (a,b) and (b,a) are the same LOR (segment 0), two storage entries
template <class G>
static void
fill_sym_dp(DetPairData& dp, G gen)
{
  const int N = dp.get_num_detectors();
  const DetPairData& cdp = dp;
  for_dp(cdp, [&](int a, int b) {
    if (a < b % N)
      {
        const float v = gen();
        dp(a, b) = v;
        dp(b % N, a) = v;
      }
  });
}

static void
run_detpair(vh::Rng& rng, const Cfg& c, bool thorough)
{
  shared_ptr<Scanner> sc = make_block_scanner(c);
  const int N = sc->get_num_detectors_per_ring();
  const int cpb = sc->get_num_transaxial_crystals_per_block(), nb = sc->get_num_transaxial_blocks();
  shared_ptr<ProjDataInfo> pdi = vh::make_pdi(sc, 1, c.max_delta, N / 2, c.num_tang, false);
  const auto& cyl = dynamic_cast<const ProjDataInfoCylindricalNoArcCorr&>(*pdi);
  const int min_t = pdi->get_min_tangential_pos_num(), max_t = pdi->get_max_tangential_pos_num();
  const std::string ctx = str("[DetPairData type=%d N=%d rings=%d blocks=%d crystals/block=%d max_delta=%d num_tang=%d]", c.type, N,
                              sc->get_num_rings(), nb, cpb, c.max_delta, c.num_tang);
  ++g_stats.dp_configs;
  shared_ptr<ExamInfo> ex = std::make_shared<ExamInfo>();
  ProjDataInMemory pd(ex, pdi);
  fill_distinct(pd, rng);
  const double u = 5.97e-8;

  // ---------------------------------------------------------------------------- projection data <-> detector pairs
  // every segment and every axial position of the span-1 data (round-4 extension; before: 2-3 random axial positions per segment)
  for (int seg = 0; seg <= pdi->get_max_segment_num(); ++seg)
    for (int ax = pdi->get_min_axial_pos_num(seg); ax <= pdi->get_max_axial_pos_num(seg); ++ax)
      {
        ++g_stats.dp_sinograms;
        if (seg != 0)
          ++g_stats.dp_sinograms_oblique;
        DetPairData dp;
        make_det_pair_data(dp, pd, seg, ax);
        const DetPairData& cdp = dp;
        const int h = (dp.get_max_index(0) - dp.get_min_index(0)) / 2;
        emit(str("dpcfg %d %d %d", N, min_t, max_t), str("%d %d", dp.get_num_detectors(), h));
        const Sinogram<float> pos = pd.get_sinogram(ax, seg), neg = pd.get_sinogram(ax, -seg);
        std::string op = "mkdp", op2 = str("setdp %d", seg != 0 ? 1 : 0);
        for (int v = 0; v < N / 2; ++v)
          for (int tp = min_t; tp <= max_t; ++tp)
            {
              int a = 0, b = 0;
              cyl.get_det_num_pair_for_view_tangential_pos_num(a, b, v, tp);
              op += str(" %d %d ", a, b) + vh::hex(pos[v][tp]) + " " + vh::hex(neg[v][tp]);
              op2 += str(" %d %d", a, b);
            }
        emit(op, dump_dp(dp).substr(1));
        // and back, into projection data filled with a marker
        ProjDataInMemory pd2(ex, pdi);
        pd2.fill(-7.F);
        set_det_pair_data(pd2, dp, seg, ax);
        const Sinogram<float> pos2 = pd2.get_sinogram(ax, seg), neg2 = pd2.get_sinogram(ax, -seg);
        std::string ans2;
        for (int v = 0; v < N / 2; ++v)
          for (int tp = min_t; tp <= max_t; ++tp)
            {
              ans2 += (ans2.empty() ? "" : " ") + vh::hex(pos2[v][tp]);
              if (seg != 0)
                ans2 += " " + vh::hex(neg2[v][tp]);
              // ORACLE: the conversion to detector pairs and back is lossless
              oracle(pos2[v][tp] == pos[v][tp] && (seg == 0 || neg2[v][tp] == neg[v][tp]), "dp-roundtrip",
                     ctx + str(" segment +-%d axial pos %d view %d tang %d: %g / %g before, %g / %g after proj->det pairs->proj", seg, ax,
                               v, tp, pos[v][tp], neg[v][tp], pos2[v][tp], neg2[v][tp]));
            }
        emit(op2, ans2);
        // ORACLE: no other sinogram is written (every other sinogram of the data)
        for (int s2 = pdi->get_min_segment_num(); s2 <= pdi->get_max_segment_num(); ++s2)
          for (int ax2 = pdi->get_min_axial_pos_num(s2); ax2 <= pdi->get_max_axial_pos_num(s2); ++ax2)
          if (!((s2 == seg || s2 == -seg) && ax2 == ax))
            {
              const Sinogram<float> other = pd2.get_sinogram(ax2, s2);
              bool untouched = true;
              for (int v = 0; v < N / 2; ++v)
                for (int tp = min_t; tp <= max_t; ++tp)
                  if (other[v][tp] != -7.F)
                    untouched = false;
              oracle(untouched, "dp-set-other-sinogram",
                     ctx + str(" set_det_pair_data(segment %d, axial pos %d) changed sinogram (segment %d, axial pos %d)", seg, ax, s2, ax2));
            }
        // ORACLE: each entry is the value of the bin that the geometry assigns to that detector pair
        int r1 = 0, r2 = 0;
        cyl.get_ring_pair_for_segment_axial_pos_num(r1, r2, seg, ax);
        for_dp(cdp, [&](int x, int yy) {
          const int y = yy % N;
          ++g_stats.dp_entries;
          DetectionPositionPair<> dpp(DetectionPosition<>(x, r1, 0), DetectionPosition<>(y, r2, 0));
          Bin bin;
          float expected = 0.F;
          if (cyl.get_bin_for_det_pos_pair(bin, dpp) == Succeeded::yes && bin.segment_num() >= pdi->get_min_segment_num()
              && bin.segment_num() <= pdi->get_max_segment_num() && bin.tangential_pos_num() >= min_t && bin.tangential_pos_num() <= max_t
              && bin.axial_pos_num() >= pdi->get_min_axial_pos_num(bin.segment_num())
              && bin.axial_pos_num() <= pdi->get_max_axial_pos_num(bin.segment_num()))
            expected = pd.get_bin_value(bin);
          oracle(cdp(x, y) == expected, "dp-entry",
                 ctx + str(" segment +-%d axial pos %d: det_pair_data(%d,%d)=%g but the bin of detectors (ring %d, %d)-(ring %d, %d) holds %g", seg,
                           ax, x, y, cdp(x, y), r1, x, r2, y, expected));
          oracle(cdp.is_in_data(x, y), "dp-is-in-data", ctx + str(" is_in_data(%d,%d) is false for an entry of the loop nest", x, y));
        });
      }

  // ---------------------------------------------------------------------------- factors
  DetPairData model;
  make_det_pair_data(model, *pdi, 0, 0);
  const DetPairData& cmodel = model;
  const int h = (model.get_max_index(0) - model.get_min_index(0)) / 2;
  emit(str("dpcfg %d %d %d", N, min_t, max_t), str("%d %d", model.get_num_detectors(), h));
  {
    bool zero = true;
    for_dp(cmodel, [&](int a, int b) { zero = zero && cmodel(a, b) == 0.F; });
    oracle(zero, "dp-make-empty", ctx + " make_det_pair_data(ProjDataInfo) is not filled with 0");
  }
  fill_sym_dp(model, [&]() { return static_cast<float>(rng.range(1, 200)); });
  Array<1, float> eff(0, N - 1);
  for (int a = 0; a < N; ++a)
    eff[a] = rng.range(4, 12) / 8.F;
  emit("dpfan" + dump_dp(model), "ok");
  emit("dpeff" + dump_vec(eff), "ok");

  auto check_unapply = [&](const char* what, const DetPairData& before, const DetPairData& applied, const DetPairData& restored) {
    for_dp(before, [&](int a, int b) {
      oracle(close_rel(restored(a, b), before(a, b), 4 * 2 * u), std::string("dp-unapply-") + what,
             ctx + str(" entry (%d,%d): %g, after apply %g, after un-apply %g", a, b % N, before(a, b), applied(a, b), restored(a, b)));
    });
  };

  DetPairData data_eff = model;
  apply_efficiencies(data_eff, eff, true);
  emit("dpappeff 1", dump_dp(data_eff).substr(1));
  {
    DetPairData back = data_eff;
    apply_efficiencies(back, eff, false);
    emit("dpfan" + dump_dp(data_eff), "ok");
    emit("dpappeff 0", dump_dp(back).substr(1));
    emit("dpfan" + dump_dp(model), "ok");
    check_unapply("eff", model, data_eff, back);
    const DetPairData& cd = data_eff;
    for_dp(cmodel, [&](int a, int b) {
      const double expected = static_cast<double>(cmodel(a, b)) * eff[a] * eff[b % N];
      oracle(close_rel(cd(a, b), expected, 4 * 2 * u), "dp-apply-eff-product",
             ctx + str(" entry (%d,%d): %g * eff %g * eff %g gave %g", a, b % N, cmodel(a, b), eff[a], eff[b % N], cd(a, b)));
    });
  }
  // fan sums
  Array<1, float> sums(0, N - 1);
  make_fan_sum_data(sums, data_eff);
  emit("dpfan" + dump_dp(data_eff), "ok");
  emit("dpfansums", dump_vec(sums).substr(1));
  {
    const DetPairData& cd = data_eff;
    for (int a = 0; a < N; ++a)
      {
        double e = 0;
        for (int o = -h; o <= h; ++o)
          e += cd(a, (a + N / 2 + o) % N);
        oracle(close_rel(sums[a], e, 4 * (2 * h + 1) * u), "dp-fansum", ctx + str(" detector %d: fan sum %g, sum over its LORs %g", a, sums[a], e));
      }
  }
  // efficiencies: fixed point, one step from a perturbed start with a dead detector, KL descent
  {
    Array<1, float> e2 = eff;
    iterate_efficiencies(e2, sums, model);
    for (int a = 0; a < N; ++a)
      oracle(close_rel(e2[a], eff[a], 4. * N * (2 * h + 4) * u), "dp-fixed-point-eff",
             ctx + str(" detector %d: efficiency %g became %g although data = eff*eff*model", a, eff[a], e2[a]));
    Array<1, float> e3(0, N - 1);
    for (int a = 0; a < N; ++a)
      e3[a] = rng.range(4, 12) / 8.F;
    Array<1, float> sums3 = sums;
    const int za = rng.range(0, N - 1);
    sums3[za] = 0.F;
    emit("dpfan" + dump_dp(model), "ok");
    emit("dpeff" + dump_vec(e3), "ok");
    emit("dpsums" + dump_vec(sums3), "ok");
    Array<1, float> e4 = e3;
    iterate_efficiencies(e4, sums3, model);
    emit(N <= 8 ? "dpitereff rat" : "dpitereff flt", dump_vec(e4).substr(1));
    oracle(e4[za] == 0.F, "dp-dead-detector", ctx + str(" fan sum 0 must give efficiency 0, got %g", e4[za]));
  }
  {
    DetPairData mean = model;
    apply_efficiencies(mean, eff, true);
    DetPairData data = model;
    {
      const DetPairData& cmean = mean;
      std::vector<float> vals;
      for_dp(cmean, [&](int a, int b) {
        if (a < b % N)
          vals.push_back(poisson(rng, 0.25 * cmean(a, b)));
      });
      std::size_t k = 0;
      fill_sym_dp(data, [&]() { return vals[k++]; });
    }
    Array<1, float> psums(0, N - 1);
    make_fan_sum_data(psums, data);
    Array<1, float> e(0, N - 1);
    e.fill(std::sqrt(psums.sum() / model.sum()));
    double prev = -1;
    for (int it = 0; it <= 5; ++it)
      {
        DetPairData est = model;
        apply_efficiencies(est, e, true);
        // (a,b) and (b,a) are both stored and both summed: KL(DetPairData) is exactly twice the sum over detector pairs
        const double kl = KL(data, est, 0.);
        if (it > 0)
          oracle(kl <= prev * (1 + 1e-5) + 1e-6, "dp-kl-descent",
                 ctx + str(" efficiency iteration %d: KL(DetPairData) between symmetric data and the product model went from %.9g to %.9g", it,
                           prev, kl));
        if (it == 1)
          {
            emit("dpfan" + dump_dp(data), "ok");
            emit("dpfan2" + dump_dp(est), "ok");
            emit("dpkl 0x0p+0", vh::hex(kl));
            emit("dpkl 0x1p+2", vh::hex(KL(data, est, 4.)));
          }
        prev = kl;
        iterate_efficiencies(e, psums, model);
      }
  }
  // block factors
  {
    BlockData blk(IndexRange2D(nb, nb)), mb(IndexRange2D(nb, nb)), eb(IndexRange2D(nb, nb));
    for (int i = 0; i < nb; ++i)
      for (int j = 0; j < nb; ++j)
        blk[i][j] = rng.range(4, 12) / 8.F;
    emit(str("dpblk %d", nb) + dump_tab(blk), "ok");
    emit("dpfan" + dump_dp(model), "ok");
    DetPairData d2 = model;
    apply_block_norm(d2, blk, true);
    emit("dpappblk 1", dump_dp(d2).substr(1));
    DetPairData back = d2;
    apply_block_norm(back, blk, false);
    emit("dpfan" + dump_dp(d2), "ok");
    emit("dpappblk 0", dump_dp(back).substr(1));
    check_unapply("block", model, d2, back);
    const DetPairData& cd2 = d2;
    for_dp(cmodel, [&](int a, int b) {
      const double f = static_cast<double>(cd2(a, b)) / cmodel(a, b);
      const double expected = blk[a / cpb][(b % N) / cpb];
      oracle(close_rel(f, expected, 8 * u), "dp-apply-block-factor",
             ctx + str(" entry (%d,%d): factor %g, factor of blocks (%d,%d) %g", a, b % N, f, a / cpb, (b % N) / cpb, expected));
    });
    make_block_data(mb, d2);
    emit("dpmkblk", dump_tab(mb).substr(1));
    iterate_block_norm(eb, mb, model);
    emit("dpblk2" + dump_tab(mb), "ok");
    emit("dpfan" + dump_dp(model), "ok");
    emit("dpiterblk", dump_tab(eb).substr(1));
    for (int i = 0; i < nb; ++i)
      for (int j = 0; j < nb; ++j)
        if (mb[i][j] != 0)
          oracle(close_rel(eb[i][j], blk[i][j], 4. * (2 * cpb * cpb + 6) * u), "dp-fixed-point-block",
                 ctx + str(" block pair (%d,%d): factor %g became %g although data = block*model", i, j, blk[i][j], eb[i][j]));
  }
  // geometric factors
  if (cpb % 2 == 0 && cpb >= 2)
    {
      const int half = cpb / 2;
      GeoData g0(IndexRange2D(half, N)), mg(IndexRange2D(half, N)), eg(IndexRange2D(half, N));
      for (int i = 0; i < half; ++i)
        for (int j = 0; j < N; ++j)
          g0[i][j] = rng.range(4, 12) / 8.F;
      emit(str("dpgeo %d", half) + dump_tab(g0), "ok");
      emit("dpfan" + dump_dp(model), "ok");
      DetPairData d3 = model;
      apply_geo_norm(d3, g0, true);
      emit("dpappgeo 1", dump_dp(d3).substr(1));
      DetPairData back = d3;
      apply_geo_norm(back, g0, false);
      emit("dpfan" + dump_dp(d3), "ok");
      emit("dpappgeo 0", dump_dp(back).substr(1));
      check_unapply("geo", model, d3, back);
      const DetPairData& cd3 = d3;
      // ORACLE: geometric class: a block translation and the mirror image get the same factor
      for_dp(cmodel, [&](int a, int b) {
        const double f = static_cast<double>(cd3(a, b)) / cmodel(a, b);
        const int a2 = (a + cpb) % N, b2 = (b + cpb) % N, am = N - 1 - a, bm = (2 * N - 1 - b) % N;
        const double f2 = static_cast<double>(cd3(a2, b2)) / cmodel(a2, b2), fm = static_cast<double>(cd3(am, bm)) / cmodel(am, bm);
        oracle(close_rel(f, f2, 16 * u) && close_rel(f, fm, 16 * u), "dp-geo-class",
               ctx + str(" entry (%d,%d) has geometric factor %g, its block translation (%d,%d) %g, its mirror image (%d,%d) %g", a, b % N, f,
                         a2, b2, f2, am, bm, fm));
        if (a < half)
          oracle(close_rel(f, g0[a][b % N], 8 * u), "dp-apply-geo-factor",
                 ctx + str(" entry (%d,%d) of the first half block: factor %g, geometric factor %g", a, b % N, f, g0[a][b % N]));
      });
      make_geo_data(mg, d3);
      emit("dpmkgeo", dump_tab(mg).substr(1));
      iterate_geo_norm(eg, mg, model);
      emit("dpgeo2" + dump_tab(mg), "ok");
      emit("dpfan" + dump_dp(model), "ok");
      emit("dpitergeo", dump_tab(eg).substr(1));
      for (int i = 0; i < half; ++i)
        for (int bb = model.get_min_index(i); bb <= model.get_max_index(i); ++bb)
          oracle(close_rel(eg[i][bb % N], g0[i][bb % N], 4. * (2 * (2 * nb + 3) + 4) * u), "dp-fixed-point-geo",
                 ctx + str(" geometric factor [%d][%d]: %g became %g although data = geo*model", i, bb % N, g0[i][bb % N], eg[i][bb % N]));
    }

  // ---------------------------------------------------------------------------- wide dynamic range (round-4 extension)
  // as in run_config: compact source (model * 2^-(step*|tangential offset|), optionally 0 at the fan edge), factors k/8 * 2^-e,
  // e = 0..26, some exactly 0, sometimes one block factor >= 16384 on a class far below find_max()/10000
  {
    ++g_stats.dp_wide;
    const int step = std::max(1, (rng.range(0, 2) == 0 ? 18 : rng.coin() ? 26 : 40) / std::max(h, 1));
    const bool zero_edge = h >= 1 && rng.range(0, 2) == 0;
    DetPairData model_w = model;
    for_dp(cmodel, [&](int a, int b) {
      const int o = std::abs(b - a - N / 2);
      model_w(a, b) = (zero_edge && o == h) ? 0.F : std::ldexp(cmodel(a, b), -(o * step));
    });
    auto wide_factor = [&]() -> float {
      if (rng.range(0, 7) == 0)
        return 0.F;
      return std::ldexp(rng.range(4, 12) / 8.F, -rng.range(0, 26));
    };
    const std::string wctx = ctx + str(" [wide: model * 2^-(%d*|tang offset|)%s]", step, zero_edge ? ", 0 at the fan edge" : "");
    {
      BlockData blk(IndexRange2D(nb, nb)), mb(IndexRange2D(nb, nb)), eb(IndexRange2D(nb, nb)), mm(IndexRange2D(nb, nb));
      for (int i = 0; i < nb; ++i)
        for (int j = 0; j < nb; ++j)
          blk[i][j] = wide_factor();
      DetPairData d2 = model_w;
      apply_block_norm(d2, blk, true);
      make_block_data(mb, d2);
      make_block_data(mm, model_w);
      if (mb.find_max() > 0 && rng.coin())
        {
          const float mmx = mm.find_max();
          std::vector<std::pair<int, int>> low, top;
          for (int i = 0; i < nb; ++i)
            for (int j = 0; j < nb; ++j)
              if (mm[i][j] == mmx)
                top.push_back(std::make_pair(i, j));
              else if (mm[i][j] > 0 && mm[i][j] * 49152.F * 4.0e4F < mmx * 0.5F)
                low.push_back(std::make_pair(i, j));
          if (!low.empty() && !top.empty())
            {
              const std::pair<int, int> q = low[rng.range(0, static_cast<int>(low.size()) - 1)];
              blk[top[0].first][top[0].second] = rng.range(4, 12) / 8.F;
              blk[q.first][q.second] = rng.range(4, 12) / 8.F * 32768.F;
              d2 = model_w;
              apply_block_norm(d2, blk, true);
              make_block_data(mb, d2);
              ++g_stats.wide_big;
            }
        }
      if (mb.find_max() > 0)
        {
          emit(str("dpblk %d", nb) + dump_tab(blk), "ok");
          emit("dpfan" + dump_dp(model_w), "ok");
          emit("dpappblk 1", dump_dp(d2).substr(1));
          emit("dpfan" + dump_dp(d2), "ok");
          emit("dpmkblk", dump_tab(mb).substr(1));
          iterate_block_norm(eb, mb, model_w);
          emit("dpblk2" + dump_tab(mb), "ok");
          emit("dpfan" + dump_dp(model_w), "ok");
          emit("dpiterblk", dump_tab(eb).substr(1));
          const float thr = mb.find_max() / 10000.F;
          for (int i = 0; i < nb; ++i)
            for (int j = 0; j < nb; ++j)
              {
                if (mb[i][j] < thr)
                  ++g_stats.wide_below_threshold;
                if (mb[i][j] == 0)
                  oracle(eb[i][j] == 0.F, "dp-fixed-point-block-wide-zero-class",
                         wctx + str(" block pair (%d,%d): measured block sum 0 but iterate_block_norm returned %g", i, j, eb[i][j]));
                else if (blk[i][j] < 10000.F)
                  oracle(close_rel(eb[i][j], blk[i][j], 4. * (2 * cpb * cpb + 6) * u), "dp-fixed-point-block-wide",
                         wctx + str(" block pair (%d,%d): factor %g became %g although data = block*model (measured block sum %g, largest %g)", i, j,
                                    blk[i][j], eb[i][j], mb[i][j], mb.find_max()));
                else
                  oracle(eb[i][j] == 0.F || close_rel(eb[i][j], blk[i][j], 1e-5), "dp-block-wide-factor-above-10000",
                         wctx + str(" block pair (%d,%d): factor %g >= 10000 must come back as itself or as 0, got %g", i, j, blk[i][j], eb[i][j]));
              }
        }
    }
    if (cpb % 2 == 0 && cpb >= 2)
      {
        const int half = cpb / 2;
        GeoData g0(IndexRange2D(half, N)), mg(IndexRange2D(half, N)), eg(IndexRange2D(half, N));
        for (int i = 0; i < half; ++i)
          for (int j = 0; j < N; ++j)
            g0[i][j] = wide_factor();
        DetPairData d3 = model_w;
        apply_geo_norm(d3, g0, true);
        make_geo_data(mg, d3);
        if (mg.find_max() > 0)
          {
            emit(str("dpgeo %d", half) + dump_tab(g0), "ok");
            emit("dpfan" + dump_dp(model_w), "ok");
            emit("dpappgeo 1", dump_dp(d3).substr(1));
            emit("dpfan" + dump_dp(d3), "ok");
            emit("dpmkgeo", dump_tab(mg).substr(1));
            iterate_geo_norm(eg, mg, model_w);
            emit("dpgeo2" + dump_tab(mg), "ok");
            emit("dpfan" + dump_dp(model_w), "ok");
            emit("dpitergeo", dump_tab(eg).substr(1));
            const float thr = mg.find_max() / 10000.F;
            for (int i = 0; i < half; ++i)
              for (int j = 0; j < N; ++j)
                {
                  if (mg[i][j] < thr)
                    ++g_stats.wide_below_threshold;
                  if (mg[i][j] == 0)
                    oracle(eg[i][j] == 0.F, "dp-fixed-point-geo-wide-zero-class",
                           wctx + str(" geometric factor [%d][%d]: measured class sum 0 but iterate_geo_norm returned %g", i, j, eg[i][j]));
                  else
                    oracle(close_rel(eg[i][j], g0[i][j], 4. * (2 * (2 * nb + 3) + 4) * u), "dp-fixed-point-geo-wide",
                           wctx + str(" geometric factor [%d][%d]: %g became %g although data = geo*model (measured class sum %g, largest %g)", i, j,
                                      g0[i][j], eg[i][j], mg[i][j], mg.find_max()));
                }
          }
      }
  }
}

// ---------------------------------------------------------------------------------------------------------------------
// multiply_crystal_factors on compressed / TOF data and scanners with virtual crystals: each bin is set to
// global_factor (/ number of TOF bins) times the sum, over the detector pairs of the bin, of the product of the two factors

static void
run_mcf(vh::Rng& rng, const Cfg& c, int span, int mash, bool tof)
{
  shared_ptr<Scanner> sc = make_block_scanner(c, tof ? 5 : -1);
  const int N = sc->get_num_detectors_per_ring(), R = sc->get_num_rings();
  shared_ptr<ProjDataInfo> pdi = vh::make_pdi(sc, span, c.max_delta, N / 2 / mash, c.num_tang, false, tof ? 1 : 0);
  const std::string ctx = str("[multiply_crystal_factors type=%d N=%d rings=%d span=%d max_delta=%d view mashing=%d num_tang=%d TOF bins=%d]",
                              c.type, N, R, span, c.max_delta, mash, c.num_tang, pdi->get_num_tof_poss());
  ++g_stats.mcf_configs;
  shared_ptr<ExamInfo> ex = std::make_shared<ExamInfo>();
  Array<2, float> eff(IndexRange2D(R, N));
  for (int r = 0; r < R; ++r)
    for (int a = 0; a < N; ++a)
      eff[r][a] = rng.range(4, 12) / 8.F;
  const float gf = rng.range(1, 6) / 2.F;
  ProjDataInMemory pdm(ex, pdi);
  pdm.fill(-5.F);
  multiply_crystal_factors(pdm, eff, gf);

  shared_ptr<ProjDataInfo> nontof(pdi->create_non_tof_clone());
  const auto& cyl = dynamic_cast<const ProjDataInfoCylindricalNoArcCorr&>(*nontof);
  typedef std::tuple<int, int, int, int> B4;
  std::map<B4, std::pair<double, int>> expected;
  for (int ra = 0; ra < R; ++ra)
    for (int a = 0; a < N; ++a)
      for (int rb = ra; rb < R; ++rb)
        for (int b = 0; b < N; ++b)
          {
            if (a == b || (rb == ra && b < a))
              continue; // every unordered pair of detectors once
            DetectionPositionPair<> dpp(DetectionPosition<>(a, ra, 0), DetectionPosition<>(b, rb, 0));
            Bin bin;
            if (cyl.get_bin_for_det_pos_pair(bin, dpp) != Succeeded::yes)
              continue;
            if (bin.segment_num() < nontof->get_min_segment_num() || bin.segment_num() > nontof->get_max_segment_num()
                || bin.tangential_pos_num() < nontof->get_min_tangential_pos_num()
                || bin.tangential_pos_num() > nontof->get_max_tangential_pos_num()
                || bin.axial_pos_num() < nontof->get_min_axial_pos_num(bin.segment_num())
                || bin.axial_pos_num() > nontof->get_max_axial_pos_num(bin.segment_num()))
              continue;
            auto& e = expected[B4(bin.segment_num(), bin.axial_pos_num(), bin.view_num(), bin.tangential_pos_num())];
            e.first += static_cast<double>(eff[ra][a]) * eff[rb][b];
            e.second += 1;
          }
  const int ntof = pdi->get_num_tof_poss();
  for (int s = pdi->get_min_segment_num(); s <= pdi->get_max_segment_num(); ++s)
    for (int ax = pdi->get_min_axial_pos_num(s); ax <= pdi->get_max_axial_pos_num(s); ++ax)
      for (int k = pdi->get_min_tof_pos_num(); k <= pdi->get_max_tof_pos_num(); ++k)
        {
          const Sinogram<float> sino = pdm.get_sinogram(ax, s, false, k);
          for (int v = pdi->get_min_view_num(); v <= pdi->get_max_view_num(); ++v)
            for (int tp = pdi->get_min_tangential_pos_num(); tp <= pdi->get_max_tangential_pos_num(); ++tp)
              {
                ++g_stats.mcf_bins;
                const auto it = expected.find(B4(s, ax, v, tp));
                const double e = it == expected.end() ? 0. : it->second.first * gf / ntof;
                const int n = it == expected.end() ? 0 : it->second.second;
                oracle(close_rel(sino[v][tp], e, 4. * (2 * n + 3) * 5.97e-8), "multiply-crystal-factors-bin",
                       ctx + str(" bin(seg=%d ax=%d view=%d tang=%d tof=%d): %g, but %g/%d * sum over its %d detector pairs of eff*eff = %g", s, ax, v,
                                 tp, k, sino[v][tp], gf, ntof, n, e));
              }
        }
}

// ---------------------------------------------------------------------------------------------------------------------
// end to end: ML_estimate_component_based_normalisation on a tiny scanner, output files under <implfile>_ml*

template <class A>
static bool
read_array(A& a, const std::string& filename)
{
  std::ifstream in(filename.c_str());
  if (!in)
    return false;
  in >> a;
  return static_cast<bool>(in);
}

struct MLFlags
{
  bool do_geo = true, do_block = true, sym_per_block = true, do_KL = false;
};

static void
run_end_to_end(vh::Rng& rng, const Cfg& c, const std::string& prefix, bool poisson_data, const MLFlags fl = MLFlags())
{
  ++g_stats.ml_runs;
  shared_ptr<Scanner> sc = make_block_scanner(c);
  const int N = sc->get_num_detectors_per_ring();
  shared_ptr<ProjDataInfo> pdi = vh::make_pdi(sc, 1, c.max_delta, N / 2, c.num_tang, false);
  shared_ptr<ExamInfo> ex = std::make_shared<ExamInfo>();
  const std::string ctx
      = str("[ML_estimate type=%d ntb=%d tcpb_phys=%d nab=%d acpb_phys=%d blocks/bucket=%dx%d max_delta=%d num_tang=%d %s do_geo=%d do_block=%d "
            "do_symmetry_per_block=%d do_KL=%d]",
            c.type, c.ntb, c.tcpb_phys, c.nab, c.acpb_phys, c.abpb, c.tbpb, c.max_delta, c.num_tang, poisson_data ? "Poisson" : "exact", fl.do_geo,
            fl.do_block, fl.sym_per_block, fl.do_KL);
  const int vt = sc->get_num_virtual_transaxial_crystals_per_block(), va = sc->get_num_virtual_axial_crystals_per_block();
  const int acpb_p = sc->get_num_axial_crystals_per_block() - va, tcpb_p = sc->get_num_transaxial_crystals_per_block() - vt;
  const int nab = sc->get_num_axial_blocks(), ntb = sc->get_num_transaxial_blocks();
  // the basic unit of the geometric symmetry as documented: a block, or (do_symmetry_per_block == false and several buckets) a bucket
  const int unit_a = (!fl.sym_per_block && sc->get_num_axial_buckets() > 1) ? acpb_p * sc->get_num_axial_blocks_per_bucket() : acpb_p;
  const int unit_t = (!fl.sym_per_block && sc->get_num_transaxial_buckets() > 1) ? tcpb_p * sc->get_num_transaxial_blocks_per_bucket() : tcpb_p;

  // model projection data: positive everywhere
  ProjDataInMemory model_pd(ex, pdi);
  for (int s = model_pd.get_min_segment_num(); s <= model_pd.get_max_segment_num(); ++s)
    {
      SegmentBySinogram<float> seg = model_pd.get_empty_segment_by_sinogram(s);
      for (auto it = seg.begin_all(); it != seg.end_all(); ++it)
        *it = static_cast<float>(rng.range(20, 60));
      model_pd.set_segment(seg);
    }
  FanProjData model_fan;
  make_fan_data_remove_gaps(model_fan, model_pd);
  const int Rp = model_fan.get_num_rings(), Np = model_fan.get_num_detectors_per_ring();
  DetectorEfficiencies true_eff(IndexRange2D(Rp, Np));
  for (int r = 0; r < Rp; ++r)
    for (int a = 0; a < Np; ++a)
      true_eff[r][a] = rng.range(6, 10) / 8.F;
  FanProjData mean_fan = model_fan;
  apply_efficiencies(mean_fan, true_eff, true);
  if (poisson_data)
    {
      std::vector<float> vals;
      for_canon(mean_fan, [&](int ra, int a, int rb, int b) {
        if (rb > ra || a < b % Np)
          vals.push_back(poisson(rng, mean_fan(ra, a, rb, b)));
      });
      std::size_t k = 0;
      fill_sym(mean_fan, [&]() { return vals[k++]; });
    }
  ProjDataInMemory measured_pd(ex, pdi);
  set_fan_data_add_gaps(measured_pd, mean_fan, 0.F);

  const int num_eff = 6, num_iter = 2;
  int iters_written = num_iter; // outer iterations whose files are compared
  const bool do_geo = fl.do_geo && unit_t % 2 == 0, do_block = fl.do_block;
  try
    {
      ML_estimate_component_based_normalisation(prefix, measured_pd, model_pd, num_eff, num_iter, do_geo, do_block, fl.sym_per_block,
                                                fl.do_KL, /*do_display*/ false);
    }
  catch (const std::exception& e)
    {
      std::string what = e.what();
      for (auto& ch : what)
        if (ch == '\n' || ch == '\r')
          ch = ' ';
      if (fl.do_KL && what.find("format") != std::string::npos)
        { // the files of the first outer iteration have been written: they are compared below
          candidate(false, KEY_ML_KL, ctx + " ML_estimate_component_based_normalisation threw: " + what.substr(0, 160));
          iters_written = 1;
        }
      else
        {
          oracle(false, "ml-estimate-throws", ctx + " ML_estimate_component_based_normalisation threw: " + what.substr(0, 160));
          return;
        }
    }
  catch (...)
    {
      oracle(false, "ml-estimate-throws", ctx + " ML_estimate_component_based_normalisation threw");
      return;
    }

  // the same computation from the building blocks (each of them checked above), step by step as documented
  FanProjData measured_fan, fan;
  make_fan_data_remove_gaps(measured_fan, measured_pd);
  for_canon(model_fan, [&](int ra, int a, int rb, int b) {
    if (model_fan(ra, a, rb, b) == 0)
      measured_fan(ra, a, rb, b) = 0;
  });
  DetectorEfficiencies sums(IndexRange2D(Rp, Np)), eff(IndexRange2D(Rp, Np));
  GeoData3D measured_geo(unit_a, unit_t / 2, Rp, Np), norm_geo(unit_a, unit_t / 2, Rp, Np);
  BlockData3D measured_block(nab, ntb, nab - 1, ntb - 1), norm_block(nab, ntb, nab - 1, ntb - 1);
  make_fan_sum_data(sums, measured_fan);
  make_geo_data(measured_geo, measured_fan);
  make_block_data(measured_block, measured_fan);
  auto cmp2 = [&](const Array<2, float>& x, const Array<2, float>& y, const std::string& what) {
    bool ok = x.get_length() == y.get_length();
    if (ok)
      for (int r = x.get_min_index(); r <= x.get_max_index() && ok; ++r)
        for (int a = x[r].get_min_index(); a <= x[r].get_max_index(); ++a)
          if (!close_rel(x[r][a], y[r][a], 1e-5))
            {
              ok = false;
              break;
            }
    oracle(ok, "ml-estimate-eff", ctx + " file " + what + " differs from the documented sequence of iterate_* steps");
  };
  double prev_kl = -1;
  for (int iter = 1; iter <= iters_written; ++iter)
    {
      if (iter == 1)
        {
          eff.fill(std::sqrt(sums.sum() / model_fan.sum()));
          norm_geo.fill(1);
          norm_block.fill(1);
        }
      fan = model_fan;
      apply_geo_norm(fan, norm_geo);
      apply_block_norm(fan, norm_block);
      // The descent statement is about a symmetric product model.  Estimated block / geometric factors give the two stored
      // copies (ra,a,ra,b), (ra,b,ra,a) of an in-ring LOR different values (they belong to different block pairs), so from
      // the second outer iteration on the model in use need not be symmetric: the oracle is evaluated only when it is.
      double asym = 0;
      for_canon(fan, [&](int ra, int a, int rb, int b) {
        if (rb == ra)
          asym = std::max(asym, std::fabs(static_cast<double>(fan(ra, a, ra, b % Np)) - fan(ra, b % Np, ra, a))
                                    / std::max(1e-30, static_cast<double>(fan(ra, a, ra, b % Np))));
      });
      const bool model_symmetric = asym <= 1e-6;
      for (int e = 1; e <= num_eff; ++e)
        {
          // KL between the data and (model*geo*block)*eff*eff before this step
          FanProjData est = fan;
          apply_efficiencies(est, eff, true);
          const double kl_before = kl_pairs(measured_fan, est, 0.);
          iterate_efficiencies(eff, sums, fan);
          DetectorEfficiencies from_file;
          const std::string fn = str("%s_eff_%d_%d.out", prefix.c_str(), iter, e);
          if (!read_array(from_file, fn))
            oracle(false, "ml-estimate-output", ctx + " cannot read " + fn);
          else
            {
              cmp2(from_file, eff, str("eff_%d_%d", iter, e));
              // ORACLE through the top-level function: the efficiencies it wrote do not increase the KL distance
              FanProjData est2 = fan;
              apply_efficiencies(est2, from_file, true);
              const double kl_after = kl_pairs(measured_fan, est2, 0.);
              if (model_symmetric)
                oracle(kl_after <= kl_before * (1 + 1e-5) + 1e-6, "ml-estimate-kl-descent",
                     ctx + str(" outer iteration %d efficiency iteration %d: KL over detector pairs went from %.9g to %.9g", iter, e,
                               kl_before, kl_after));
              prev_kl = kl_after;
            }
        }
      fan = model_fan;
      apply_efficiencies(fan, eff);
      apply_block_norm(fan, norm_block);
      if (do_geo)
        iterate_geo_norm(norm_geo, measured_geo, fan);
      {
        GeoData3D from_file;
        const std::string fn = str("%s_geo_%d.out", prefix.c_str(), iter);
        if (!read_array(from_file, fn))
          oracle(false, "ml-estimate-output", ctx + " cannot read " + fn);
        else
          {
            bool ok = from_file.get_num_axial_crystals_per_block() == unit_a
                      && from_file.get_half_num_transaxial_crystals_per_block() == unit_t / 2;
            if (ok)
              for_geo(model_fan, norm_geo, [&](int ra, int a, int rb, int b) {
                if (!close_rel(from_file(ra, a, rb, b), norm_geo(ra, a, rb, b), 1e-5))
                  ok = false;
              });
            oracle(ok, "ml-estimate-geo", ctx + str(" file geo_%d differs from the documented sequence of iterate_* steps", iter));
          }
      }
      fan = model_fan;
      apply_efficiencies(fan, eff);
      apply_geo_norm(fan, norm_geo);
      if (do_block)
        iterate_block_norm(norm_block, measured_block, fan);
      {
        BlockData3D from_file;
        const std::string fn = str("%s_block_%d.out", prefix.c_str(), iter);
        if (!read_array(from_file, fn))
          oracle(false, "ml-estimate-output", ctx + " cannot read " + fn);
        else
          {
            bool ok = from_file.get_num_rings() == norm_block.get_num_rings()
                      && from_file.get_num_detectors_per_ring() == norm_block.get_num_detectors_per_ring();
            if (ok)
              for_canon(norm_block, [&](int ra, int a, int rb, int b) {
                if (!close_rel(from_file(ra, a, rb, b), norm_block(ra, a, rb, b), 1e-5))
                  ok = false;
              });
            oracle(ok, "ml-estimate-block", ctx + str(" file block_%d differs from the documented sequence of iterate_* steps", iter));
          }
      }
    }
  if (!poisson_data && iters_written == num_iter)
    { // data generated exactly from model*eff*eff: after the iterations the fan sums of the estimate reproduce those of the data
      FanProjData est = model_fan;
      apply_geo_norm(est, norm_geo);
      apply_block_norm(est, norm_block);
      apply_efficiencies(est, eff, true);
      const double kl0 = kl_pairs(measured_fan, model_fan, 0.);
      const double kl = kl_pairs(measured_fan, est, 0.);
      oracle(kl <= 1e-3 * kl0, "ml-estimate-fit",
             ctx + str(" data generated exactly from the model: KL of the estimate %.6g is not small against KL of the bare model %.6g", kl, kl0));
    }
  (void)prev_kl;
}

// Fixed (seed-independent) minimal cases, directly on FanProjData: the geometric fixed point with an odd number of rings
// (regression case of the defect repaired by commit 58079aa5c, strict) and the known finding about KL(FanProjData).
static void
run_known_reproductions()
{
  { // geometric factors: 5 rings of 8 detectors, blocks of 1x2 crystals, ring differences <= 2, half fan 2
    const int Rp = 5, Np = 8, md = 2, fs = 5, acpb = 1, tcpb = 2;
    vh::Rng rng(3);
    FanProjData model(Rp, Np, md, fs), noisy(Rp, Np, md, fs);
    fill_sym(model, [&]() { return static_cast<float>(1 + rng.range(0, 7)); });
    noisy = model;
    for_canon(noisy, [&](int ra, int a, int rb, int b) { noisy(ra, a, rb, b) *= (4 + ((ra * 7 + rb * 3 + a + (b % Np)) % 9)) / 8.F; });
    GeoData3D meas(acpb, tcpb / 2, Rp, Np), ghat(acpb, tcpb / 2, Rp, Np), meas2(acpb, tcpb / 2, Rp, Np), est(acpb, tcpb / 2, Rp, Np);
    make_geo_data(meas, noisy);
    iterate_geo_norm(ghat, meas, model); // the ML estimate: a consistent set of geometric factors
    FanProjData data = model;
    apply_geo_norm(data, ghat, true); // data generated exactly from it
    make_geo_data(meas2, data);
    iterate_geo_norm(est, meas2, model);
    for_geo(model, ghat, [&](int ra, int a, int rb, int b) {
      oracle(close_rel(est(ra, a, rb, b), ghat(ra, a, rb, b), 1e-5), "fixed-point-geo",
             str("[FanProjData(5 rings, 8 detectors, max ring diff 2, fan 5), GeoData3D(1, 1, 5, 8)] geometric factor (%d,%d,%d,%d): "
                    "%g became %g under iterate_geo_norm although data = apply_geo_norm(model, factors)",
                    ra, a, rb, b % Np, ghat(ra, a, rb, b), est(ra, a, rb, b)));
    });
  }
  { // block data: 1 ring of 8 detectors in 2 blocks of 4, half fan 2 (detectors 0 and 2 share a block); cf. C20_block_data_index_range_fails
    const FanProjData model(1, 8, 0, 5);
    const BlockData3D probe(1, 2, 0, 1);
    bool ok = true;
    for_canon(model, [&](int ra, int a, int rb, int b) { ok = ok && probe.is_in_data(ra / 1, a / 4, rb / 1, b / 4); });
    candidate(ok, KEY_BLOCK,
              "[FanProjData(1,8,0,5) with BlockData3D(1,2,0,1), 2 blocks of 4 crystals] detectors 0 and 2 lie in the fan and in one block: "
              "BlockData3D::is_in_data(0,0,0,0) is false, apply_block_norm / make_block_data / iterate_block_norm index the block data out of range");
  }
  { // odd number of crystals per block: 1 ring of 12 detectors in 4 blocks of 3, half fan 2; GeoData3D as ML_estimate_... builds it
    const int Rp = 1, Np = 12, tcpb = 3;
    vh::Rng rng(5);
    FanProjData model(Rp, Np, 0, 5), noisy(Rp, Np, 0, 5);
    fill_sym(model, [&]() { return static_cast<float>(1 + rng.range(0, 7)); });
    noisy = model;
    for_canon(noisy, [&](int ra, int a, int rb, int b) { noisy(ra, a, rb, b) *= (4 + ((a * 5 + (b % Np) * 3) % 9)) / 8.F; });
    GeoData3D meas(1, tcpb / 2, Rp, Np), ghat(1, tcpb / 2, Rp, Np);
    make_geo_data(meas, noisy);
    iterate_geo_norm(ghat, meas, model);
    FanProjData data = model;
    apply_geo_norm(data, ghat, true);
    const FanProjData& cd = data;
    const FanProjData& cm = model;
    for_canon(model, [&](int ra, int a, int rb, int b) {
      const int a2 = (a + tcpb) % Np, b2 = (b + tcpb) % Np;
      const double f1 = static_cast<double>(cd(ra, a, rb, b)) / cm(ra, a, rb, b), f2 = static_cast<double>(cd(ra, a2, rb, b2)) / cm(ra, a2, rb, b2);
      candidate(close_rel(f1, f2, 16 * 5.97e-8), KEY_GEO_ODD,
                str("[FanProjData(1,12,0,5), 4 blocks of 3 crystals, GeoData3D(1,3/2,1,12)] entries (0,%d,0,%d) and (0,%d,0,%d) differ by one block but "
                    "apply_geo_norm gives them the geometric factors %g and %g",
                    a, b % Np, a2, b2, f1, f2));
    });
  }
  { // 1 crystal per block: GeoData3D(.., 0, ..)
    std::fflush(g_ops);
    std::fflush(g_out);
    std::fflush(g_orc);
    const pid_t pid = fork();
    if (pid == 0)
      {
        FanProjData model(2, 4, 1, 3);
        GeoData3D mg(2, 0, 2, 4);
        make_geo_data(mg, model);
        _exit(0);
      }
    int status = 0;
    waitpid(pid, &status, 0);
    candidate(WIFEXITED(status) && WEXITSTATUS(status) == 0, KEY_GEO_ONE,
              str("[make_geo_data(GeoData3D(2,0,2,4), FanProjData(2,4,1,3)), 1 transaxial crystal per block] terminates the process (%s %d): "
                  "num_transaxial_detectors / (2*0)",
                  WIFSIGNALED(status) ? "signal" : "exit", WIFSIGNALED(status) ? WTERMSIG(status) : WEXITSTATUS(status)));
  }
  { // KL: 3 rings of 6 detectors, all ring differences, half fan 1
    const int Rp = 3, Np = 6, md = 2, h = 1;
    vh::Rng rng(2);
    for (int skip = 0; skip < 4; ++skip)
      rng.next(); // (the stream position at which this data set was found)
    FanProjData model(Rp, Np, md, 2 * h + 1), data(Rp, Np, md, 2 * h + 1);
    fill_sym(model, [&]() { return static_cast<float>(rng.range(1, 20)); });
    fill_sym(data, [&]() { return static_cast<float>(rng.range(0, 12)); });
    Array<2, float> sums(IndexRange2D(Rp, Np));
    make_fan_sum_data(sums, data);
    DetectorEfficiencies e(IndexRange2D(Rp, Np));
    e.fill(std::sqrt(sums.sum() / model.sum()));
    double prev = -1, prev_lib = -1;
    for (int it = 0; it <= 6; ++it)
      {
        FanProjData est = model;
        apply_efficiencies(est, e, true);
        const double kl = kl_pairs(data, est, 0.), kl_lib = KL(data, est, 0.);
        if (it > 0)
          {
            oracle(kl <= prev * (1 + 1e-5) + 1e-6, "kl-descent",
                   str("[3 rings x 6 detectors] efficiency iteration %d: KL over detector pairs went from %.9g to %.9g", it, prev, kl));
            candidate(kl_lib <= prev_lib * (1 + 1e-5) + 1e-6, KEY_KL,
                      str("[FanProjData(3 rings, 6 detectors, max ring diff 2, fan 3), symmetric data] iterate_efficiencies step %d: "
                          "KL(FanProjData) went UP from %.9g to %.9g while the KL summed once per detector pair went down from %.9g to %.9g",
                          it, prev_lib, kl_lib, prev, kl));
          }
        prev = kl;
        prev_lib = kl_lib;
        iterate_efficiencies(e, sums, model);
      }
  }
}

int
main(int argc, char** argv)
{
  if (argc < 5)
    return 2;
  vh::quiet();
  vh::Rng rng(std::strtoull(argv[1], nullptr, 10) * 1315423911ULL + 20);
  const bool thorough = std::string(argv[2]) == "thorough";
  g_ops = std::fopen(argv[3], "w");
  g_out = std::fopen(argv[4], "w");
  g_orc = std::fopen((std::string(argv[4]) + ".oracle").c_str(), "w");
  if (!g_ops || !g_out || !g_orc)
    return 2;

  std::vector<Cfg> cfgs;
  // fixed tiny configurations (exact rational sweep on the model side) and one of each kind
  cfgs.push_back(Cfg{ 0, 3, 2, 1, 1, 0, 3 });  // 1 ring, 6 detectors
  cfgs.push_back(Cfg{ 0, 2, 2, 2, 1, 1, 3 });  // 2 rings, 4 detectors
  cfgs.push_back(Cfg{ 1, 4, 2, 1, 1, 0, 7 });  // transaxial gaps, 1 ring, 8 physical detectors
  cfgs.push_back(Cfg{ 2, 4, 2, 2, 2, 3, 7 });  // gaps both ways
  cfgs.push_back(Cfg{ 0, 4, 4, 2, 2, 3, 9 });
  cfgs.push_back(Cfg{ 2, 4, 4, 2, 2, 4, 11 });
  // generated
  const int want = thorough ? 160 : 14;
  int guard = 0;
  while (static_cast<int>(cfgs.size()) < want + 6 && ++guard < 100000)
    {
      Cfg c;
      c.type = rng.range(0, 2);
      c.ntb = rng.range(2, thorough ? 8 : 6);
      c.tcpb_phys = rng.range(1, thorough ? 6 : 4);
      c.nab = rng.range(1, 3);
      c.acpb_phys = rng.range(1, 3);
      const int vt = c.type >= 1, va = c.type == 2;
      const int N = c.ntb * (c.tcpb_phys + vt), Np = c.ntb * c.tcpb_phys, R = c.nab * (c.acpb_phys + va) - va;
      if (N % 2 || Np % 2 || N < 4 || Np < 4)
        continue;
      c.max_delta = rng.range(0, R - 1);
      c.num_tang = rng.range(3, N - 1);
      // the fan (after gap removal) must be smaller than the ring (assert in FanProjData's constructor)
      const int h = c.num_tang % 2 ? c.num_tang / 2 : c.num_tang / 2 - 1;
      const int fan_size = 2 * h + 1;
      const int new_fan = fan_size - (fan_size / (c.tcpb_phys + vt)) * vt;
      if (h < 1 || 2 * (new_fan / 2) + 1 >= Np)
        continue;
      // keep the amount of data per configuration bounded
      const long entries = static_cast<long>(R) * N * (c.max_delta + 1) * fan_size;
      if (entries > (thorough ? 60000 : 9000))
        continue;
      cfgs.push_back(c);
    }

  run_known_reproductions();
  for (std::size_t i = 0; i < cfgs.size(); ++i)
    {
      run_config(rng, cfgs[i], thorough);
      std::fflush(g_ops);
      std::fflush(g_out);
      std::fflush(g_orc);
    }
  for (int kind = 0; kind < 3; ++kind)
    run_error_config(rng, kind);
  // the DetPairData family on the same scanners (every 2nd generated one in the quick tier)
  for (std::size_t i = 0; i < cfgs.size(); ++i)
    if (thorough || i < 6 || i % 2 == 0)
      {
        run_detpair(rng, cfgs[i], thorough);
        std::fflush(g_ops);
        std::fflush(g_out);
        std::fflush(g_orc);
      }
  // multiply_crystal_factors: span 1 / 3, view mashing, TOF, scanners with virtual crystals (span 3 with max ring difference 4 or 1:
  // complete segments, cf. the known finding of C01 on clipped outermost segments)
  {
    const int reps = thorough ? 6 : 1;
    for (int rep = 0; rep < reps; ++rep)
      for (int type = 0; type <= 2; ++type)
        for (int variant = 0; variant < 6; ++variant)
          {
            Cfg c{ type, rep % 2 ? 6 : 4, rep % 3 == 2 ? 4 : 2, 3, 2, 0, 0 };
            const int N = c.ntb * (c.tcpb_phys + (type >= 1)), R = c.nab * (c.acpb_phys + (type == 2)) - (type == 2);
            const int span = variant == 1 || variant == 3 || variant == 5 ? 3 : 1;
            const int mash = variant == 2 || variant == 3 ? 2 : 1;
            const bool tof = variant >= 4;
            if ((N / 2) % mash)
              continue;
            c.max_delta = span == 3 ? (rng.coin() ? 4 : 1) : rng.range(0, R - 1);
            c.num_tang = rng.range(3, N - 1);
            run_mcf(rng, c, span, mash, tof);
          }
  }
  {
    const std::string prefix = std::string(argv[4]) + "_ml";
    run_end_to_end(rng, Cfg{ 0, 4, 2, 2, 2, 3, 5 }, prefix + "0", false);
    run_end_to_end(rng, Cfg{ 0, 4, 2, 2, 2, 3, 5 }, prefix + "1", true);
    run_end_to_end(rng, Cfg{ 2, 4, 2, 2, 2, 4, 5 }, prefix + "2", true);
    if (thorough)
      {
        run_end_to_end(rng, Cfg{ 1, 6, 2, 1, 2, 1, 7 }, prefix + "3", true);
        run_end_to_end(rng, Cfg{ 0, 6, 4, 3, 1, 2, 9 }, prefix + "4", false);
      }
    // once per flag combination, on scanners with several blocks per bucket (2 x 2 transaxial, 2 x 2 / 1 x 2 axial buckets)
    int k = 5;
    for (int bits = 0; bits < 16; ++bits)
      {
        MLFlags fl;
        fl.do_geo = bits & 1;
        fl.do_block = bits & 2;
        fl.sym_per_block = bits & 4;
        fl.do_KL = bits & 8;
        Cfg c{ bits % 3 == 2 ? 2 : 0, 4, 2, 4, 1, 3, 5, /*axial blocks per bucket*/ 2, /*transaxial*/ 2 };
        if (bits % 2)
          c = Cfg{ 1, 4, 2, 2, 2, 3, 5, 2, 2 }; // one axial bucket of 2 blocks, transaxial virtual crystals
        run_end_to_end(rng, c, prefix + str("%d", k++), bits % 4 != 0, fl);
        if (thorough)
          run_end_to_end(rng, Cfg{ 0, 6, 2, 2, 2, 2, 7, 1, 3 }, prefix + str("%d", k++), true, fl);
      }
  }

  std::fprintf(g_orc,
               "INFO configs=%ld with_gaps=%ld window_bins=%ld fan_entries=%ld block_same_block_in_fan=%ld geo_one_crystal_per_block=%ld "
               "geo_odd_crystals_per_block=%ld kl_runs=%ld detpair_configs=%ld detpair_sinogram_pairs=%ld detpair_entries=%ld "
               "multiply_crystal_factors_configs=%ld multiply_crystal_factors_bins=%ld ml_estimate_runs=%ld "
               "detpair_oblique_sinogram_pairs=%ld wide_range_configs=%ld wide_range_block_runs=%ld wide_range_geo_runs=%ld "
               "wide_range_detpair_configs=%ld wide_range_classes_below_max_over_10000=%ld wide_range_factor_above_10000_runs=%ld\n",
               g_stats.configs, g_stats.gap_configs, g_stats.bins, g_stats.entries, g_stats.block_same_block, g_stats.geo_skipped,
               g_stats.geo_odd, g_stats.kl_runs, g_stats.dp_configs, g_stats.dp_sinograms, g_stats.dp_entries, g_stats.mcf_configs,
               g_stats.mcf_bins, g_stats.ml_runs, g_stats.dp_sinograms_oblique, g_stats.wide_configs, g_stats.wide_block, g_stats.wide_geo,
               g_stats.dp_wide, g_stats.wide_below_threshold, g_stats.wide_big);
  std::fprintf(g_orc, "ORACLE-DONE checks=%ld fails=%ld candidates=%ld\n", g_checks, g_fails, g_candidates);
  std::fclose(g_ops);
  std::fclose(g_out);
  std::fclose(g_orc);
  return 0;
}
